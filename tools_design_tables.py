#!/usr/bin/env python3
"""Prints the markdown tables for DESIGN.md §11.3 (findings) and §11.4 (seeded changes) from known_findings.json / seeded/."""
import json, glob, os
ROOT = os.path.dirname(os.path.abspath(__file__))
kf = json.load(open(os.path.join(ROOT, "known_findings.json")))
print("| property | status | commit | what failed |\n|---|---|---|---|")
for e in kf:
    print(f"| {e['property']} | {e['status']} | {e.get('commit','-')} | {e['what'][:260].replace('|','/')} |")
print()
print("| seed | property | what the change needs to manifest | caught by (first failing obligations) |\n|---|---|---|---|")
for d in sorted(glob.glob(os.path.join(ROOT, "seeded", "*"))):
    try:
        m = json.load(open(os.path.join(d, "meta.json")))
    except Exception:
        continue
    fo = "; ".join(x.split("failed obligation ")[-1].split(" (")[0].split("/", 1)[-1] for x in m.get("failed_obligations", [])[:2])
    print(f"| {os.path.basename(d)} | {m['property']} | {str(m.get('needs',''))[:200].replace('|','/')} | {'CAUGHT: ' + fo if m.get('caught') else 'MISSED'} |")
