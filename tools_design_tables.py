#!/usr/bin/env python3
"""Prints the markdown tables for DESIGN.md §11.3 (findings) and §11.4 (seeded changes) from known_findings.json / seeded/."""
import json, glob, os
ROOT = os.path.dirname(os.path.abspath(__file__))
kf = json.load(open(os.path.join(ROOT, "known_findings.json")))
print("| property | status | commit | what failed |\n|---|---|---|---|")
for e in kf:
    print(f"| {e['property']} | {e['status']} | {e.get('commit','-')} | {e['what'][:260].replace('|','/')} |")
print()
print("| seed | property | what the change needs to manifest | caught by (first failing obligations) |\n|---|---|---|---|")
import sys
SEEDDIRS = [a for a in sys.argv[1:]] or ["seeded"]
for d in sorted(x for sd in SEEDDIRS for x in glob.glob(os.path.join(ROOT, sd, "*"))):
    try:
        m = json.load(open(os.path.join(d, "meta.json")))
    except Exception:
        continue
    fo = "; ".join(x.split("failed obligation ")[-1].split(" (")[0].split("/", 1)[-1] for x in m.get("failed_obligations", [])[:2])
    print(f"| {os.path.basename(d)} | {m['property']} | {str(m.get('needs',''))[:200].replace('|','/')} | {'CAUGHT: ' + fo if m.get('caught') else 'MISSED'} |")
