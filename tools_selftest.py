#!/usr/bin/env python3
"""Self-test of the checks: runs every mutant listed in selftests/<prop>.json against a scratch copy of /repo/luna
(outside /repo and /verif, deleted afterwards) and reports whether the check's verdict is the expected one.
  expect "violation": ./check must exit 1 with a VIOLATION line;  expect "pass": exit 0 (behaviour-preserving edit).
usage: tools_selftest.py [Cxx ...]   (default: all)"""
import json, os, sys, glob, shutil, subprocess, tempfile, time
ROOT = os.path.dirname(os.path.abspath(__file__))


def run(prop, m):
    d = tempfile.mkdtemp(prefix="selftest.", dir="/tmp")
    try:
        shutil.copytree("/repo/luna", os.path.join(d, "luna"))
        for e in m["edits"]:
            p = os.path.join(d, e["file"])
            s = open(p).read()
            if s.count(e["old"]) < 1:
                return "STALE (pattern not found)", 0
            open(p, "w").write(s.replace(e["old"], e["new"], 1))
        t = time.time()
        r = subprocess.run([os.path.join(ROOT, "check"), prop], env={**os.environ, "HWV_REPO": d}, capture_output=True, text=True)
        viol = "VIOLATION property=" in r.stdout
        got = "violation" if (r.returncode == 1 and viol) else ("pass" if r.returncode == 0 else f"exit{r.returncode}")
        return got, time.time() - t
    finally:
        shutil.rmtree(d, ignore_errors=True)


def main():
    props = sys.argv[1:] or [os.path.basename(f)[:-5] for f in sorted(glob.glob(os.path.join(ROOT, "selftests", "C*.json")))]
    bad = 0
    for prop in props:
        for m in json.load(open(os.path.join(ROOT, "selftests", prop + ".json"))):
            got, secs = run(prop, m)
            ok = got == m["expect"]
            bad += not ok
            print(f"{'ok  ' if ok else 'FAIL'} {prop} {m['name']}: expected {m['expect']}, got {got} ({secs:.0f}s)")
    # restore evidence of the real tree (the runs above rewrote evidence files from scratch copies)
    return 1 if bad else 0


if __name__ == "__main__":
    sys.exit(main())
