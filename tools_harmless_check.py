#!/usr/bin/env python3
"""Runs ./check <prop> against a scratch copy of /repo/luna with a behaviour-preserving refactoring applied.
Expected verdict: exit 0.  usage: tools_harmless_check.py <srcdir> <id> ..."""
import json, os, subprocess, sys, shutil, tempfile
ROOT = os.path.dirname(os.path.abspath(__file__))
src = sys.argv[1]
for pid in sys.argv[2:]:
    d = tempfile.mkdtemp(prefix="harmless.", dir="/tmp")
    try:
        shutil.copytree("/repo/luna", os.path.join(d, "luna"))
        r = subprocess.run(f"patch -p1 -s < {os.path.join(src, pid, 'patch.diff')}", shell=True, cwd=d, capture_output=True, text=True)
        if r.returncode != 0:
            print(pid, "PATCH-FAILED", r.stdout[:200]); continue
        r = subprocess.run([os.path.join(ROOT, "check"), pid], env={**os.environ, "HWV_REPO": d}, capture_output=True, text=True)
        lines = [l for l in r.stdout.splitlines() if l.startswith(("VIOLATION", "UNDECIDED", "CHECKER-BROKEN")) or "failed obligation" in l]
        print(pid, "exit", r.returncode, "|", " ;; ".join(l[:150] for l in lines[:4]))
    finally:
        shutil.rmtree(d, ignore_errors=True)
