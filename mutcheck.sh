#!/bin/sh
# usage: mutcheck.sh <prop> <file-relative-to-repo> <python-regex-old> <new>   -- runs ./check on a scratch copy with one edit
set -e
D=$(mktemp -d /tmp/mut.XXXXXX)
cp -r /repo/luna $D/luna
/verif/.venv/bin/python - "$D/$2" "$3" "$4" <<'PY'
import sys,re
p,old,new=sys.argv[1:4]
s=open(p).read()
assert s.count(old)>=1, "pattern not found"
s=s.replace(old,new,1)
open(p,'w').write(s)
PY
set +e
HWV_REPO=$D /verif/check $1 ${5:+--tier $5}; rc=$?; echo "exit=$rc"
rm -rf $D
exit $rc
