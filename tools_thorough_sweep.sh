#!/bin/sh
# runs the thorough tier of every claimed property; prints one line per property
cd "$(dirname "$0")"
[ -x .venv/bin/python ] || ./setup.sh >/dev/null
FROM=${1:-C00}
bad=0
for p in $(.venv/bin/python -c "import json; print(' '.join(c['property_id'] for c in json.load(open('MANIFEST.json'))['checks']))"); do
  [ "$p" \< "$FROM" ] && continue
  s=$(date +%s); out=$(./check $p --tier thorough 2>&1); rc=$?; e=$(date +%s)
  echo "$p exit=$rc $((e-s))s $(echo "$out" | grep -E '^\[C' | head -1)"
  if [ $rc -ne 0 ]; then bad=1; echo "$out" | grep -E "failed|BROKEN|UNDEC|VIOLATION|KNOWN" | head -8; fi
done
exit $bad
