#
# Behavioural-equivalence harness (self-contained; imports luna from PYTHONPATH).
#
# Builds the parent unit with real children, drives every input with a fixed-seed stimulus
# (protocol-plausible phases plus pure-random phases) under amaranth.sim, and hashes -- every cycle --
# the values of all public ports of the parent and of its immediate children.
#
import os
import sys
import random
import hashlib
import warnings
warnings.filterwarnings("ignore")

from amaranth          import Signal, Cat, Elaboratable, Module, Record as _TopRecord
from amaranth.hdl      import Value
from amaranth.hdl.rec  import Record
from amaranth.sim      import Simulator

# ---------------------------------------------------------------------------------------------
# Child capture: record every Elaboratable constructed while a chosen parent's elaborate() runs.
# (Grand-children are constructed later, when the children themselves are elaborated.)
# ---------------------------------------------------------------------------------------------
_capture_stack   = []
_children_of     = {}            # id(parent) -> [child, ...]
_orig_new        = Elaboratable.__new__


def _recording_new(cls, *args, **kwargs):
    self = _orig_new(cls, *args, **kwargs)
    if _capture_stack and not isinstance(self, Module):
        _capture_stack[-1].append(self)
    return self

Elaboratable.__new__ = _recording_new


def capture_children_of(cls):
    """ Wraps cls.elaborate so that the immediate children it creates are recorded. """
    original = cls.elaborate

    def elaborate(self, platform):
        _capture_stack.append([])
        try:
            return original(self, platform)
        finally:
            _children_of.setdefault(id(self), []).extend(_capture_stack.pop())

    cls.elaborate = elaborate


def children_of(parent):
    """ Immediate children, ordered by class name (creation order only breaks ties within a class). """
    kids = _children_of.get(id(parent), [])
    return [k for _, _, k in sorted(((type(k).__name__, i, k) for i, k in enumerate(kids)), key=lambda t: t[:2])]


# ---------------------------------------------------------------------------------------------
# Port discovery through public attributes.
# ---------------------------------------------------------------------------------------------
def collect_signals(obj, out, seen, depth=0):
    """ Appends every Signal reachable through the public attributes of `obj` (Records and plain
        interface objects are flattened; order is by attribute name, so it is tree-independent). """

    if obj is None or isinstance(obj, (int, str, float, bool)):
        return

    if isinstance(obj, Record):
        if id(obj) in seen:
            return
        seen.add(id(obj))
        for name in obj.fields:
            collect_signals(obj.fields[name], out, seen, depth)
        return

    if isinstance(obj, Signal):
        if id(obj) not in seen:
            seen.add(id(obj))
            out.append(obj)
        return

    # data.View and friends.
    if not isinstance(obj, Value) and hasattr(obj, 'as_value'):
        try:
            collect_signals(obj.as_value(), out, seen, depth)
        except Exception:
            pass
        return

    if isinstance(obj, Value):
        return

    if isinstance(obj, (list, tuple)):
        for item in obj:
            collect_signals(item, out, seen, depth)
        return

    if depth >= 3 or id(obj) in seen:
        return
    if not type(obj).__module__.startswith(('luna', 'amaranth.lib.coding')):
        return
    seen.add(id(obj))

    try:
        attributes = vars(obj)
    except TypeError:
        return
    for name in sorted(attributes):
        if name.startswith('_'):
            continue
        collect_signals(attributes[name], out, seen, depth + 1)


def observed_signals(*objects):
    out, seen = [], set()
    for obj in objects:
        collect_signals(obj, out, seen)
    return out


class SigState:
    """ Ordered {Signal: value} mapping (Signals are not hashable; keyed by identity). """

    def __init__(self, pairs=()):
        self._entries = {}
        self.update(pairs)

    def __setitem__(self, signal, value):
        self._entries[id(signal)] = (signal, value)

    def __getitem__(self, signal):
        return self._entries[id(signal)][1]

    def __iter__(self):
        return iter([s for s, _ in self._entries.values()])

    def items(self):
        return list(self._entries.values())

    def update(self, pairs):
        for signal, value in (pairs.items() if hasattr(pairs, 'items') else pairs):
            self[signal] = value

    def copy(self):
        return SigState(self.items())


class Hasher:
    """ SHA-256 over the per-cycle values of a fixed list of signals. """

    def __init__(self, signals, sha):
        self.signals = signals
        self.chunks  = [Cat(*signals[i:i + 64]) for i in range(0, len(signals), 64)]
        self.sizes   = [(len(c) + 7) // 8 for c in self.chunks]
        self.sha     = sha
        self.sha.update(repr([len(s) for s in signals]).encode())

        self.first   = None
        self.toggled = [0] * len(self.chunks)

    def sample(self, ctx):
        values = [int(ctx.get(chunk)) for chunk in self.chunks]
        for value, size in zip(values, self.sizes):
            self.sha.update(value.to_bytes(size, 'little'))
        if self.first is None:
            self.first = values
        self.toggled = [t | (v ^ f) for t, v, f in zip(self.toggled, values, self.first)]

    def never_toggled(self):
        """ Names of observed signals that kept their initial value for the whole run (coverage aid). """
        names = []
        for index, mask in enumerate(self.toggled):
            offset = 0
            for signal in self.signals[index * 64:(index + 1) * 64]:
                if not (mask >> offset) & ((1 << len(signal)) - 1):
                    names.append(signal.name)
                offset += len(signal)
        return names

    def mark(self, text):
        self.sha.update(text.encode())


class UsbDomainWrapper(Elaboratable):
    """ Top level for purely combinational units: adds a free-running register so that the `usb` domain exists. """

    def __init__(self, dut):
        self.dut = dut

    def elaborate(self, platform):
        m = Module()
        m.submodules.dut = self.dut
        heartbeat = Signal()
        m.d.usb += heartbeat.eq(~heartbeat)
        return m


def run_usb_sim(top, signals_fn, stimulus, cycles, sha, *, domain="usb"):
    """ Runs `cycles` cycles.  `stimulus` is a generator: it yields {Signal: value} dicts (the inputs for the
        coming cycle) and is sent a function `get(signal)` that reads the settled values of the current cycle.
        `signals_fn()` is called after elaboration and returns the list of signals to hash. """

    sim = Simulator(top)
    sim.add_clock(1 / 60e6, domain=domain)
    hasher = Hasher(signals_fn(), sha)

    async def testbench(ctx):
        get = lambda s: int(ctx.get(s))
        inputs = next(stimulus)
        for cycle in range(cycles):
            for signal, value in inputs.items():
                ctx.set(signal, value)
            hasher.sample(ctx)
            try:
                inputs = stimulus.send(get)
            except StopIteration:
                raise RuntimeError("stimulus ran out at cycle %d" % cycle)
            await ctx.tick(domain)

    sim.add_testbench(testbench)
    sim.run()
    quiet = hasher.never_toggled()
    if os.environ.get("EQUIV_VERBOSE"):
        sys.stderr.write("observed %d signals for %d cycles; %d never changed: %s\n"
                         % (len(hasher.signals), cycles, len(quiet), " ".join(quiet)))
    return len(hasher.signals)


# ---------------------------------------------------------------------------------------------
# K1_5: parent under test = UTMITranslator on a plain ULPI record (handle_clocking=False), two configurations:
#   (a) record without a reset line; extra (constant and signal-driven) vendor registers added;
#   (b) record with a reset line (start-up delay shortened through the class constant, same on both trees).
# A small closed-loop ULPI PHY model answers register reads / writes and transmit commands, and injects RxCmds
# and receive packets; a UTMI-side model transmits packets and flips control signals.  Random phases follow.
# ---------------------------------------------------------------------------------------------
CYCLES_A, CYCLES_B = 16000, 8000


def make_ulpi_record(with_reset):
    layout = [
        ('data', [('i', 8), ('o', 8), ('oe', 1)]),
        ('clk',  1),
        ('nxt',  [('i', 1)]),
        ('stp',  [('o', 1)]),
        ('dir',  [('i', 1)]),
    ]
    if with_reset:
        layout.append(('rst', [('o', 1)]))
    return Record(layout)


def translator_stimulus(rng, dut, ulpi, extra_inputs):
    control_names = [name for name, _ in dut.CONTROL_SIGNALS]
    controls      = [getattr(dut, name) for name in control_names]
    inputs        = [ulpi.data.i, ulpi.dir.i, ulpi.nxt.i, dut.tx_data, dut.tx_valid, *controls, *extra_inputs]
    state         = SigState([(s, 0) for s in inputs])

    # Power-on values a USBDevice would apply.
    state[dut.xcvr_select], state[dut.term_select], state[dut.op_mode] = 1, 1, 0
    get = yield state.copy()

    phy  = dict(mode='idle', wait=0, script=[])     # script: list of (dir, nxt, data) cycles to play
    tx   = dict(remaining=0, gap=50)
    registers = {}

    def phy_step():
        """ Computes dir / nxt / data.i for the coming cycle from what the link did in this one. """
        link_data, link_stp, now_dir = get(ulpi.data.o), get(ulpi.stp.o), state[ulpi.dir.i]

        if phy['script']:
            state[ulpi.dir.i], state[ulpi.nxt.i], state[ulpi.data.i] = phy['script'].pop(0)
            return

        state[ulpi.dir.i], state[ulpi.nxt.i], state[ulpi.data.i] = 0, 0, 0
        mode = phy['mode']

        if mode == 'idle':
            if link_data and not now_dir:
                kind = link_data >> 6
                phy['mode']    = {1: 'transmit', 2: 'write_cmd', 3: 'read_cmd'}.get(kind, 'idle')
                phy['command'] = link_data
                phy['wait']    = rng.choice([0, 0, 1, 2])
            elif rng.random() < 0.02:
                # Unsolicited RxCmd: turnaround, one or more status bytes, turnaround.
                status = rng.getrandbits(8) & 0b01101111
                phy['script'] = [(1, 0, 0)] + [(1, 0, status)] * rng.randrange(1, 3) + [(0, 0, 0)]
            elif rng.random() < 0.012:
                # Receive packet: DIR+NXT start (or RxCmd-announced), data bytes mixed with RxCmds.
                active_status = 0b00010000 | rng.getrandbits(4)
                script = [(1, 1, 0)] if rng.random() < 0.6 else [(1, 0, 0), (1, 0, active_status)]
                for _ in range(rng.randrange(1, 20)):
                    if rng.random() < 0.25:
                        script.append((1, 0, active_status | (rng.getrandbits(1) << 5)))
                    script.append((1, 1, rng.getrandbits(8)))
                if rng.random() < 0.5:
                    script.append((1, 0, active_status & 0b1111))
                script.append((0, 0, 0))
                phy['script'] = script
            return

        # An abort by the PHY: DIR is asserted in the middle of a link command.
        if rng.random() < 0.02:
            phy['mode']   = 'idle'
            phy['script'] = [(1, 0, 0), (1, 0, rng.getrandbits(8) & 0b01101111), (0, 0, 0)]
            return

        if phy['wait']:
            phy['wait'] -= 1
            return

        if mode == 'read_cmd':
            value = registers.get(phy['command'] & 0x3F, rng.getrandbits(8))
            state[ulpi.nxt.i] = 1
            phy['script'] = [(1, 0, 0), (1, 0, value), (0, 0, 0)]
            phy['mode']   = 'idle'
        elif mode == 'write_cmd':
            state[ulpi.nxt.i] = 1
            phy['mode'], phy['wait'] = 'write_data', rng.choice([0, 0, 1])
        elif mode == 'write_data':
            state[ulpi.nxt.i] = 1
            phy['mode'] = 'await_stop'
        elif mode == 'await_stop':
            if link_stp or not link_data:
                registers[phy['command'] & 0x3F] = link_data
                phy['mode'] = 'idle'
        elif mode == 'transmit':
            if link_stp:
                phy['mode'] = 'idle'
            else:
                state[ulpi.nxt.i] = int(rng.random() < 0.8)

    def utmi_step():
        """ UTMI transmit side and control signals. """
        if tx['remaining']:
            if get(dut.tx_ready):
                tx['remaining'] -= 1
                state[dut.tx_data] = rng.getrandbits(8)
                if not tx['remaining']:
                    state[dut.tx_valid] = 0
                    tx['gap'] = rng.randrange(10, 200)
        elif tx['gap']:
            tx['gap'] -= 1
        else:
            tx['remaining'] = rng.choice([1, 1, 3, 10, 34])
            state[dut.tx_valid] = 1
            state[dut.tx_data]  = rng.choice([0xD2, 0x5A, 0xC3, 0x4B, 0x1E, 0x00])

        if rng.random() < 0.006:
            signal = rng.choice(controls + list(extra_inputs))
            state[signal] = rng.getrandbits(len(signal))

    while True:
        for _ in range(rng.randrange(2500, 4000)):
            phy_step()
            utmi_step()
            get = yield state.copy()

        # Pure, then sparse, random phases on every input.
        for density in (1.0, 0.15):
            for _ in range(rng.randrange(300, 600)):
                for signal in inputs:
                    state[signal] = rng.getrandbits(len(signal)) if rng.random() < density else 0
                get = yield state.copy()

        for signal in inputs:
            state[signal] = 0
        state[dut.xcvr_select], state[dut.term_select] = 1, 1
        phy.update(mode='idle', wait=0, script=[])
        tx.update(remaining=0, gap=30)
        for _ in range(60):
            get = yield state.copy()


def main():
    import luna.gateware.interface.ulpi as ulpi_module
    from luna.gateware.interface.ulpi import UTMITranslator
    capture_children_of(UTMITranslator)

    sha = hashlib.sha256()

    def signals_for(dut, ulpi, extras):
        def signals():
            kids = children_of(dut)
            assert [type(k).__name__ for k in kids] == ['ULPIControlTranslator', 'ULPIRegisterWindow',
                                                        'ULPIRxEventDecoder', 'ULPITransmitTranslator'], kids
            return observed_signals(dut, ulpi, *kids) + list(extras)
        return signals

    # (a) no reset line; extra registers.
    ulpi    = make_ulpi_record(with_reset=False)
    dut     = UTMITranslator(ulpi=ulpi, handle_clocking=False)
    scratch = Signal(8)
    dut.add_extra_register(0x39, 0b000110)
    dut.add_extra_register(0x16, scratch, default_value=0)
    stimulus = translator_stimulus(random.Random(0x4B315F51), dut, ulpi, [scratch])
    run_usb_sim(dut, signals_for(dut, ulpi, [scratch]), stimulus, CYCLES_A, sha)

    # (b) with a reset line; shortened start-up delay.
    UTMITranslator._CYCLES_1_MILLISECONDS = 700
    ulpi    = make_ulpi_record(with_reset=True)
    dut     = UTMITranslator(ulpi=ulpi, handle_clocking=False)
    stimulus = translator_stimulus(random.Random(0x4B315F52), dut, ulpi, [])
    run_usb_sim(dut, signals_for(dut, ulpi, []), stimulus, CYCLES_B, sha)

    print("HASH " + sha.hexdigest())

main()
