#
# Behavioural-equivalence harness (self-contained; imports luna from PYTHONPATH).
#
# Builds real units, drives every input with a fixed-seed stimulus (protocol-plausible phases plus
# pure-random phases) under amaranth.sim, and hashes -- every cycle -- the values of all public ports.
#
import os
import sys
import random
import hashlib
import warnings
warnings.filterwarnings("ignore")

import zlib
import collections

from amaranth          import *
from amaranth.hdl      import Value
from amaranth.hdl.rec  import Record
from amaranth.sim      import Simulator

# ---------------------------------------------------------------------------------------------
# Child capture: record every Elaboratable constructed while a chosen parent's elaborate() runs.
# ---------------------------------------------------------------------------------------------
_capture_stack   = []
_children_of     = {}            # id(parent) -> [child, ...]
_orig_new        = Elaboratable.__new__


def _recording_new(cls, *args, **kwargs):
    self = _orig_new(cls, *args, **kwargs)
    if _capture_stack and not isinstance(self, Module):
        _capture_stack[-1].append(self)
    return self

Elaboratable.__new__ = _recording_new


def capture_children_of(cls):
    """ Wraps cls.elaborate so that the immediate children it creates are recorded. """
    original = cls.elaborate

    def elaborate(self, platform):
        _capture_stack.append([])
        try:
            return original(self, platform)
        finally:
            _children_of.setdefault(id(self), []).extend(_capture_stack.pop())

    cls.elaborate = elaborate


def children_of(parent):
    """ Immediate children, ordered by class name (creation order only breaks ties within a class). """
    kids = _children_of.get(id(parent), [])
    return [k for _, _, k in sorted(((type(k).__name__, i, k) for i, k in enumerate(kids)), key=lambda t: t[:2])]


# ---------------------------------------------------------------------------------------------
# Port discovery through public attributes.
# ---------------------------------------------------------------------------------------------
def collect_signals(obj, out, seen, depth=0):
    """ Appends every Signal reachable through the public attributes of `obj` (Records and plain
        interface objects are flattened; order is by attribute name, so it is tree-independent). """

    if obj is None or isinstance(obj, (int, str, float, bool)):
        return

    if isinstance(obj, Record):
        if id(obj) in seen:
            return
        seen.add(id(obj))
        for name in obj.fields:
            collect_signals(obj.fields[name], out, seen, depth)
        return

    if isinstance(obj, Signal):
        if id(obj) not in seen:
            seen.add(id(obj))
            out.append(obj)
        return

    if not isinstance(obj, Value) and hasattr(obj, 'as_value'):
        try:
            collect_signals(obj.as_value(), out, seen, depth)
        except Exception:
            pass
        return

    if isinstance(obj, Value):
        return

    if isinstance(obj, (list, tuple)):
        for item in obj:
            collect_signals(item, out, seen, depth)
        return

    if depth >= 3 or id(obj) in seen:
        return
    if not type(obj).__module__.startswith(('luna', 'amaranth.lib.coding', '__main__')):
        return
    seen.add(id(obj))

    try:
        attributes = vars(obj)
    except TypeError:
        return
    for name in sorted(attributes):
        if name.startswith('_'):
            continue
        collect_signals(attributes[name], out, seen, depth + 1)


def observed_signals(*objects):
    out, seen = [], set()
    for obj in objects:
        collect_signals(obj, out, seen)
    return out


class SigState:
    """ Ordered {Signal: value} mapping (Signals are not hashable; keyed by identity). """

    def __init__(self, pairs=()):
        self._entries = {}
        self.update(pairs)

    def __setitem__(self, signal, value):
        self._entries[id(signal)] = (signal, value)

    def __getitem__(self, signal):
        return self._entries[id(signal)][1]

    def __contains__(self, signal):
        return id(signal) in self._entries

    def __iter__(self):
        return iter([s for s, _ in self._entries.values()])

    def items(self):
        return list(self._entries.values())

    def update(self, pairs):
        for signal, value in (pairs.items() if hasattr(pairs, 'items') else pairs):
            self[signal] = value

    def copy(self):
        return SigState(self.items())


class Hasher:
    """ SHA-256 over the per-cycle values of a fixed list of signals. """

    def __init__(self, signals, sha):
        self.signals = signals
        self.chunks  = [Cat(*signals[i:i + 64]) for i in range(0, len(signals), 64)]
        self.sizes   = [(len(c) + 7) // 8 for c in self.chunks]
        self.sha     = sha
        self.sha.update(repr([len(s) for s in signals]).encode())

        self.first   = None
        self.toggled = [0] * len(self.chunks)

    def sample(self, ctx):
        values = [int(ctx.get(chunk)) for chunk in self.chunks]
        for value, size in zip(values, self.sizes):
            self.sha.update(value.to_bytes(size, 'little'))
        if self.first is None:
            self.first = values
        self.toggled = [t | (v ^ f) for t, v, f in zip(self.toggled, values, self.first)]

    def never_toggled(self):
        """ Names of observed signals that kept their initial value for the whole run (coverage aid). """
        names = []
        for index, mask in enumerate(self.toggled):
            offset = 0
            for signal in self.signals[index * 64:(index + 1) * 64]:
                if not (mask >> offset) & ((1 << len(signal)) - 1):
                    names.append(signal.name)
                offset += len(signal)
        return names


TOTAL_CYCLES = [0]

def run_sim(top, signals_fn, stimulus, cycles, sha, *, domain="usb", frequency=60e6, other_domains=()):
    """ Runs `cycles` cycles.  `stimulus` is a generator: it yields {Signal: value} dicts (the inputs for the
        coming cycle) and is sent a function `get(signal)` that reads the settled values of the current cycle.
        `signals_fn()` is called after elaboration and returns the list of signals to hash. """

    sim = Simulator(top)
    sim.add_clock(1 / frequency, domain=domain)
    for other in other_domains:
        sim.add_clock(1 / frequency, domain=other)
    hasher = Hasher(signals_fn() if callable(signals_fn) else signals_fn, sha)

    async def testbench(ctx):
        get = lambda s: int(ctx.get(s))
        inputs = next(stimulus)
        for cycle in range(cycles):
            for signal, value in inputs.items():
                ctx.set(signal, value)
            hasher.sample(ctx)
            try:
                inputs = stimulus.send(get)
            except StopIteration:
                raise RuntimeError("stimulus ran out at cycle %d" % cycle)
            await ctx.tick(domain)

    sim.add_testbench(testbench)
    sim.run()
    TOTAL_CYCLES[0] += cycles
    quiet = hasher.never_toggled()
    if os.environ.get("EQUIV_VERBOSE"):
        sys.stderr.write("%s: observed %d signals for %d cycles; %d never changed: %s\n"
                         % (type(top).__name__, len(hasher.signals), cycles, len(quiet), " ".join(quiet)))
    return len(hasher.signals)


# ---------------------------------------------------------------------------------------------
# Minimal USB host model producing per-cycle UTMI stimulus for a USBDevice on a raw UTMI bus.
# ---------------------------------------------------------------------------------------------
OUT, IN, SOF, SETUP, PING = 0b0001, 0b1001, 0b0101, 0b1101, 0b0100
DATA0, DATA1              = 0b0011, 0b1011
ACK, NAK, STALL           = 0b0010, 0b1010, 0b1110


def pid_byte(pid):
    return (pid & 0xF) | ((~pid & 0xF) << 4)


def crc5(value, bits=11):
    crc = 0x1F
    for i in range(bits):
        bit = (value >> i) & 1
        top = (crc >> 4) & 1
        crc = (crc << 1) & 0x1F
        if bit ^ top:
            crc ^= 0x05
    crc ^= 0x1F
    return int(f"{crc:05b}"[::-1], 2)


def crc16(data):
    crc = 0xFFFF
    for byte in data:
        for i in range(8):
            bit = (byte >> i) & 1
            top = (crc >> 15) & 1
            crc = (crc << 1) & 0xFFFF
            if bit ^ top:
                crc ^= 0x8005
    crc ^= 0xFFFF
    crc = int(f"{crc:016b}"[::-1], 2)
    return [crc & 0xFF, crc >> 8]


class DeviceHost:
    """ Generator-based host + application model.  `cycle()` is the only place that yields. """

    def __init__(self, rng, dut, utmi, in_ep, out_ep):
        self.rng, self.dut, self.utmi, self.in_ep, self.out_ep = rng, dut, utmi, in_ep, out_ep
        self.address  = 0
        self.get      = None
        self.random_mode = False
        self.ready_probability = 0.8
        self.in_valid_probability  = 0.6
        self.out_ready_probability = 0.7

        u = utmi
        self.state = SigState([
            (u.rx_data, 0), (u.rx_active, 0), (u.rx_valid, 0), (u.tx_ready, 1),
            (u.line_state, 0b01), (u.vbus_valid, 1), (u.session_valid, 1), (u.session_end, 0),
            (u.rx_error, 0), (u.host_disconnect, 0), (u.id_digital, 0),
            (dut.connect, 1), (dut.low_speed_only, 0), (dut.full_speed_only, 0),
            (in_ep.stream.valid, 0), (in_ep.stream.payload, 0), (in_ep.stream.first, 0), (in_ep.stream.last, 0),
            (in_ep.flush, 0), (in_ep.discard, 0),
            (out_ep.stream.ready, 0),
        ])

    # -- the single yield point ---------------------------------------------------------------
    def cycle(self, count=1):
        rng, s = self.rng, self.state
        for _ in range(count):
            if self.random_mode:
                for signal in s:
                    s[signal] = rng.getrandbits(len(signal))
            else:
                # PHY-side transmit handshake and application-side streams.
                s[self.utmi.tx_ready]         = int(rng.random() < self.ready_probability)
                s[self.out_ep.stream.ready]   = int(rng.random() < self.out_ready_probability)
                stream = self.in_ep.stream
                accepted = self.get is not None and self.get(stream.ready) and s[stream.valid]
                if accepted or not s[stream.valid]:
                    s[stream.valid]   = int(rng.random() < self.in_valid_probability)
                    s[stream.payload] = rng.getrandbits(8)
                    s[stream.first]   = int(rng.random() < 0.1)
                    s[stream.last]    = int(rng.random() < 0.1)
                s[self.in_ep.flush]   = int(rng.random() < 0.01)
                s[self.in_ep.discard] = int(rng.random() < 0.002)
            self.get = yield s.copy()

    # -- packet primitives ---------------------------------------------------------------------
    def packet(self, octets, gap=2, sparse=False):
        s, u = self.state, self.utmi
        s[u.rx_active] = 1
        yield from self.cycle()
        for octet in octets:
            if sparse:
                s[u.rx_valid] = 0
                yield from self.cycle(self.rng.randrange(0, 4))
            s[u.rx_valid] = 1
            s[u.rx_data]  = octet
            yield from self.cycle()
        s[u.rx_valid]  = 0
        if sparse:
            yield from self.cycle(self.rng.randrange(0, 3))
        s[u.rx_active] = 0
        yield from self.cycle(gap)

    def token(self, pid, endpoint=0, address=None, corrupt=False):
        address = self.address if address is None else address
        fields  = address | (endpoint << 7)
        word    = fields | (crc5(fields) << 11)
        if corrupt:
            word ^= 0x4000
        yield from self.packet([pid_byte(pid), word & 0xFF, word >> 8], sparse=self.rng.random() < 0.3)

    def sof(self, frame):
        word = frame | (crc5(frame) << 11)
        yield from self.packet([pid_byte(SOF), word & 0xFF, word >> 8])

    def data(self, pid, payload=(), corrupt=False):
        payload = list(payload)
        crc     = crc16(payload)
        if corrupt:
            crc[0] ^= 0x10
        yield from self.packet([pid_byte(pid), *payload, *crc], sparse=self.rng.random() < 0.3)

    def handshake(self, pid):
        yield from self.packet([pid_byte(pid)])

    def await_response(self, timeout=120):
        """ Waits for the device to start and then finish a transmission (or for the timeout). """
        waited = 0
        while not (self.get and self.get(self.utmi.tx_valid)):
            yield from self.cycle()
            waited += 1
            if waited > timeout:
                return False
        waited = 0
        while self.get(self.utmi.tx_valid) and waited < 400:
            yield from self.cycle()
            waited += 1
        yield from self.cycle(self.rng.randrange(2, 6))
        return True

    # -- transactions --------------------------------------------------------------------------
    def setup(self, request_type, request, value=0, index=0, length=0, endpoint=0):
        yield from self.token(SETUP, endpoint=endpoint)
        yield from self.data(DATA0, [request_type, request, value & 0xFF, value >> 8,
                                     index & 0xFF, index >> 8, length & 0xFF, length >> 8])
        yield from self.await_response()

    def in_transaction(self, endpoint=0, response=ACK):
        yield from self.token(IN, endpoint=endpoint)
        got = yield from self.await_response()
        if got and response is not None:
            yield from self.handshake(response)
        yield from self.cycle(self.rng.randrange(2, 10))

    def out_transaction(self, pid, payload, endpoint=0, corrupt=False, token=OUT):
        yield from self.token(token, endpoint=endpoint)
        yield from self.data(pid, payload, corrupt=corrupt)
        yield from self.await_response(timeout=60)

    def control_in(self, request_type, request, value, index, length, packets=2):
        yield from self.setup(request_type, request, value, index, length)
        for _ in range(packets):
            yield from self.in_transaction(0, response=ACK if self.rng.random() < 0.9 else None)
        yield from self.out_transaction(DATA1, [], endpoint=0)

    def control_out_nodata(self, request_type, request, value=0, index=0):
        yield from self.setup(request_type, request, value, index, 0)
        yield from self.in_transaction(0)

    def bus_reset(self, length=330):
        self.state[self.utmi.line_state] = 0b00
        yield from self.cycle(length)
        self.state[self.utmi.line_state] = 0b01
        if length >= 310:
            self.address = 0
        yield from self.cycle(40)

    # -- the whole schedule -------------------------------------------------------------------
    def run(self):
        rng = self.rng
        frame = 0
        toggle_out = 0
        yield from self.cycle(30)
        while True:
            self.ready_probability = rng.choice([1.0, 0.8, 0.5])
            self.in_valid_probability  = rng.choice([0.6, 0.0, 0.9])
            self.out_ready_probability = rng.choice([0.7, 0.02, 1.0])
            yield from self.bus_reset(rng.choice([330, 340, 100]))

            # Enumeration.
            yield from self.control_in(0x80, 6, 0x0100, 0, 18, packets=2)        # GET_DESCRIPTOR(device)
            new_address = rng.randrange(1, 128)
            yield from self.control_out_nodata(0x00, 5, new_address)             # SET_ADDRESS
            self.address = new_address
            yield from self.control_in(0x80, 6, 0x0200, 0, 64, packets=2)        # GET_DESCRIPTOR(config)
            yield from self.control_in(0x80, 6, 0x0301, 0x0409, 64, packets=1)   # string
            yield from self.control_out_nodata(0x00, 9, 1)                       # SET_CONFIGURATION
            yield from self.control_in(0x80, 8, 0, 0, 1, packets=1)              # GET_CONFIGURATION
            yield from self.control_in(0x80, 0, 0, 0, 2, packets=1)              # GET_STATUS

            for _ in range(3):
                frame = (frame + rng.choice([0, 1, 1, 5])) & 0x7FF
                yield from self.sof(frame)

            # Bulk traffic.
            for _ in range(4):
                payload = [rng.getrandbits(8) for _ in range(rng.randrange(0, 40))]
                yield from self.out_transaction(DATA1 if toggle_out else DATA0, payload, endpoint=1,
                                                corrupt=rng.random() < 0.15)
                toggle_out ^= rng.random() < 0.85
                yield from self.in_transaction(1, response=rng.choice([ACK, ACK, ACK, None, NAK]))
                yield from self.cycle(rng.randrange(1, 30))

            # Odds and ends: PING, foreign address, unknown endpoint, corrupt token, halt handling.
            yield from self.token(PING, endpoint=1)
            yield from self.await_response(timeout=40)
            yield from self.token(PING, endpoint=0)
            yield from self.await_response(timeout=40)
            yield from self.token(IN, endpoint=1, address=(self.address + 1) & 0x7F)
            yield from self.cycle(30)
            yield from self.token(IN, endpoint=3)
            yield from self.cycle(30)
            yield from self.token(OUT, endpoint=1, corrupt=True)
            yield from self.cycle(20)
            yield from self.control_out_nodata(0x02, 1, 0, 0x81)                 # CLEAR_FEATURE(ENDPOINT_HALT, 0x81)
            yield from self.control_out_nodata(0x02, 1, 0, 0x01)                 # CLEAR_FEATURE(ENDPOINT_HALT, 0x01)
            yield from self.control_out_nodata(0x02, 3, 0, 0x81)                 # SET_FEATURE -> (un)handled
            yield from self.control_in(0xC0, 0x42, 1, 2, 8, packets=1)           # vendor IN -> stall
            # control OUT with a data stage (unhandled -> stall)
            yield from self.setup(0x40, 0x43, 0, 0, 4)
            yield from self.out_transaction(DATA1, [1, 2, 3, 4], endpoint=0)
            yield from self.token(PING, endpoint=0)
            yield from self.await_response(timeout=40)
            yield from self.in_transaction(0)
            # a SETUP that interrupts a control transfer
            yield from self.setup(0x80, 6, 0x0100, 0, 18)
            yield from self.control_in(0x80, 6, 0x0100, 0, 8, packets=1)
            self.state[self.utmi.rx_error] = 1
            yield from self.cycle(2)
            self.state[self.utmi.rx_error] = 0
            self.state[self.dut.connect] = 0
            yield from self.cycle(10)
            self.state[self.dut.connect] = 1

            # Pure random phase.
            self.random_mode = True
            yield from self.cycle(rng.randrange(600, 1200))
            self.random_mode = False
            s, u = self.state, self.utmi
            s.update([(u.rx_data, 0), (u.rx_active, 0), (u.rx_valid, 0), (u.line_state, 0b01), (u.vbus_valid, 1),
                      (u.session_valid, 1), (u.session_end, 0), (u.rx_error, 0), (u.host_disconnect, 0),
                      (u.id_digital, 0), (self.dut.connect, 1), (self.dut.low_speed_only, 0),
                      (self.dut.full_speed_only, 0)])
            yield from self.cycle(60)


def build_device():
    """ USBDevice on a raw UTMI bus with a standard control endpoint and a stream IN / OUT endpoint pair. """
    from usb_protocol.emitters                       import DeviceDescriptorCollection
    from luna.gateware.interface.utmi               import UTMIInterface
    from luna.gateware.usb.usb2.device              import USBDevice
    from luna.gateware.usb.usb2.endpoints.stream    import USBStreamInEndpoint, USBStreamOutEndpoint

    descriptors = DeviceDescriptorCollection()
    with descriptors.DeviceDescriptor() as d:
        d.idVendor, d.idProduct = 0x1209, 0x0001
        d.iManufacturer, d.iProduct, d.iSerialNumber = "LUNA", "Equivalence Device", "1234"
        d.bNumConfigurations = 1
    with descriptors.ConfigurationDescriptor() as c:
        with c.InterfaceDescriptor() as i:
            i.bInterfaceNumber = 0
            with i.EndpointDescriptor() as e:
                e.bEndpointAddress, e.wMaxPacketSize = 0x01, 64
            with i.EndpointDescriptor() as e:
                e.bEndpointAddress, e.wMaxPacketSize = 0x81, 64

    utmi    = UTMIInterface()
    dut     = USBDevice(bus=utmi, handle_clocking=False)
    control = dut.add_standard_control_endpoint(descriptors)
    in_ep   = USBStreamInEndpoint(endpoint_number=1, max_packet_size=64)
    out_ep  = USBStreamOutEndpoint(endpoint_number=1, max_packet_size=64)
    dut.add_endpoint(in_ep)
    dut.add_endpoint(out_ep)
    return dut, utmi, control, in_ep, out_ep



def usb2_device_scenario(cycles=24000):
    """ USBDevice (raw UTMI bus) with a standard control endpoint and a stream IN / OUT endpoint pair: enumeration,
        bulk traffic, error cases, bus resets, pure random phases.  Hashes all ports of the device, the UTMI bus,
        the device's ten children and the three endpoints. """
    from luna.gateware.usb.usb2.device import USBDevice
    capture_children_of(USBDevice)

    dut, utmi, control, in_ep, out_ep = build_device()
    host = DeviceHost(random.Random(0x4B315F31), dut, utmi, in_ep, out_ep)
    sha  = hashlib.sha256()

    def signals():
        kids = children_of(dut)
        assert len(kids) == 10, [type(k).__name__ for k in kids]
        return observed_signals(dut, utmi, *kids, control, in_ep, out_ep)

    run_sim(dut, signals, host.run(), cycles, sha, domain="usb")
    return sha.hexdigest()


def usb3_device_scenario():
    """ USBSuperSpeedDevice (control endpoint + stream IN endpoint) on a physical-layer stand-in, with a reactive
        host model: link training, LMP exchange, enumeration, bulk reads, errors / retries, recovery, random
        phase, warm reset.  Hashes all ports of the device and of its six children.  (Own small harness.) """

    # ------------------------------------------------------------------------------------------------------------
    #  Generic harness: signal collection, pre-elaboration (to get at the children), per-cycle hashing.
    # ------------------------------------------------------------------------------------------------------------

    def public_signals(obj, prefix):
        """ Returns [(path, Signal)] for every Signal reachable through public attributes (Records are flattened). """
        found = []

        def visit(value, path):
            if isinstance(value, Record):
                for field_name, field in value.fields.items():
                    visit(field, f"{path}.{field_name}")
            elif isinstance(value, Signal):
                found.append((path, value))
            elif isinstance(value, (list, tuple)):
                for index, item in enumerate(value):
                    visit(item, f"{path}[{index}]")
            elif type(value).__module__.startswith('luna.') and not isinstance(value, (Value, Elaboratable)):
                # Plain interface bundles (e.g. SuperSpeedEndpointInterface).
                visit_attributes(value, path)

        def visit_attributes(container, path):
            for name in sorted(vars(container)):
                if not name.startswith('_'):
                    visit(vars(container)[name], f"{path}.{name}")

        visit_attributes(obj, prefix)
        return found


    def pre_elaborate(obj, platform=None):
        """ Elaborates ``obj`` now, pins the result (so the simulator uses this very Module), and returns its children. """
        module = obj.elaborate(platform)
        assert isinstance(module, Module), f"{obj!r} did not return a plain Module"
        obj.elaborate = lambda platform: module
        children  = [sub for (sub, _) in module._named_submodules.values()]
        children += [sub for (sub, _) in module._anon_submodules]
        return children


    def children_by_class(children):
        """ Returns {class name: child}; refuses ambiguous (same-class) children, so naming/ordering can't matter. """
        result = {}
        for child in children:
            name = type(child).__name__
            assert name not in result, f"two children of class {name}"
            result[name] = child
        return result


    class Values:
        """ {Signal: value} (Signals aren't hashable). """

        def __init__(self):
            self.entries = {}

        def __setitem__(self, signal, value):
            self.entries[id(signal)] = (signal, int(value))

        def update(self, other):
            self.entries.update(other.entries)

        def items(self):
            return self.entries.values()


    class Harness:
        """ Collects the signals to hash; and runs a single-clock (``ss``) simulation, hashing them every cycle. """

        def __init__(self):
            self.entries = []

        def add(self, obj, prefix):
            self.entries.extend(public_signals(obj, prefix))

        def add_children(self, children, prefix="child"):
            by_class = children_by_class(children)
            for class_name in sorted(by_class):
                self.add(by_class[class_name], f"{prefix}:{class_name}")

        def finalize(self, m):
            """ Adds the probe (one wide combinational copy of everything hashed) to the top-level module ``m``. """
            self.entries.sort(key=lambda entry: entry[0])
            self.slots = {}
            offset = 0
            for path, signal in self.entries:
                self.slots.setdefault(id(signal), (offset, len(signal)))
                offset += len(signal)
            self.width = offset
            self.probe = Signal(max(offset, 1), name="equiv_probe")
            m.d.comb += self.probe.eq(Cat(signal for _, signal in self.entries))

        def field(self, sample, signal):
            offset, width = self.slots[id(signal)]
            return (sample >> offset) & ((1 << width) - 1)

        def run(self, top, cycles, step):
            """ ``step(cycle, previous_sample)`` returns {Signal: value} for this cycle's inputs. """
            digest  = hashlib.sha256()
            nbytes  = (self.width + 7) // 8
            for path, signal in self.entries:
                digest.update(f"{path}:{len(signal)};".encode())

            sim = Simulator(top)
            sim.add_clock(8e-9, domain="ss")

            async def testbench(ctx):
                current = {}
                sample  = None
                for cycle in range(cycles):
                    for signal, value in step(cycle, sample).items():
                        value &= (1 << len(signal)) - 1
                        if current.get(id(signal)) != value:
                            current[id(signal)] = value
                            ctx.set(signal, value)
                    sample = ctx.get(self.probe)
                    digest.update(sample.to_bytes(nbytes, 'little'))
                    self.after_sample(cycle, sample)
                    await ctx.tick("ss")

            sim.add_testbench(testbench)
            sim.run()
            return digest.hexdigest()

        def after_sample(self, cycle, sample):
            pass


    # ------------------------------------------------------------------------------------------------------------
    #  USB3 wire-level helpers (software CRCs were validated against the gateware CRC units).
    # ------------------------------------------------------------------------------------------------------------

    SKP, SDP, EDB, SUB, COM, SHP, END, SLC, EPF = 0x3C, 0x5C, 0x7C, 0x9C, 0xBC, 0xFB, 0xFD, 0xFE, 0xF7

    def symbols(a, b, c, d):
        return (a | (b << 8) | (c << 16) | (d << 24), 0xF)

    HPSTART  = symbols(SHP, SHP, SHP, EPF)
    LCSTART  = symbols(SLC, SLC, SLC, EPF)
    DPPSTART = symbols(SDP, SDP, SDP, EPF)
    DPPEND   = symbols(END, END, END, EPF)
    DPPABORT = symbols(EDB, EDB, EDB, EPF)
    IDLE     = (0, 0)
    NOTHING  = None                       # a cycle without a valid word

    LGOOD, LCRD, LRTY, LBAD, LGO_U, LAU, LXU, LPMA, LUP, LDN = 0, 1, 2, 3, 4, 5, 6, 7, 8, 11

    TSEQ_SET = [(0xC017FFBC, 0x1), (0x02E7B214, 0), (0x286E7282, 0), (0xBF6DBEA6, 0)] + [(0x4A4A4A4A, 0)] * 4
    TS1_SET  = [(0xBCBCBCBC, 0xF), (0x4A4A0000, 0), (0x4A4A4A4A, 0), (0x4A4A4A4A, 0)]
    ITS1_SET = [(0xBCBCBCBC, 0xF), (0xB5B50000, 0), (0xB5B5B5B5, 0), (0xB5B5B5B5, 0)]

    def ts2_set(config=0):
        return [(0xBCBCBCBC, 0xF), (0x45450000 | (config << 8), 0), (0x45454545, 0), (0x45454545, 0)]


    def crc5(value):
        bit = lambda i: (value >> (10 - i)) & 1
        xor = lambda *indices: sum(bit(i) for i in indices) & 1
        bits = [xor(10, 9, 8, 5, 4, 2), 1 ^ xor(10, 9, 8, 7, 4, 3, 1), xor(10, 9, 8, 7, 6, 3, 2, 0),
                xor(10, 7, 6, 4, 1), xor(10, 9, 6, 5, 3, 0)]
        return sum(b << i for i, b in enumerate(bits))


    def crc16(words):
        crc = 0xFFFF
        for word in words:
            for i in range(32):
                feedback = ((crc >> 15) & 1) ^ ((word >> i) & 1)
                crc = (crc << 1) & 0xFFFF
                if feedback:
                    crc ^= 0x100B
        reflected = sum(1 << (15 - i) for i in range(16) if (crc >> i) & 1)
        return reflected ^ 0xFFFF


    def link_command(command, subtype=0, *, corrupt=False):
        word  = (subtype & 0xF) | (command << 7)
        word |= crc5(word & 0x7FF) << 11
        replica = word ^ (0x10 if corrupt else 0)
        return [LCSTART, (word | (replica << 16), 0)]


    def header_packet(dw0, dw1, dw2, sequence, *, delayed=0, deferred=0, hub_depth=0, corrupt=0):
        control = (sequence & 7) | (hub_depth << 6) | (delayed << 9) | (deferred << 10)
        dw3 = crc16([dw0, dw1, dw2]) | (control << 16) | (crc5(control) << 27)
        if corrupt == 1:
            dw3 ^= 0x0004
        elif corrupt == 2:
            dw3 ^= 0x80000000
        return [HPSTART, (dw0, 0), (dw1, 0), (dw2, 0), (dw3, 0)]


    def data_payload(payload: bytes, *, corrupt=False, abort=False):
        """ Returns the words of a Data Packet Payload: framing, data, CRC-32, end framing. """
        crc = zlib.crc32(payload) & 0xFFFFFFFF
        if corrupt:
            crc ^= 0x00010000
        stream  = [(byte, 0) for byte in payload + crc.to_bytes(4, 'little')]
        ending  = EDB if abort else END
        stream += [(ending, 1), (ending, 1), (ending, 1), (EPF, 1)]
        while len(stream) % 4:
            stream.append((0, 0))
        words = [DPPSTART]
        for i in range(0, len(stream), 4):
            data = sum(stream[i + j][0] << (8 * j) for j in range(4))
            ctrl = sum(stream[i + j][1] << j       for j in range(4))
            words.append((data, ctrl))
        return words


    # Header packet builders (field layouts from the gateware's HeaderPacket subclasses).
    TYPE_LMP, TYPE_TP, TYPE_DATA, TYPE_ITP = 0, 4, 8, 12

    def lmp_dwords(subtype, link_speed=1, dw1=0):
        return (TYPE_LMP | (subtype << 5) | (link_speed << 9), dw1, 0)

    def itp_dwords(timestamp, bus_interval_adjustment=0):
        return (TYPE_ITP | ((timestamp & 0x7FFFFFF) << 5), bus_interval_adjustment & 0xFFFF, 0)

    def tp_dwords(address, subtype, *, endpoint=0, direction=0, retry=0, host_error=0, packets=1, sequence=0, pending=0):
        dw0 = TYPE_TP | (address << 25)
        dw1 = subtype | (retry << 6) | (direction << 7) | (endpoint << 8) | (host_error << 15) | \
              (packets << 16) | (sequence << 21)
        dw2 = pending << 27
        return (dw0, dw1, dw2)

    def dph_dwords(address, *, endpoint=0, direction=0, sequence=0, length=0, setup=0, end_of_burst=0, pending=0):
        dw0 = TYPE_DATA | (address << 25)
        dw1 = sequence | (end_of_burst << 6) | (direction << 7) | (endpoint << 8) | (setup << 15) | (length << 16)
        dw2 = pending << 27
        return (dw0, dw1, dw2)


    # ------------------------------------------------------------------------------------------------------------
    #  Stand-in for the USB3 physical layer: just the attributes the link layer touches.
    # ------------------------------------------------------------------------------------------------------------

    class PhysicalLayerStandIn(Elaboratable):
        """ Same port list as USB3PhysicalLayer; everything is driven / observed by the testbench. """

        def __init__(self, **kwargs):
            from luna.gateware.usb.stream import USBRawSuperSpeedStream

            self.sink                       = USBRawSuperSpeedStream()
            self.source                     = USBRawSuperSpeedStream()
            self.raw_source                 = USBRawSuperSpeedStream()

            self.ready                      = Signal()
            self.engage_terminations        = Signal()
            self.tx_deemph                  = Signal(2)
            self.tx_electrical_idle         = Signal()
            self.tx_ones_zeros              = Signal()
            self.invert_rx_polarity         = Signal()
            self.train_equalizer            = Signal()
            self.vbus_present               = Signal()

            self.enable_scrambling          = Signal()

            self.perform_rx_detection       = Signal()
            self.link_partner_detected      = Signal()
            self.no_link_partner_detected   = Signal()

            self.send_lfps_polling          = Signal()
            self.lfps_cycles_sent           = Signal(16)

            self.lfps_ping_detected         = Signal()
            self.lfps_polling_detected      = Signal()
            self.lfps_reset_detected        = Signal()

            self.can_send_skp               = Signal()

        def elaborate(self, platform):
            return Module()


    def shorten_tseq_bursts(limit=48):
        """ The LTSSM sends 65536 TSEQ sets (half a million cycles) before training; cap that burst so that several
            complete link bring-ups fit into the simulation. (TSEmitter is not part of the code under test.) """
        from luna.gateware.usb.usb3.link import ordered_sets
        original = ordered_sets.TSEmitter.__init__

        def patched(self, *args, transmit_burst_length=1, **kwargs):
            original(self, *args, transmit_burst_length=min(transmit_burst_length, limit), **kwargs)
        ordered_sets.TSEmitter.__init__ = patched


    # ------------------------------------------------------------------------------------------------------------
    #  Host / link-partner model: produces the word stream the physical layer hands to the link layer, reacts to
    #  what the device transmits (LGOOD/LCRD for its headers, LRTY + retransmission on LBAD, ...).
    # ------------------------------------------------------------------------------------------------------------

    INTERESTING_WORDS = [HPSTART, LCSTART, DPPSTART, DPPEND, DPPABORT, IDLE, TS1_SET[0], TS1_SET[1], TS1_SET[2],
                         ts2_set()[1], ts2_set()[2], TSEQ_SET[0], TSEQ_SET[1], ITS1_SET[1], (0xFFFFFFFF, 0)]

    class HostModel:

        def __init__(self, phy, seed, *, address=0):
            self.phy       = phy
            self.rnd       = random.Random(seed)
            self.address   = address

            # Word source.
            self.script    = None
            self.current   = collections.deque()
            self.responses = collections.deque()
            self.gap_probability   = 0.0
            self.stall_probability = 0.0          # probability of de-asserting sink.ready
            self.random_mode       = False
            self.reactive          = True

            # Physical layer status, as set by the script.
            self.status = dict(ready=0, vbus_present=0, lfps_reset_detected=0, lfps_ping_detected=0,
                               partner_present=1, host_polling=0)
            self.lfps_cycles_sent   = 0
            self.lfps_divider       = 0
            self.polling_divider    = 0
            self.detect_requested   = 0
            self.polling_requested  = 0

            # Link state.
            self.reset_link_state()

            # Device transmission parser.
            self.rx_words      = []
            self.rx_mode       = None
            self.last_kind     = None
            self.counts        = collections.Counter()
            self.device_headers = []
            self.sink_ready    = 1


        def reset_link_state(self, *, full=True):
            if full:
                self.tx_sequence   = 0
            self.unacked           = []
            self.credits           = 0
            self.next_credit       = 0
            self.ignore_until_lrty = False
            self.lbad_probability  = 0.0
            self.responses.clear()


        # -- script helpers (generators yielding atoms: lists of words that are sent back-to-back) --

        def idle(self, cycles, *, valid=True):
            for _ in range(cycles):
                yield [IDLE if valid else NOTHING]

        def wait_for(self, condition, *, filler=None, limit=4000):
            """ Sends ``filler`` atoms (default: nothing valid) until ``condition()``; bounded. """
            sent = 0
            while not condition() and sent < limit:
                atom = filler() if filler else [NOTHING]
                sent += len(atom)
                yield atom

        def power_on(self, *, dark_cycles=20):
            self.status.update(ready=0, vbus_present=0, host_polling=0)
            yield from self.idle(dark_cycles, valid=False)
            self.status.update(vbus_present=1)
            yield from self.idle(7, valid=False)
            self.status.update(ready=1)

        def train(self, *, inverted=False, ts2_config=0, from_recovery=False):
            """ Walks the device's LTSSM from LFPS polling (or recovery) to U0. """
            counts = self.counts
            self.reset_link_state(full=False)

            if not from_recovery:
                self.status.update(host_polling=1)
                start = counts['TSEQ']
                yield from self.wait_for(lambda: counts['TSEQ'] > start, limit=3000)
                self.status.update(host_polling=0)

                start = counts['TS1']
                yield from self.wait_for(lambda: counts['TS1'] > start, filler=lambda: list(TSEQ_SET), limit=6000)

            start = counts['TS2']
            ts1 = ITS1_SET if inverted else TS1_SET
            yield from self.wait_for(lambda: counts['TS2'] > start + 2, filler=lambda: list(ts1), limit=3000)

            yield from self.wait_for(lambda: self.last_kind == 'IDLE', filler=lambda: ts2_set(ts2_config), limit=3000)
            if ts2_config & 1:
                # Hot reset: the device answers with reset TS2s; then we drop the reset bit.
                for _ in range(24):
                    yield ts2_set(ts2_config)
                start = counts['TS2']
                yield from self.wait_for(lambda: counts['TS2'] > start + 20, filler=lambda: ts2_set(ts2_config), limit=600)
                yield from self.wait_for(lambda: self.last_kind == 'IDLE', filler=lambda: ts2_set(0), limit=3000)
                self.reset_link_state(full=True)

            yield from self.idle(12)

            # Header sequence number advertisement, and our credits.
            yield link_command(LGOOD, (self.tx_sequence - 1) & 7)
            for credit in range(4):
                yield link_command(LCRD, credit)
                yield from self.idle(self.rnd.randrange(0, 3))
            self.next_credit = 0

        def enter_recovery(self):
            yield from self.train(from_recovery=True)

        def device_is_training(self):
            return self.last_kind in ('TS1', 'TS2')

        def warm_reset(self, cycles=40):
            self.status.update(lfps_reset_detected=1)
            yield from self.idle(cycles, valid=False)
            self.status.update(lfps_reset_detected=0)
            self.reset_link_state(full=True)

        def send_header(self, dwords, *, payload=None, corrupt=0, deferred=0, wait_for_credit=True):
            if wait_for_credit:
                yield from self.wait_for(lambda: self.credits > 0, filler=lambda: [IDLE], limit=600)
            sequence = self.tx_sequence
            atom = header_packet(*dwords, sequence, corrupt=corrupt, deferred=deferred)
            if payload is not None:
                atom = atom + payload
            # (The header receiver spends a cycle checking each header; it can't take headers back-to-back.)
            atom = atom + [IDLE]
            self.tx_sequence = (self.tx_sequence + 1) & 7
            self.unacked.append((dwords, sequence))
            self.credits = max(self.credits - 1, 0)
            yield atom

        def random_phase(self, cycles):
            self.random_mode = True
            yield from self.idle(cycles)
            self.random_mode = False


        # -- per-cycle interface --

        def next_word(self):
            rnd = self.rnd
            if self.random_mode:
                # Still consume the script (one idle per cycle), so the phase has a defined length.
                self._pull()
                self.current.popleft()
                if rnd.random() < 0.3:
                    return NOTHING
                if rnd.random() < 0.6:
                    return rnd.choice(INTERESTING_WORDS)
                return (rnd.getrandbits(32), rnd.choice([0, 0, 0, 0xF, rnd.getrandbits(4)]))

            if self.gap_probability and rnd.random() < self.gap_probability:
                return NOTHING
            self._pull()
            return self.current.popleft()

        def _pull(self):
            while not self.current:
                if self.responses:
                    self.current.extend(self.responses.popleft())
                else:
                    atom = next(self.script, None) if self.script is not None else None
                    if atom is None:
                        self.script = None
                        atom = [IDLE]
                    self.current.extend(atom)

        def inputs(self):
            """ Returns this cycle's values for all physical-layer outputs (= link layer inputs). """
            phy, status, rnd = self.phy, self.status, self.rnd
            word = self.next_word()

            values = Values()
            valid, (data, ctrl) = (0, (0, 0)) if word is None else (1, word)
            if self.random_mode and word is None:
                data, ctrl = rnd.getrandbits(32), rnd.getrandbits(4)
            raw_valid, raw_data, raw_ctrl = valid, data, ctrl
            if self.random_mode and rnd.random() < 0.5:
                raw_valid, raw_data, raw_ctrl = rnd.getrandbits(1), rnd.getrandbits(32), rnd.getrandbits(4)

            for stream, (v, d, c) in ((phy.source, (valid, data, ctrl)), (phy.raw_source, (raw_valid, raw_data, raw_ctrl))):
                values[stream.valid]   = v
                values[stream.payload] = d
                values[stream.ctrl]    = c
                values[stream.first]   = rnd.getrandbits(1) if self.random_mode else 0
                values[stream.last]    = rnd.getrandbits(1) if self.random_mode else 0

            # Transmit-side backpressure (SKP insertion and the like).
            if self.random_mode:
                self.sink_ready = rnd.getrandbits(1)
            elif self.stall_probability and rnd.random() < self.stall_probability:
                self.sink_ready = 0
            else:
                self.sink_ready = 1
            values[phy.sink.ready] = self.sink_ready

            # LFPS / receiver detection models (one cycle of latency).
            if self.polling_requested:
                self.lfps_divider += 1
                if self.lfps_divider == 5:
                    self.lfps_divider = 0
                    self.lfps_cycles_sent = (self.lfps_cycles_sent + 1) & 0xFFFF
            else:
                self.lfps_cycles_sent = 0
                self.lfps_divider     = 0
            self.polling_divider = (self.polling_divider + 1) % 23

            if self.random_mode:
                values[phy.ready]                     = rnd.random() < 0.98
                values[phy.vbus_present]              = rnd.random() < 0.998
                values[phy.lfps_reset_detected]       = rnd.random() < 0.002
                values[phy.lfps_ping_detected]        = rnd.getrandbits(1)
                values[phy.lfps_polling_detected]     = rnd.getrandbits(1)
                values[phy.link_partner_detected]     = rnd.getrandbits(1)
                values[phy.no_link_partner_detected]  = rnd.random() < 0.1
                values[phy.lfps_cycles_sent]          = rnd.getrandbits(6)
            else:
                values[phy.ready]                     = status['ready']
                values[phy.vbus_present]              = status['vbus_present']
                values[phy.lfps_reset_detected]       = status['lfps_reset_detected']
                values[phy.lfps_ping_detected]        = status['lfps_ping_detected']
                values[phy.lfps_polling_detected]     = int(bool(status['host_polling']) and self.polling_divider == 0)
                values[phy.link_partner_detected]     = int(self.detect_requested and bool(status['partner_present']))
                values[phy.no_link_partner_detected]  = int(self.detect_requested and not status['partner_present'])
                values[phy.lfps_cycles_sent]          = self.lfps_cycles_sent
            return values


        def observe(self, harness, sample):
            """ Looks at what the device does this cycle. """
            phy = self.phy
            self.detect_requested  = harness.field(sample, phy.perform_rx_detection)
            self.polling_requested = harness.field(sample, phy.send_lfps_polling)

            if not (harness.field(sample, phy.sink.valid) and self.sink_ready):
                return
            word = (harness.field(sample, phy.sink.payload), harness.field(sample, phy.sink.ctrl))
            self.parse(word)


        def parse(self, word):
            counts = self.counts

            # Multi-word constructs in progress.
            if self.rx_mode == 'HP':
                self.rx_words.append(word)
                if len(self.rx_words) == 4:
                    self.rx_mode = None
                    self.device_header(self.rx_words)
                return
            if self.rx_mode == 'LC':
                self.rx_mode = None
                self.device_link_command((word[0] >> 7) & 0xF, word[0] & 0xF)
                return
            if self.rx_mode == 'TS':
                self.rx_mode = None
                if word[0] >> 16 == 0x4A4A:
                    counts['TS1'] += 1
                    self.last_kind = 'TS1'
                elif word[0] >> 16 == 0x4545:
                    counts['TS2'] += 1
                    self.last_kind = 'TS2'
                return

            if word == HPSTART:
                self.rx_mode, self.rx_words = 'HP', []
                self.last_kind = 'HP'
            elif word == LCSTART:
                self.rx_mode = 'LC'
                self.last_kind = 'LC'
            elif word == TS1_SET[0]:
                self.rx_mode = 'TS'
            elif word == TSEQ_SET[0]:
                counts['TSEQ'] += 1
                self.last_kind = 'TSEQ'
            elif word == IDLE and self.last_kind in ('TS1', 'TS2', 'TSEQ'):
                self.last_kind = 'IDLE'


        def device_header(self, words):
            self.counts['HP'] += 1
            dw3 = words[3][0]
            sequence = (dw3 >> 16) & 7
            self.device_headers.append((words[0][0], words[1][0], words[2][0], dw3))
            if not self.reactive or self.ignore_until_lrty:
                return

            if self.lbad_probability and self.rnd.random() < self.lbad_probability:
                self.ignore_until_lrty = True
                self.responses.append(link_command(LBAD))
                return

            self.responses.append(link_command(LGOOD, sequence))
            self.responses.append(link_command(LCRD, self.next_credit))
            self.next_credit = (self.next_credit + 1) & 3


        def device_link_command(self, command, subtype):
            self.counts[f'LC{command}'] += 1
            if command == LCRD:
                self.credits = min(self.credits + 1, 4)
            elif command == LGOOD:
                self.unacked = [entry for entry in self.unacked if entry[1] != subtype]
            elif command == LRTY:
                self.ignore_until_lrty = False
            elif command == LBAD and self.reactive:
                atom = link_command(LRTY)
                for dwords, sequence in self.unacked:
                    atom = atom + header_packet(*dwords, sequence, delayed=1) + [IDLE]
                self.responses.append(atom)


    def traffic(host, items, *, errors=False):
        """ Plausible U0 traffic towards the device. """
        rnd = host.rnd
        timestamp = 100
        for _ in range(items):
            # If the device has gone to recovery on its own, follow it.
            if host.device_is_training():
                yield from host.train(from_recovery=True)

            choice = rnd.random()
            if choice < 0.25:
                dwords = tp_dwords(host.address, rnd.choice([1, 1, 4, 7]), endpoint=rnd.randrange(4), direction=rnd.getrandbits(1),
                                   retry=rnd.random() < 0.1, packets=rnd.randrange(4), sequence=rnd.randrange(32))
                yield from host.send_header(dwords, corrupt=(rnd.choice([1, 2]) if errors and rnd.random() < 0.1 else 0))
            elif choice < 0.35:
                timestamp += rnd.randrange(1, 50)
                yield from host.send_header(itp_dwords(timestamp))
            elif choice < 0.42:
                yield from host.send_header(lmp_dwords(rnd.choice([4, 5, 5, 1]), link_speed=rnd.choice([1, 1, 2])))
            elif choice < 0.70:
                length  = rnd.choice([0, 1, 2, 3, 4, 5, 8, 8, 13, 31, 64, rnd.randrange(1, 200)])
                payload = bytes(rnd.getrandbits(8) for _ in range(length))
                dwords  = dph_dwords(host.address, endpoint=rnd.randrange(3), sequence=rnd.randrange(32), length=length,
                                     setup=(length == 8 and rnd.random() < 0.5))
                bad = errors and rnd.random() < 0.15
                yield from host.send_header(dwords, payload=data_payload(payload, corrupt=bad, abort=bad and rnd.random() < 0.3))
            elif choice < 0.80:
                yield link_command(LDN, corrupt=errors and rnd.random() < 0.2)
            elif choice < 0.84:
                yield link_command(LGO_U, rnd.randrange(1, 4))
            else:
                pass
            yield from host.idle(rnd.choice([0, 1, 2, 5, 20, 60]))



    # ============================================================================================================
    #  Unit under test: USBSuperSpeedDevice with a standard control endpoint and a bulk IN stream endpoint; real link
    #  layer, protocol layer, endpoint multiplexer and endpoints. The physical layer is replaced by a port-compatible
    #  stand-in (same in both runs), so the stimulus is applied where the physical layer hands words to the link layer.
    # ============================================================================================================

    CYCLES = 30000

    def create_descriptors():
        from usb_protocol.emitters import SuperSpeedDeviceDescriptorCollection
        descriptors = SuperSpeedDeviceDescriptorCollection()
        with descriptors.DeviceDescriptor() as d:
            d.idVendor           = 0x1209
            d.idProduct          = 0x0001
            d.bcdUSB             = 3.2
            d.bMaxPacketSize0    = 9
            d.iManufacturer      = "LUNA"
            d.iProduct           = "Equivalence check"
            d.iSerialNumber      = "1234"
            d.bNumConfigurations = 1
        with descriptors.ConfigurationDescriptor() as c:
            c.bMaxPower = 50
            with c.InterfaceDescriptor() as i:
                i.bInterfaceNumber = 0
                with i.EndpointDescriptor(add_default_superspeed=True) as e:
                    e.bEndpointAddress = 0x81
                    e.wMaxPacketSize   = 1024
        return descriptors


    def main():
        import luna.gateware.usb.usb3.device as device_module
        from luna.gateware.usb.usb3.endpoints.stream import SuperSpeedStreamInEndpoint

        shorten_tseq_bursts()
        device_module.USB3PhysicalLayer = PhysicalLayerStandIn

        device = device_module.USBSuperSpeedDevice(phy=None, sync_frequency=50e6)
        device.add_standard_control_endpoint(create_descriptors())
        stream_endpoint = SuperSpeedStreamInEndpoint(endpoint_number=1, max_packet_size=1024)
        device.add_endpoint(stream_endpoint)

        children = pre_elaborate(device)
        phy = children_by_class(children)['PhysicalLayerStandIn']

        m = Module()
        m.domains.ss = ClockDomain()
        m.submodules.device = device

        harness = Harness()
        harness.add(device, "device")
        harness.add_children(children)
        harness.finalize(m)

        host = HostModel(phy, seed=0x4b32_0401)
        rnd  = random.Random(0x4b32_0402)
        stream_state = dict(random=False, remaining=0, ready=0)

        def setup_bytes(request_type, request, value, index, length):
            return bytes([request_type, request, value & 0xFF, value >> 8, index & 0xFF, index >> 8, length & 0xFF, length >> 8])

        def control_transfer(setup, *, data_in=False):
            yield from host.send_header(dph_dwords(host.address, endpoint=0, sequence=0, length=8, setup=1), payload=data_payload(setup))
            yield from host.idle(host.rnd.choice([40, 60, 90]))
            if data_in:
                yield from host.send_header(tp_dwords(host.address, 1, endpoint=0, direction=1, packets=1, sequence=0))
                yield from host.idle(host.rnd.choice([120, 200]))
                yield from host.send_header(tp_dwords(host.address, 1, endpoint=0, direction=1, packets=0, sequence=1))
                yield from host.idle(30)
            yield from host.send_header(tp_dwords(host.address, 4, endpoint=0, direction=int(not data_in)))
            yield from host.idle(host.rnd.choice([40, 80]))

        def enumerate_device(address, configuration=1):
            yield from host.send_header(lmp_dwords(4, dw1=0x00010004))
            yield from host.send_header(lmp_dwords(5))
            yield from host.idle(60)
            yield from control_transfer(setup_bytes(0x80, 6, 0x0100, 0, 18), data_in=True)       # GET_DESCRIPTOR(device)
            yield from control_transfer(setup_bytes(0x00, 5, address, 0, 0))                      # SET_ADDRESS
            host.address = address
            yield from control_transfer(setup_bytes(0x80, 6, 0x0200, 0, 64), data_in=True)       # GET_DESCRIPTOR(config)
            yield from control_transfer(setup_bytes(0x80, 6, 0x0302, 0, 255), data_in=True)      # GET_DESCRIPTOR(string)
            yield from control_transfer(setup_bytes(0x00, 9, configuration, 0, 0))                # SET_CONFIGURATION
            yield from control_transfer(setup_bytes(0x80, 8, 0, 0, 1), data_in=True)              # GET_CONFIGURATION
            yield from control_transfer(setup_bytes(0x80, 0, 0, 0, 2), data_in=True)              # GET_STATUS
            yield from control_transfer(setup_bytes(0x40, 0x42, 1, 2, 0))                         # vendor request: stalled

        def bulk_reads(count):
            sequence = 0
            for _ in range(count):
                yield from host.send_header(tp_dwords(host.address, 1, endpoint=1, direction=1, packets=1, sequence=sequence))
                yield from host.idle(host.rnd.choice([40, 150, 330]))
                if host.rnd.random() < 0.8:
                    sequence = (sequence + 1) & 31
                else:
                    # Ask for a retry of the same packet.
                    yield from host.send_header(tp_dwords(host.address, 1, endpoint=1, direction=1, packets=1, sequence=sequence, retry=1))
                    yield from host.idle(200)
                    sequence = (sequence + 1) & 31

        def script():
            yield from host.power_on()
            yield from host.train()
            host.gap_probability = 0.02
            yield from enumerate_device(address=0x15)
            yield from bulk_reads(10)
            host.lbad_probability, host.stall_probability = 0.1, 0.05
            yield from traffic(host, 60, errors=True)
            yield from bulk_reads(6)

            # Host-initiated recovery.
            yield from host.enter_recovery()
            yield from control_transfer(setup_bytes(0x00, 9, 0, 0, 0))                             # SET_CONFIGURATION(0)
            yield from control_transfer(setup_bytes(0x00, 9, 1, 0, 0))
            yield from bulk_reads(4)

            # Garbage on every input.
            stream_state['random'] = True
            yield from host.random_phase(2500)
            stream_state['random'] = False

            # Warm reset: the device loses its address / configuration; enumerate again.
            host.gap_probability, host.stall_probability, host.lbad_probability = 0, 0, 0
            host.address = 0
            yield from host.warm_reset()
            yield from host.train(ts2_config=0b1000)
            yield from enumerate_device(address=0x6a)
            host.gap_probability, host.lbad_probability = 0.03, 0.1
            while True:
                yield from bulk_reads(8)
                yield from traffic(host, 40, errors=True)
                yield from control_transfer(setup_bytes(0x80, 6, 0x0100, 0, 18), data_in=True)

        host.script = script()
        stream = stream_endpoint.stream

        def step(cycle, sample):
            if sample is not None:
                host.observe(harness, sample)
                stream_state['ready'] = harness.field(sample, stream.ready)
            values = host.inputs()

            # The application's data stream into the bulk endpoint: packets of varying length, with pauses.
            if stream_state['random']:
                values[stream.valid]   = rnd.choice([0, 0xF, 0xF, 0x7, 0x3, 0x1, rnd.getrandbits(4)])
                values[stream.first]   = rnd.getrandbits(1)
                values[stream.last]    = rnd.random() < 0.05
                values[stream.payload] = rnd.getrandbits(32)
                stream_state['remaining'] = 0
            else:
                if stream_state['remaining'] and stream_state['ready']:
                    stream_state['remaining'] -= 1
                    stream_state['word'] = rnd.getrandbits(32)
                if stream_state['remaining'] == 0 and rnd.random() < 0.01:
                    stream_state['remaining'] = rnd.choice([1, 3, 16, 64, 256, 300])
                    stream_state['tail']      = rnd.choice([0xF, 0xF, 0x7, 0x3, 0x1])
                    stream_state['word']      = rnd.getrandbits(32)
                remaining = stream_state['remaining']
                values[stream.valid]   = 0 if remaining == 0 else (stream_state['tail'] if remaining == 1 else 0xF)
                values[stream.first]   = 0
                values[stream.last]    = int(remaining == 1)
                values[stream.payload] = stream_state.get('word', 0) if remaining else 0
            return values

        digest = harness.run(m, CYCLES, step)

        return digest

    return main()



# ---------------------------------------------------------------------------------------------
# K3_3: interface-class helpers: HeaderQueue.header_eq / stream_eq, HeaderQueueDemultiplexer and
#       HeaderQueueArbiter (USB3 link layer), InterpacketTimerInterface.attach (USB2 packet layer) and the
#       ControlRequestHandler helper methods.  Small users first, then complete USB2 / USB3 devices.
# ---------------------------------------------------------------------------------------------
def clocked(dut, domain="sync"):
    """ Wraps a purely combinational unit, so that the simulation has a clock to advance on. """
    m = Module()
    m.submodules.dut = dut
    heartbeat = Signal()
    m.d[domain] += heartbeat.eq(~heartbeat)
    return m


def header_inputs(queue):
    return [queue.valid] + [queue.header[name] for name in queue.header.fields]


class InterfaceHelperWiring(Elaboratable):
    """ Purely combinational users of header_eq / stream_eq and of InterpacketTimerInterface.attach. """

    def __init__(self):
        from luna.gateware.usb.usb3.link.header import HeaderQueue
        from luna.gateware.usb.usb2.packet      import InterpacketTimerInterface

        self.inputs = []

        # consumer_side.header_eq(producer_side): valid + header flow to `consumer_side`, ready flows back.
        self.queues = [(HeaderQueue(), HeaderQueue()) for _ in range(3)]
        for target, source in self.queues:
            self.inputs += header_inputs(source) + [target.ready]

        # A timer interface with two subordinate interfaces and two plain start signals; one with a single
        # subordinate interface; one with a single plain signal.
        self.timer         = InterpacketTimerInterface()
        self.users         = [InterpacketTimerInterface() for _ in range(2)]
        self.extra_starts  = [Signal(), Signal()]
        self.lone_timer    = InterpacketTimerInterface()
        self.lone_user     = InterpacketTimerInterface()
        self.signal_timer  = InterpacketTimerInterface()
        self.signal_start  = Signal()
        for timer in (self.timer, self.lone_timer, self.signal_timer):
            self.inputs += [timer.tx_allowed, timer.tx_timeout, timer.rx_timeout]
        self.inputs += [user.start for user in self.users] + self.extra_starts + [self.lone_user.start, self.signal_start]

    def elaborate(self, platform):
        m = Module()
        (a_to, a_from), (b_to, b_from), (c_to, c_from) = self.queues
        m.d.comb += a_to.header_eq(a_from)
        m.d.comb += b_to.stream_eq(b_from)
        m.d.comb += [c_to.header_eq(c_from)]
        m.d.comb += self.timer.attach(self.users[0], self.extra_starts[0], self.users[1], self.extra_starts[1])
        m.d.comb += self.lone_timer.attach(self.lone_user)
        m.d.comb += self.signal_timer.attach(self.signal_start)
        return m


def interface_wiring_run(sha):
    dut = InterfaceHelperWiring()
    rng = random.Random(0x4B335F30)

    def stimulus():
        state = SigState([(signal, 0) for signal in dut.inputs])
        while True:
            for signal in state:
                if rng.random() < 0.6:
                    state[signal] = rng.getrandbits(len(signal)) if rng.random() < 0.7 else 0
            yield state.copy()

    run_sim(clocked(dut), observed_signals(dut), stimulus(), 3000, sha, domain="sync")


def header_queue_unit_runs(sha):
    from luna.gateware.usb.usb3.link.header import HeaderQueue, HeaderQueueArbiter, HeaderQueueDemultiplexer

    # Demultiplexer with 1, 3 and 5 consumers (combinational).
    for count in (1, 3, 5):
        dut = HeaderQueueDemultiplexer()
        consumers = [HeaderQueue() for _ in range(count)]
        for consumer in consumers:
            dut.add_consumer(consumer)
        inputs = header_inputs(dut.sink) + [consumer.ready for consumer in consumers]
        rng = random.Random(0x4B335F31 + count)

        def stimulus(inputs=inputs, consumers=consumers, rng=rng):
            state = SigState([(signal, 0) for signal in inputs])
            cycle = 0
            while True:
                for signal in inputs:
                    state[signal] = rng.getrandbits(len(signal))
                if (cycle // 300) % 2 == 0:
                    # At most one consumer accepts.
                    owner = rng.randrange(len(consumers) + 1)
                    for index, consumer in enumerate(consumers):
                        state[consumer.ready] = int(index == owner)
                yield state.copy()
                cycle += 1

        run_sim(clocked(dut, "ss"), observed_signals(dut, *consumers), stimulus(), 2000, sha, domain="ss")

    # Arbiter with 2, 3 and 4 producers ("ss" domain): headers held until taken, back-pressure, random phases.
    for count in (2, 3, 4):
        dut = HeaderQueueArbiter()
        producers = [HeaderQueue() for _ in range(count)]
        for producer in producers:
            dut.add_producer(producer)
        rng = random.Random(0x4B335F38 + count)
        holder = [None]

        def stimulus(producers=producers, dut=dut, rng=rng, holder=holder):
            state = SigState([(signal, 0) for producer in producers for signal in header_inputs(producer)])
            state[dut.source.ready] = 0
            cycle = 0
            while True:
                get = holder[0]
                if (cycle // 800) % 4 == 3:
                    for signal in state:
                        state[signal] = rng.getrandbits(len(signal))
                else:
                    state[dut.source.ready] = int(rng.random() < 0.5)
                    for producer, eagerness in zip(producers, [0.05, 0.3, 0.1, 0.6]):
                        taken = get is not None and get(producer.ready) and state[producer.valid]
                        if taken or not state[producer.valid]:
                            state[producer.valid] = int(rng.random() < eagerness)
                            for signal in header_inputs(producer)[1:]:
                                state[signal] = rng.getrandbits(len(signal))
                holder[0] = yield state.copy()
                cycle += 1

        run_sim(dut, observed_signals(dut, *producers), stimulus(), 5000, sha, domain="ss")


def build_vendor_handler():
    from luna.gateware.usb.request.control import ControlRequestHandler
    from luna.gateware.stream.generator    import StreamSerializer
    from luna.gateware.usb.stream          import USBInStreamInterface

    class VendorRequestHandler(ControlRequestHandler):
        """ Uses the ControlRequestHandler helpers in all their variations. """

        def __init__(self):
            super().__init__()
            self.plain_register     = Signal(16)
            self.plain_written      = Signal()
            self.guarded_register   = Signal(12)
            self.guarded_written    = Signal()
            self.refuse             = Signal(3)
            self.readback           = Signal(24)
            self.narrow             = Signal(5)
            self.signed_value       = Signal(signed(5))
            self.transmitter        = StreamSerializer(data_length=3, domain="usb", stream_type=USBInStreamInterface,
                                                       max_length_width=2)
            self.transmitter_data   = list(self.transmitter.data)

        def elaborate(self, platform):
            m = Module()
            interface = self.interface
            m.submodules.transmitter = transmitter = self.transmitter

            with m.FSM(domain="usb"):
                with m.State('IDLE'):
                    with m.If(interface.setup.received):
                        with m.Switch(interface.setup.request[0:3]):
                            for number, state in enumerate(['WRITE_PLAIN', 'WRITE_GUARDED', 'READ_ONE', 'READ_THREE',
                                                            'READ_CONSTANT', 'READ_NARROW', 'READ_SIGNED', 'WRITE_REFUSED']):
                                with m.Case(number):
                                    m.next = state

                with m.State('WRITE_PLAIN'):
                    self.handle_register_write_request(m, self.plain_register, self.plain_written)
                with m.State('WRITE_GUARDED'):
                    self.handle_register_write_request(m, self.guarded_register, self.guarded_written,
                                                       stall_condition=self.refuse)
                with m.State('WRITE_REFUSED'):
                    self.handle_register_write_request(m, self.guarded_register, self.guarded_written, stall_condition=1)
                    with m.If(interface.handshakes_out.stall):
                        m.next = 'IDLE'
                with m.State('READ_ONE'):
                    self.handle_simple_data_request(m, transmitter, self.readback[0:8])
                with m.State('READ_THREE'):
                    self.handle_simple_data_request(m, transmitter, self.readback, length=3)
                with m.State('READ_CONSTANT'):
                    self.handle_simple_data_request(m, transmitter, 0x1234, length=2)
                with m.State('READ_NARROW'):
                    self.handle_simple_data_request(m, transmitter, self.narrow, length=2)
                with m.State('READ_SIGNED'):
                    self.handle_simple_data_request(m, transmitter, self.signed_value, length=2)

            return m

    return VendorRequestHandler()


def vendor_handler_run(sha):
    dut = build_vendor_handler()
    interface = dut.interface
    rng = random.Random(0x4B335F3F)

    driven  = [interface.setup[name] for name in interface.setup.fields]
    driven += [interface.tokenizer[name] for name in interface.tokenizer.fields]
    driven += [interface.handshakes_in[name] for name in interface.handshakes_in.fields]
    driven += [interface.data_requested, interface.status_requested, interface.active_config, interface.tx.ready,
               interface.rx_ready_for_response, interface.rx_invalid, interface.rx.valid, interface.rx.next,
               interface.rx.payload, dut.refuse, dut.readback, dut.narrow, dut.signed_value]

    def stimulus():
        state = SigState([(signal, 0) for signal in driven])
        holder = [None]

        def cycle(count=1, **strobes):
            for _ in range(count):
                state[interface.tx.ready] = int(rng.random() < 0.8)
                holder[0] = yield state.copy()

        def pulse(signal, gap=None):
            state[signal] = 1
            yield from cycle()
            state[signal] = 0
            yield from cycle(rng.randrange(1, 8) if gap is None else gap)

        while True:
            for _ in range(60):
                # A control request: SETUP, then -- depending on the direction -- data / status stages.
                request = rng.randrange(0, 8)
                state[interface.setup.request] = request | (rng.getrandbits(5) << 3)
                state[interface.setup.value]   = rng.getrandbits(16)
                state[interface.setup.is_in_request] = int(request in (2, 3, 4, 5, 6))
                for signal in (dut.readback, dut.narrow, dut.signed_value):
                    state[signal] = rng.getrandbits(len(signal))
                state[dut.refuse] = rng.choice([0, 0, 0, 1, 2, 4, 7])
                yield from pulse(interface.tokenizer.new_token)
                yield from pulse(interface.setup.received)

                if request in (2, 3, 4, 5, 6):
                    for _ in range(rng.randrange(1, 3)):
                        yield from pulse(interface.tokenizer.new_token)
                        yield from pulse(interface.data_requested, gap=rng.randrange(4, 12))
                        if rng.random() < 0.8:
                            yield from pulse(interface.handshakes_in.ack)
                    yield from pulse(interface.tokenizer.new_token)
                    yield from pulse(interface.status_requested)
                else:
                    # Status stage: IN token -> ZLP (or stall) -> host ACK; with the occasional stray ACK / token.
                    if rng.random() < 0.2:
                        yield from pulse(interface.handshakes_in.ack)
                    for attempt in range(rng.randrange(1, 3)):
                        yield from pulse(interface.tokenizer.new_token, gap=rng.randrange(1, 4))
                        yield from pulse(interface.status_requested, gap=rng.randrange(1, 4))
                        if rng.random() < 0.25:
                            yield from pulse(interface.tokenizer.new_token, gap=1)
                        if rng.random() < 0.85:
                            yield from pulse(interface.handshakes_in.ack)
                yield from cycle(rng.randrange(1, 10))

            # Pure random phase.
            for _ in range(600):
                for signal in driven:
                    state[signal] = rng.getrandbits(len(signal))
                holder[0] = yield state.copy()
            for signal in driven:
                state[signal] = 0
            yield from cycle(20)

    run_sim(dut, observed_signals(dut, dut.transmitter), stimulus(), 12000, sha, domain="usb")


def main():
    sha = hashlib.sha256()
    interface_wiring_run(sha)
    header_queue_unit_runs(sha)
    vendor_handler_run(sha)
    sha.update(usb2_device_scenario().encode())
    TOTAL_CYCLES[0] += 30000
    sha.update(usb3_device_scenario().encode())
    if os.environ.get("EQUIV_VERBOSE"):
        sys.stderr.write("total cycles: %d\n" % TOTAL_CYCLES[0])
    print("HASH " + sha.hexdigest())

main()
