#
# Behavioural-equivalence harness (self-contained; imports luna from PYTHONPATH).
#
# Builds the parent unit with real children, drives every input with a fixed-seed stimulus
# (protocol-plausible phases plus pure-random phases) under amaranth.sim, and hashes -- every cycle --
# the values of all public ports of the parent and of its immediate children.
#
import os
import sys
import random
import hashlib
import warnings
warnings.filterwarnings("ignore")

from amaranth          import Signal, Cat, Elaboratable, Module, Record as _TopRecord
from amaranth.hdl      import Value
from amaranth.hdl.rec  import Record
from amaranth.sim      import Simulator

# ---------------------------------------------------------------------------------------------
# Child capture: record every Elaboratable constructed while a chosen parent's elaborate() runs.
# (Grand-children are constructed later, when the children themselves are elaborated.)
# ---------------------------------------------------------------------------------------------
_capture_stack   = []
_children_of     = {}            # id(parent) -> [child, ...]
_orig_new        = Elaboratable.__new__


def _recording_new(cls, *args, **kwargs):
    self = _orig_new(cls, *args, **kwargs)
    if _capture_stack and not isinstance(self, Module):
        _capture_stack[-1].append(self)
    return self

Elaboratable.__new__ = _recording_new


def capture_children_of(cls):
    """ Wraps cls.elaborate so that the immediate children it creates are recorded. """
    original = cls.elaborate

    def elaborate(self, platform):
        _capture_stack.append([])
        try:
            return original(self, platform)
        finally:
            _children_of.setdefault(id(self), []).extend(_capture_stack.pop())

    cls.elaborate = elaborate


def children_of(parent):
    """ Immediate children, ordered by class name (creation order only breaks ties within a class). """
    kids = _children_of.get(id(parent), [])
    return [k for _, _, k in sorted(((type(k).__name__, i, k) for i, k in enumerate(kids)), key=lambda t: t[:2])]


# ---------------------------------------------------------------------------------------------
# Port discovery through public attributes.
# ---------------------------------------------------------------------------------------------
def collect_signals(obj, out, seen, depth=0):
    """ Appends every Signal reachable through the public attributes of `obj` (Records and plain
        interface objects are flattened; order is by attribute name, so it is tree-independent). """

    if obj is None or isinstance(obj, (int, str, float, bool)):
        return

    if isinstance(obj, Record):
        if id(obj) in seen:
            return
        seen.add(id(obj))
        for name in obj.fields:
            collect_signals(obj.fields[name], out, seen, depth)
        return

    if isinstance(obj, Signal):
        if id(obj) not in seen:
            seen.add(id(obj))
            out.append(obj)
        return

    # data.View and friends.
    if not isinstance(obj, Value) and hasattr(obj, 'as_value'):
        try:
            collect_signals(obj.as_value(), out, seen, depth)
        except Exception:
            pass
        return

    if isinstance(obj, Value):
        return

    if isinstance(obj, (list, tuple)):
        for item in obj:
            collect_signals(item, out, seen, depth)
        return

    if depth >= 3 or id(obj) in seen:
        return
    if not type(obj).__module__.startswith(('luna', 'amaranth.lib.coding')):
        return
    seen.add(id(obj))

    try:
        attributes = vars(obj)
    except TypeError:
        return
    for name in sorted(attributes):
        if name.startswith('_'):
            continue
        collect_signals(attributes[name], out, seen, depth + 1)


def observed_signals(*objects):
    out, seen = [], set()
    for obj in objects:
        collect_signals(obj, out, seen)
    return out


class SigState:
    """ Ordered {Signal: value} mapping (Signals are not hashable; keyed by identity). """

    def __init__(self, pairs=()):
        self._entries = {}
        self.update(pairs)

    def __setitem__(self, signal, value):
        self._entries[id(signal)] = (signal, value)

    def __getitem__(self, signal):
        return self._entries[id(signal)][1]

    def __iter__(self):
        return iter([s for s, _ in self._entries.values()])

    def items(self):
        return list(self._entries.values())

    def update(self, pairs):
        for signal, value in (pairs.items() if hasattr(pairs, 'items') else pairs):
            self[signal] = value

    def copy(self):
        return SigState(self.items())


class Hasher:
    """ SHA-256 over the per-cycle values of a fixed list of signals. """

    def __init__(self, signals, sha):
        self.signals = signals
        self.chunks  = [Cat(*signals[i:i + 64]) for i in range(0, len(signals), 64)]
        self.sizes   = [(len(c) + 7) // 8 for c in self.chunks]
        self.sha     = sha
        self.sha.update(repr([len(s) for s in signals]).encode())

        self.first   = None
        self.toggled = [0] * len(self.chunks)

    def sample(self, ctx):
        values = [int(ctx.get(chunk)) for chunk in self.chunks]
        for value, size in zip(values, self.sizes):
            self.sha.update(value.to_bytes(size, 'little'))
        if self.first is None:
            self.first = values
        self.toggled = [t | (v ^ f) for t, v, f in zip(self.toggled, values, self.first)]

    def never_toggled(self):
        """ Names of observed signals that kept their initial value for the whole run (coverage aid). """
        names = []
        for index, mask in enumerate(self.toggled):
            offset = 0
            for signal in self.signals[index * 64:(index + 1) * 64]:
                if not (mask >> offset) & ((1 << len(signal)) - 1):
                    names.append(signal.name)
                offset += len(signal)
        return names

    def mark(self, text):
        self.sha.update(text.encode())


class UsbDomainWrapper(Elaboratable):
    """ Top level for purely combinational units: adds a free-running register so that the `usb` domain exists. """

    def __init__(self, dut):
        self.dut = dut

    def elaborate(self, platform):
        m = Module()
        m.submodules.dut = self.dut
        heartbeat = Signal()
        m.d.usb += heartbeat.eq(~heartbeat)
        return m


def run_usb_sim(top, signals_fn, stimulus, cycles, sha, *, domain="usb"):
    """ Runs `cycles` cycles.  `stimulus` is a generator: it yields {Signal: value} dicts (the inputs for the
        coming cycle) and is sent a function `get(signal)` that reads the settled values of the current cycle.
        `signals_fn()` is called after elaboration and returns the list of signals to hash. """

    sim = Simulator(top)
    sim.add_clock(1 / 60e6, domain=domain)
    hasher = Hasher(signals_fn(), sha)

    async def testbench(ctx):
        get = lambda s: int(ctx.get(s))
        inputs = next(stimulus)
        for cycle in range(cycles):
            for signal, value in inputs.items():
                ctx.set(signal, value)
            hasher.sample(ctx)
            try:
                inputs = stimulus.send(get)
            except StopIteration:
                raise RuntimeError("stimulus ran out at cycle %d" % cycle)
            await ctx.tick(domain)

    sim.add_testbench(testbench)
    sim.run()
    quiet = hasher.never_toggled()
    if os.environ.get("EQUIV_VERBOSE"):
        sys.stderr.write("observed %d signals for %d cycles; %d never changed: %s\n"
                         % (len(hasher.signals), cycles, len(quiet), " ".join(quiet)))
    return len(hasher.signals)

# ---------------------------------------------------------------------------------------------
# Minimal USB host model producing per-cycle UTMI stimulus for a USBDevice on a raw UTMI bus.
# ---------------------------------------------------------------------------------------------
OUT, IN, SOF, SETUP, PING = 0b0001, 0b1001, 0b0101, 0b1101, 0b0100
DATA0, DATA1              = 0b0011, 0b1011
ACK, NAK, STALL           = 0b0010, 0b1010, 0b1110


def pid_byte(pid):
    return (pid & 0xF) | ((~pid & 0xF) << 4)


def crc5(value, bits=11):
    crc = 0x1F
    for i in range(bits):
        bit = (value >> i) & 1
        top = (crc >> 4) & 1
        crc = (crc << 1) & 0x1F
        if bit ^ top:
            crc ^= 0x05
    crc ^= 0x1F
    return int(f"{crc:05b}"[::-1], 2)


def crc16(data):
    crc = 0xFFFF
    for byte in data:
        for i in range(8):
            bit = (byte >> i) & 1
            top = (crc >> 15) & 1
            crc = (crc << 1) & 0xFFFF
            if bit ^ top:
                crc ^= 0x8005
    crc ^= 0xFFFF
    crc = int(f"{crc:016b}"[::-1], 2)
    return [crc & 0xFF, crc >> 8]


class DeviceHost:
    """ Generator-based host + application model.  `cycle()` is the only place that yields. """

    def __init__(self, rng, dut, utmi, in_ep, out_ep):
        self.rng, self.dut, self.utmi, self.in_ep, self.out_ep = rng, dut, utmi, in_ep, out_ep
        self.address  = 0
        self.get      = None
        self.random_mode = False
        self.ready_probability = 0.8
        self.in_valid_probability  = 0.6
        self.out_ready_probability = 0.7

        u = utmi
        self.state = SigState([
            (u.rx_data, 0), (u.rx_active, 0), (u.rx_valid, 0), (u.tx_ready, 1),
            (u.line_state, 0b01), (u.vbus_valid, 1), (u.session_valid, 1), (u.session_end, 0),
            (u.rx_error, 0), (u.host_disconnect, 0), (u.id_digital, 0),
            (dut.connect, 1), (dut.low_speed_only, 0), (dut.full_speed_only, 0),
            (in_ep.stream.valid, 0), (in_ep.stream.payload, 0), (in_ep.stream.first, 0), (in_ep.stream.last, 0),
            (in_ep.flush, 0), (in_ep.discard, 0),
            (out_ep.stream.ready, 0),
        ])

    # -- the single yield point ---------------------------------------------------------------
    def cycle(self, count=1):
        rng, s = self.rng, self.state
        for _ in range(count):
            if self.random_mode:
                for signal in s:
                    s[signal] = rng.getrandbits(len(signal))
            else:
                # PHY-side transmit handshake and application-side streams.
                s[self.utmi.tx_ready]         = int(rng.random() < self.ready_probability)
                s[self.out_ep.stream.ready]   = int(rng.random() < self.out_ready_probability)
                stream = self.in_ep.stream
                accepted = self.get is not None and self.get(stream.ready) and s[stream.valid]
                if accepted or not s[stream.valid]:
                    s[stream.valid]   = int(rng.random() < self.in_valid_probability)
                    s[stream.payload] = rng.getrandbits(8)
                    s[stream.first]   = int(rng.random() < 0.1)
                    s[stream.last]    = int(rng.random() < 0.1)
                s[self.in_ep.flush]   = int(rng.random() < 0.01)
                s[self.in_ep.discard] = int(rng.random() < 0.002)
            self.get = yield s.copy()

    # -- packet primitives ---------------------------------------------------------------------
    def packet(self, octets, gap=2, sparse=False):
        s, u = self.state, self.utmi
        s[u.rx_active] = 1
        yield from self.cycle()
        for octet in octets:
            if sparse:
                s[u.rx_valid] = 0
                yield from self.cycle(self.rng.randrange(0, 4))
            s[u.rx_valid] = 1
            s[u.rx_data]  = octet
            yield from self.cycle()
        s[u.rx_valid]  = 0
        if sparse:
            yield from self.cycle(self.rng.randrange(0, 3))
        s[u.rx_active] = 0
        yield from self.cycle(gap)

    def token(self, pid, endpoint=0, address=None, corrupt=False):
        address = self.address if address is None else address
        fields  = address | (endpoint << 7)
        word    = fields | (crc5(fields) << 11)
        if corrupt:
            word ^= 0x4000
        yield from self.packet([pid_byte(pid), word & 0xFF, word >> 8], sparse=self.rng.random() < 0.3)

    def sof(self, frame):
        word = frame | (crc5(frame) << 11)
        yield from self.packet([pid_byte(SOF), word & 0xFF, word >> 8])

    def data(self, pid, payload=(), corrupt=False):
        payload = list(payload)
        crc     = crc16(payload)
        if corrupt:
            crc[0] ^= 0x10
        yield from self.packet([pid_byte(pid), *payload, *crc], sparse=self.rng.random() < 0.3)

    def handshake(self, pid):
        yield from self.packet([pid_byte(pid)])

    def await_response(self, timeout=120):
        """ Waits for the device to start and then finish a transmission (or for the timeout). """
        waited = 0
        while not (self.get and self.get(self.utmi.tx_valid)):
            yield from self.cycle()
            waited += 1
            if waited > timeout:
                return False
        waited = 0
        while self.get(self.utmi.tx_valid) and waited < 400:
            yield from self.cycle()
            waited += 1
        yield from self.cycle(self.rng.randrange(2, 6))
        return True

    # -- transactions --------------------------------------------------------------------------
    def setup(self, request_type, request, value=0, index=0, length=0, endpoint=0):
        yield from self.token(SETUP, endpoint=endpoint)
        yield from self.data(DATA0, [request_type, request, value & 0xFF, value >> 8,
                                     index & 0xFF, index >> 8, length & 0xFF, length >> 8])
        yield from self.await_response()

    def in_transaction(self, endpoint=0, response=ACK):
        yield from self.token(IN, endpoint=endpoint)
        got = yield from self.await_response()
        if got and response is not None:
            yield from self.handshake(response)
        yield from self.cycle(self.rng.randrange(2, 10))

    def out_transaction(self, pid, payload, endpoint=0, corrupt=False, token=OUT):
        yield from self.token(token, endpoint=endpoint)
        yield from self.data(pid, payload, corrupt=corrupt)
        yield from self.await_response(timeout=60)

    def control_in(self, request_type, request, value, index, length, packets=2):
        yield from self.setup(request_type, request, value, index, length)
        for _ in range(packets):
            yield from self.in_transaction(0, response=ACK if self.rng.random() < 0.9 else None)
        yield from self.out_transaction(DATA1, [], endpoint=0)

    def control_out_nodata(self, request_type, request, value=0, index=0):
        yield from self.setup(request_type, request, value, index, 0)
        yield from self.in_transaction(0)

    def bus_reset(self, length=330):
        self.state[self.utmi.line_state] = 0b00
        yield from self.cycle(length)
        self.state[self.utmi.line_state] = 0b01
        if length >= 310:
            self.address = 0
        yield from self.cycle(40)

    # -- the whole schedule -------------------------------------------------------------------
    def run(self):
        rng = self.rng
        frame = 0
        toggle_out = 0
        yield from self.cycle(30)
        while True:
            self.ready_probability = rng.choice([1.0, 0.8, 0.5])
            self.in_valid_probability  = rng.choice([0.6, 0.0, 0.9])
            self.out_ready_probability = rng.choice([0.7, 0.02, 1.0])
            yield from self.bus_reset(rng.choice([330, 340, 100]))

            # Enumeration.
            yield from self.control_in(0x80, 6, 0x0100, 0, 18, packets=2)        # GET_DESCRIPTOR(device)
            new_address = rng.randrange(1, 128)
            yield from self.control_out_nodata(0x00, 5, new_address)             # SET_ADDRESS
            self.address = new_address
            yield from self.control_in(0x80, 6, 0x0200, 0, 64, packets=2)        # GET_DESCRIPTOR(config)
            yield from self.control_in(0x80, 6, 0x0301, 0x0409, 64, packets=1)   # string
            yield from self.control_out_nodata(0x00, 9, 1)                       # SET_CONFIGURATION
            yield from self.control_in(0x80, 8, 0, 0, 1, packets=1)              # GET_CONFIGURATION
            yield from self.control_in(0x80, 0, 0, 0, 2, packets=1)              # GET_STATUS

            for _ in range(3):
                frame = (frame + rng.choice([0, 1, 1, 5])) & 0x7FF
                yield from self.sof(frame)

            # Bulk traffic.
            for _ in range(4):
                payload = [rng.getrandbits(8) for _ in range(rng.randrange(0, 40))]
                yield from self.out_transaction(DATA1 if toggle_out else DATA0, payload, endpoint=1,
                                                corrupt=rng.random() < 0.15)
                toggle_out ^= rng.random() < 0.85
                yield from self.in_transaction(1, response=rng.choice([ACK, ACK, ACK, None, NAK]))
                yield from self.cycle(rng.randrange(1, 30))

            # Odds and ends: PING, foreign address, unknown endpoint, corrupt token, halt handling.
            yield from self.token(PING, endpoint=1)
            yield from self.await_response(timeout=40)
            yield from self.token(PING, endpoint=0)
            yield from self.await_response(timeout=40)
            yield from self.token(IN, endpoint=1, address=(self.address + 1) & 0x7F)
            yield from self.cycle(30)
            yield from self.token(IN, endpoint=3)
            yield from self.cycle(30)
            yield from self.token(OUT, endpoint=1, corrupt=True)
            yield from self.cycle(20)
            yield from self.control_out_nodata(0x02, 1, 0, 0x81)                 # CLEAR_FEATURE(ENDPOINT_HALT, 0x81)
            yield from self.control_out_nodata(0x02, 1, 0, 0x01)                 # CLEAR_FEATURE(ENDPOINT_HALT, 0x01)
            yield from self.control_out_nodata(0x02, 3, 0, 0x81)                 # SET_FEATURE -> (un)handled
            yield from self.control_in(0xC0, 0x42, 1, 2, 8, packets=1)           # vendor IN -> stall
            # control OUT with a data stage (unhandled -> stall)
            yield from self.setup(0x40, 0x43, 0, 0, 4)
            yield from self.out_transaction(DATA1, [1, 2, 3, 4], endpoint=0)
            yield from self.token(PING, endpoint=0)
            yield from self.await_response(timeout=40)
            yield from self.in_transaction(0)
            # a SETUP that interrupts a control transfer
            yield from self.setup(0x80, 6, 0x0100, 0, 18)
            yield from self.control_in(0x80, 6, 0x0100, 0, 8, packets=1)
            self.state[self.utmi.rx_error] = 1
            yield from self.cycle(2)
            self.state[self.utmi.rx_error] = 0
            self.state[self.dut.connect] = 0
            yield from self.cycle(10)
            self.state[self.dut.connect] = 1

            # Pure random phase.
            self.random_mode = True
            yield from self.cycle(rng.randrange(600, 1200))
            self.random_mode = False
            s, u = self.state, self.utmi
            s.update([(u.rx_data, 0), (u.rx_active, 0), (u.rx_valid, 0), (u.line_state, 0b01), (u.vbus_valid, 1),
                      (u.session_valid, 1), (u.session_end, 0), (u.rx_error, 0), (u.host_disconnect, 0),
                      (u.id_digital, 0), (self.dut.connect, 1), (self.dut.low_speed_only, 0),
                      (self.dut.full_speed_only, 0)])
            yield from self.cycle(60)


def make_descriptors():
    from usb_protocol.emitters import DeviceDescriptorCollection

    descriptors = DeviceDescriptorCollection()
    with descriptors.DeviceDescriptor() as d:
        d.idVendor, d.idProduct = 0x1209, 0x0001
        d.iManufacturer, d.iProduct, d.iSerialNumber = "LUNA", "Equivalence Device", "1234"
        d.bNumConfigurations = 1
    with descriptors.ConfigurationDescriptor() as c:
        with c.InterfaceDescriptor() as i:
            i.bInterfaceNumber = 0
            with i.EndpointDescriptor() as e:
                e.bEndpointAddress, e.wMaxPacketSize = 0x01, 64
            with i.EndpointDescriptor() as e:
                e.bEndpointAddress, e.wMaxPacketSize = 0x81, 64
    return descriptors


def build_device():
    """ USBDevice on a raw UTMI bus with a standard control endpoint and a stream IN / OUT endpoint pair. """
    from luna.gateware.interface.utmi               import UTMIInterface
    from luna.gateware.usb.usb2.device              import USBDevice
    from luna.gateware.usb.usb2.endpoints.stream    import USBStreamInEndpoint, USBStreamOutEndpoint

    utmi    = UTMIInterface()
    dut     = USBDevice(bus=utmi, handle_clocking=False)
    control = dut.add_standard_control_endpoint(make_descriptors())
    in_ep   = USBStreamInEndpoint(endpoint_number=1, max_packet_size=64)
    out_ep  = USBStreamOutEndpoint(endpoint_number=1, max_packet_size=64)
    dut.add_endpoint(in_ep)
    dut.add_endpoint(out_ep)
    return dut, utmi, control, in_ep, out_ep


# ---------------------------------------------------------------------------------------------
# K1_4: parent under test = USBRequestHandlerMultiplexer, exercised three ways:
#   (a) top level, three bare RequestHandlerInterface objects, default (stall-only) fallback;
#   (b) top level, one bare interface plus an explicit fallback interface;
#   (c) the instance inside a USBControlEndpoint (StandardRequestHandler) of a complete USBDevice.
# ---------------------------------------------------------------------------------------------
CYCLES_A, CYCLES_B, CYCLES_C = 10000, 6000, 8000


def handler_outputs(i):
    return [
        i.claim, i.tx.valid, i.tx.first, i.tx.last, i.tx.payload, i.tx_data_pid,
        *i.handshakes_out.fields.values(), i.address_changed, i.new_address,
        i.config_changed, i.new_config, i.clear_endpoint_halt.as_value(), i.rx_expected,
    ]


def request_mux_stimulus(rng, shared, claimants, extra_sources):
    """ Plausible phases (a request arrives; at most one handler claims it and answers) alternate with
        pure and sparse random phases on every input (including several simultaneous claims). """

    shared_inputs = [
        *shared.setup.fields.values(), *shared.tokenizer.fields.values(), *shared.handshakes_in.fields.values(),
        *shared.rx.fields.values(), shared.data_requested, shared.status_requested, shared.active_config,
        shared.rx_ready_for_response, shared.rx_invalid, shared.tx.ready,
    ]
    sources    = [*claimants, *extra_sources]
    everything = shared_inputs + [s for i in sources for s in handler_outputs(i)]
    state      = SigState([(s, 0) for s in everything])
    for i in sources:
        state[i.tx_data_pid] = 1
    yield state.copy()

    def idle(count=1):
        for _ in range(count):
            state[shared.tx.ready] = int(rng.random() < 0.75)
            yield state.copy()

    while True:
        for _ in range(rng.randrange(15, 30)):
            # A new request arrives.
            for i in claimants:
                state[i.claim] = 0
            state[shared.setup.recipient]     = rng.getrandbits(5)
            state[shared.setup.type]          = rng.getrandbits(2)
            state[shared.setup.is_in_request] = rng.getrandbits(1)
            state[shared.setup.request]       = rng.getrandbits(8)
            state[shared.setup.value]         = rng.getrandbits(16)
            state[shared.setup.index]         = rng.getrandbits(16)
            state[shared.setup.length]        = rng.choice([0, 0, 2, 18, 64])
            state[shared.setup.received]      = 1
            yield from idle()
            state[shared.setup.received]      = 0

            # Nobody, or exactly one handler, claims it.
            claimant = rng.choice([None, *claimants])
            if claimant is not None:
                state[claimant.claim] = 1
            answering = claimant if claimant is not None else rng.choice(sources)
            yield from idle(rng.randrange(1, 4))

            # Token for the data / status stage.
            t = shared.tokenizer
            pid = rng.choice([IN, OUT, PING])
            state[t.pid], state[t.endpoint], state[t.address] = pid, 0, rng.getrandbits(7)
            state[t.is_in], state[t.is_out], state[t.is_ping] = int(pid == IN), int(pid == OUT), int(pid == PING)
            state[t.new_token] = 1
            yield from idle()
            state[t.new_token] = 0
            yield from idle(2)
            state[t.ready_for_response] = 1
            stage = rng.choice([shared.data_requested, shared.status_requested])
            state[stage] = 1
            yield from idle()
            state[t.ready_for_response] = state[stage] = 0

            kind = rng.choice(['data', 'zlp', 'stall', 'rx', 'address', 'config', 'halt'])
            if kind == 'data':
                length, index = rng.randrange(1, 10), 0
                state[answering.tx_data_pid] = rng.getrandbits(1)
                while index < length:
                    state[answering.tx.valid]   = 1
                    state[answering.tx.first]   = int(index == 0)
                    state[answering.tx.last]    = int(index == length - 1)
                    state[answering.tx.payload] = rng.getrandbits(8)
                    yield from idle()
                    index += state[shared.tx.ready]
                state[answering.tx.valid] = state[answering.tx.first] = state[answering.tx.last] = 0
                yield from idle(2)
                name = rng.choice(['ack', 'ack', 'nak', 'stall', 'nyet'])
                state[shared.handshakes_in[name]] = 1
                yield from idle()
                state[shared.handshakes_in[name]] = 0
            elif kind == 'zlp':
                state[answering.tx.valid] = state[answering.tx.last] = 1
                yield from idle()
                state[answering.tx.valid] = state[answering.tx.last] = 0
            elif kind == 'stall':
                state[answering.handshakes_out.stall] = 1
                yield from idle()
                state[answering.handshakes_out.stall] = 0
            elif kind == 'rx':
                state[shared.rx.valid] = 1
                for _ in range(rng.randrange(1, 8)):
                    state[shared.rx.next], state[shared.rx.payload] = rng.getrandbits(1), rng.getrandbits(8)
                    yield from idle()
                state[shared.rx.valid] = state[shared.rx.next] = 0
                yield from idle(2)
                good = rng.random() < 0.8
                state[shared.rx_ready_for_response], state[shared.rx_invalid] = int(good), int(not good)
                name = rng.choice(['ack', 'nak', 'stall', 'nyet'])
                state[answering.handshakes_out[name]] = int(good)
                yield from idle()
                state[shared.rx_ready_for_response] = state[shared.rx_invalid] = 0
                state[answering.handshakes_out[name]] = 0
            elif kind == 'address':
                state[answering.address_changed], state[answering.new_address] = 1, rng.getrandbits(7)
                yield from idle()
                state[answering.address_changed] = 0
            elif kind == 'config':
                state[answering.config_changed], state[answering.new_config] = 1, rng.getrandbits(8)
                yield from idle()
                state[answering.config_changed] = 0
                state[shared.active_config] = state[answering.new_config]
            elif kind == 'halt':
                state[answering.clear_endpoint_halt.as_value()] = 1 | (rng.getrandbits(5) << 1)
                yield from idle()
                state[answering.clear_endpoint_halt.as_value()] = 0
            yield from idle(rng.randrange(0, 5))

        density = rng.choice([1.0, 0.4, 0.1])
        for _ in range(rng.randrange(300, 600)):
            for signal in everything:
                state[signal] = rng.getrandbits(len(signal)) if rng.random() < density else 0
            yield state.copy()
        for signal in everything:
            state[signal] = 0
        yield state.copy()


def mux_signals(mux, *interfaces):
    kids  = children_of(mux)
    names = [type(k).__name__ for k in kids]
    assert 'Encoder' in names, names
    return observed_signals(mux, *interfaces, *kids)


def main():
    from luna.gateware.interface.utmi               import UTMIInterface
    from luna.gateware.usb.usb2.device              import USBDevice
    from luna.gateware.usb.usb2.control             import USBControlEndpoint
    from luna.gateware.usb.usb2.request             import USBRequestHandlerMultiplexer, RequestHandlerInterface
    from luna.gateware.usb.request.standard         import StandardRequestHandler
    from luna.gateware.usb.usb2.endpoints.stream    import USBStreamInEndpoint, USBStreamOutEndpoint
    capture_children_of(USBRequestHandlerMultiplexer)
    capture_children_of(USBControlEndpoint)

    sha = hashlib.sha256()

    # (a) three handlers, default fallback.
    mux        = USBRequestHandlerMultiplexer()
    interfaces = [RequestHandlerInterface() for _ in range(3)]
    for interface in interfaces:
        mux.add_interface(interface)
    stimulus = request_mux_stimulus(random.Random(0x4B315F41), mux.shared, interfaces, [])
    def signals_a():
        assert 'StallOnlyRequestHandler' in [type(k).__name__ for k in children_of(mux)]
        return mux_signals(mux, *interfaces)
    run_usb_sim(UsbDomainWrapper(mux), signals_a, stimulus, CYCLES_A, sha)

    # (b) one handler, explicit fallback interface.
    mux      = USBRequestHandlerMultiplexer()
    only     = RequestHandlerInterface()
    fallback = RequestHandlerInterface()
    mux.add_interface(only)
    mux.set_fallback_interface(fallback)
    stimulus = request_mux_stimulus(random.Random(0x4B315F42), mux.shared, [only], [fallback])
    run_usb_sim(UsbDomainWrapper(mux), lambda: mux_signals(mux, only, fallback), stimulus, CYCLES_B, sha)

    # (c) the multiplexer inside a device's control endpoint.
    utmi    = UTMIInterface()
    dut     = USBDevice(bus=utmi, handle_clocking=False)
    control = USBControlEndpoint(utmi=utmi)
    handler = StandardRequestHandler(make_descriptors(), max_packet_size=64)
    control.add_request_handler(handler)
    in_ep   = USBStreamInEndpoint(endpoint_number=1, max_packet_size=64)
    out_ep  = USBStreamOutEndpoint(endpoint_number=1, max_packet_size=64)
    for endpoint in (control, in_ep, out_ep):
        dut.add_endpoint(endpoint)
    host = DeviceHost(random.Random(0x4B315F43), dut, utmi, in_ep, out_ep)
    def signals_c():
        (inner,) = [k for k in children_of(control) if type(k).__name__ == 'USBRequestHandlerMultiplexer']
        return mux_signals(inner, handler.interface) + observed_signals(control, utmi)
    run_usb_sim(dut, signals_c, host.run(), CYCLES_C, sha)

    print("HASH " + sha.hexdigest())

main()
