#!/usr/bin/env python3
#
# Equivalence-hash script: builds the unit(s) under test from whatever ``luna`` is on PYTHONPATH, drives all
# inputs with a fixed-seed stimulus under amaranth.sim, and prints a SHA-256 over the per-cycle values of all
# ports of the parent and of its immediate children.
#
import sys
import zlib
import random
import hashlib
import warnings
import collections

warnings.filterwarnings("ignore")

from amaranth         import *
from amaranth.hdl.rec import Record
from amaranth.sim     import Simulator


# ------------------------------------------------------------------------------------------------------------
#  Generic harness: signal collection, pre-elaboration (to get at the children), per-cycle hashing.
# ------------------------------------------------------------------------------------------------------------

def public_signals(obj, prefix):
    """ Returns [(path, Signal)] for every Signal reachable through public attributes (Records are flattened). """
    found = []

    def visit(value, path):
        if isinstance(value, Record):
            for field_name, field in value.fields.items():
                visit(field, f"{path}.{field_name}")
        elif isinstance(value, Signal):
            found.append((path, value))
        elif isinstance(value, (list, tuple)):
            for index, item in enumerate(value):
                visit(item, f"{path}[{index}]")
        elif type(value).__module__.startswith('luna.') and not isinstance(value, (Value, Elaboratable)):
            # Plain interface bundles (e.g. SuperSpeedEndpointInterface).
            visit_attributes(value, path)

    def visit_attributes(container, path):
        for name in sorted(vars(container)):
            if not name.startswith('_'):
                visit(vars(container)[name], f"{path}.{name}")

    visit_attributes(obj, prefix)
    return found


def pre_elaborate(obj, platform=None):
    """ Elaborates ``obj`` now, pins the result (so the simulator uses this very Module), and returns its children. """
    module = obj.elaborate(platform)
    assert isinstance(module, Module), f"{obj!r} did not return a plain Module"
    obj.elaborate = lambda platform: module
    children  = [sub for (sub, _) in module._named_submodules.values()]
    children += [sub for (sub, _) in module._anon_submodules]
    return children


def children_by_class(children):
    """ Returns {class name: child}; refuses ambiguous (same-class) children, so naming/ordering can't matter. """
    result = {}
    for child in children:
        name = type(child).__name__
        assert name not in result, f"two children of class {name}"
        result[name] = child
    return result


class Values:
    """ {Signal: value} (Signals aren't hashable). """

    def __init__(self):
        self.entries = {}

    def __setitem__(self, signal, value):
        self.entries[id(signal)] = (signal, int(value))

    def update(self, other):
        self.entries.update(other.entries)

    def items(self):
        return self.entries.values()


class Harness:
    """ Collects the signals to hash; and runs a single-clock (``ss``) simulation, hashing them every cycle. """

    def __init__(self):
        self.entries = []

    def add(self, obj, prefix):
        self.entries.extend(public_signals(obj, prefix))

    def add_children(self, children, prefix="child"):
        by_class = children_by_class(children)
        for class_name in sorted(by_class):
            self.add(by_class[class_name], f"{prefix}:{class_name}")

    def finalize(self, m):
        """ Adds the probe (one wide combinational copy of everything hashed) to the top-level module ``m``. """
        self.entries.sort(key=lambda entry: entry[0])
        self.slots = {}
        offset = 0
        for path, signal in self.entries:
            self.slots.setdefault(id(signal), (offset, len(signal)))
            offset += len(signal)
        self.width = offset
        self.probe = Signal(max(offset, 1), name="equiv_probe")
        m.d.comb += self.probe.eq(Cat(signal for _, signal in self.entries))

    def field(self, sample, signal):
        offset, width = self.slots[id(signal)]
        return (sample >> offset) & ((1 << width) - 1)

    def run(self, top, cycles, step):
        """ ``step(cycle, previous_sample)`` returns {Signal: value} for this cycle's inputs. """
        digest  = hashlib.sha256()
        nbytes  = (self.width + 7) // 8
        for path, signal in self.entries:
            digest.update(f"{path}:{len(signal)};".encode())

        sim = Simulator(top)
        sim.add_clock(8e-9, domain="ss")

        async def testbench(ctx):
            current = {}
            sample  = None
            for cycle in range(cycles):
                for signal, value in step(cycle, sample).items():
                    value &= (1 << len(signal)) - 1
                    if current.get(id(signal)) != value:
                        current[id(signal)] = value
                        ctx.set(signal, value)
                sample = ctx.get(self.probe)
                digest.update(sample.to_bytes(nbytes, 'little'))
                self.after_sample(cycle, sample)
                await ctx.tick("ss")

        sim.add_testbench(testbench)
        sim.run()
        return digest.hexdigest()

    def after_sample(self, cycle, sample):
        pass


# ------------------------------------------------------------------------------------------------------------
#  USB3 wire-level helpers (software CRCs were validated against the gateware CRC units).
# ------------------------------------------------------------------------------------------------------------

SKP, SDP, EDB, SUB, COM, SHP, END, SLC, EPF = 0x3C, 0x5C, 0x7C, 0x9C, 0xBC, 0xFB, 0xFD, 0xFE, 0xF7

def symbols(a, b, c, d):
    return (a | (b << 8) | (c << 16) | (d << 24), 0xF)

HPSTART  = symbols(SHP, SHP, SHP, EPF)
LCSTART  = symbols(SLC, SLC, SLC, EPF)
DPPSTART = symbols(SDP, SDP, SDP, EPF)
DPPEND   = symbols(END, END, END, EPF)
DPPABORT = symbols(EDB, EDB, EDB, EPF)
IDLE     = (0, 0)
NOTHING  = None                       # a cycle without a valid word

LGOOD, LCRD, LRTY, LBAD, LGO_U, LAU, LXU, LPMA, LUP, LDN = 0, 1, 2, 3, 4, 5, 6, 7, 8, 11

TSEQ_SET = [(0xC017FFBC, 0x1), (0x02E7B214, 0), (0x286E7282, 0), (0xBF6DBEA6, 0)] + [(0x4A4A4A4A, 0)] * 4
TS1_SET  = [(0xBCBCBCBC, 0xF), (0x4A4A0000, 0), (0x4A4A4A4A, 0), (0x4A4A4A4A, 0)]
ITS1_SET = [(0xBCBCBCBC, 0xF), (0xB5B50000, 0), (0xB5B5B5B5, 0), (0xB5B5B5B5, 0)]

def ts2_set(config=0):
    return [(0xBCBCBCBC, 0xF), (0x45450000 | (config << 8), 0), (0x45454545, 0), (0x45454545, 0)]


def crc5(value):
    bit = lambda i: (value >> (10 - i)) & 1
    xor = lambda *indices: sum(bit(i) for i in indices) & 1
    bits = [xor(10, 9, 8, 5, 4, 2), 1 ^ xor(10, 9, 8, 7, 4, 3, 1), xor(10, 9, 8, 7, 6, 3, 2, 0),
            xor(10, 7, 6, 4, 1), xor(10, 9, 6, 5, 3, 0)]
    return sum(b << i for i, b in enumerate(bits))


def crc16(words):
    crc = 0xFFFF
    for word in words:
        for i in range(32):
            feedback = ((crc >> 15) & 1) ^ ((word >> i) & 1)
            crc = (crc << 1) & 0xFFFF
            if feedback:
                crc ^= 0x100B
    reflected = sum(1 << (15 - i) for i in range(16) if (crc >> i) & 1)
    return reflected ^ 0xFFFF


def link_command(command, subtype=0, *, corrupt=False):
    word  = (subtype & 0xF) | (command << 7)
    word |= crc5(word & 0x7FF) << 11
    replica = word ^ (0x10 if corrupt else 0)
    return [LCSTART, (word | (replica << 16), 0)]


def header_packet(dw0, dw1, dw2, sequence, *, delayed=0, deferred=0, hub_depth=0, corrupt=0):
    control = (sequence & 7) | (hub_depth << 6) | (delayed << 9) | (deferred << 10)
    dw3 = crc16([dw0, dw1, dw2]) | (control << 16) | (crc5(control) << 27)
    if corrupt == 1:
        dw3 ^= 0x0004
    elif corrupt == 2:
        dw3 ^= 0x80000000
    return [HPSTART, (dw0, 0), (dw1, 0), (dw2, 0), (dw3, 0)]


def data_payload(payload: bytes, *, corrupt=False, abort=False):
    """ Returns the words of a Data Packet Payload: framing, data, CRC-32, end framing. """
    crc = zlib.crc32(payload) & 0xFFFFFFFF
    if corrupt:
        crc ^= 0x00010000
    stream  = [(byte, 0) for byte in payload + crc.to_bytes(4, 'little')]
    ending  = EDB if abort else END
    stream += [(ending, 1), (ending, 1), (ending, 1), (EPF, 1)]
    while len(stream) % 4:
        stream.append((0, 0))
    words = [DPPSTART]
    for i in range(0, len(stream), 4):
        data = sum(stream[i + j][0] << (8 * j) for j in range(4))
        ctrl = sum(stream[i + j][1] << j       for j in range(4))
        words.append((data, ctrl))
    return words


# Header packet builders (field layouts from the gateware's HeaderPacket subclasses).
TYPE_LMP, TYPE_TP, TYPE_DATA, TYPE_ITP = 0, 4, 8, 12

def lmp_dwords(subtype, link_speed=1, dw1=0):
    return (TYPE_LMP | (subtype << 5) | (link_speed << 9), dw1, 0)

def itp_dwords(timestamp, bus_interval_adjustment=0):
    return (TYPE_ITP | ((timestamp & 0x7FFFFFF) << 5), bus_interval_adjustment & 0xFFFF, 0)

def tp_dwords(address, subtype, *, endpoint=0, direction=0, retry=0, host_error=0, packets=1, sequence=0, pending=0):
    dw0 = TYPE_TP | (address << 25)
    dw1 = subtype | (retry << 6) | (direction << 7) | (endpoint << 8) | (host_error << 15) | \
          (packets << 16) | (sequence << 21)
    dw2 = pending << 27
    return (dw0, dw1, dw2)

def dph_dwords(address, *, endpoint=0, direction=0, sequence=0, length=0, setup=0, end_of_burst=0, pending=0):
    dw0 = TYPE_DATA | (address << 25)
    dw1 = sequence | (end_of_burst << 6) | (direction << 7) | (endpoint << 8) | (setup << 15) | (length << 16)
    dw2 = pending << 27
    return (dw0, dw1, dw2)


# ------------------------------------------------------------------------------------------------------------
#  Stand-in for the USB3 physical layer: just the attributes the link layer touches.
# ------------------------------------------------------------------------------------------------------------

class PhysicalLayerStandIn(Elaboratable):
    """ Same port list as USB3PhysicalLayer; everything is driven / observed by the testbench. """

    def __init__(self, **kwargs):
        from luna.gateware.usb.stream import USBRawSuperSpeedStream

        self.sink                       = USBRawSuperSpeedStream()
        self.source                     = USBRawSuperSpeedStream()
        self.raw_source                 = USBRawSuperSpeedStream()

        self.ready                      = Signal()
        self.engage_terminations        = Signal()
        self.tx_deemph                  = Signal(2)
        self.tx_electrical_idle         = Signal()
        self.tx_ones_zeros              = Signal()
        self.invert_rx_polarity         = Signal()
        self.train_equalizer            = Signal()
        self.vbus_present               = Signal()

        self.enable_scrambling          = Signal()

        self.perform_rx_detection       = Signal()
        self.link_partner_detected      = Signal()
        self.no_link_partner_detected   = Signal()

        self.send_lfps_polling          = Signal()
        self.lfps_cycles_sent           = Signal(16)

        self.lfps_ping_detected         = Signal()
        self.lfps_polling_detected      = Signal()
        self.lfps_reset_detected        = Signal()

        self.can_send_skp               = Signal()

    def elaborate(self, platform):
        return Module()


def shorten_tseq_bursts(limit=48):
    """ The LTSSM sends 65536 TSEQ sets (half a million cycles) before training; cap that burst so that several
        complete link bring-ups fit into the simulation. (TSEmitter is not part of the code under test.) """
    from luna.gateware.usb.usb3.link import ordered_sets
    original = ordered_sets.TSEmitter.__init__

    def patched(self, *args, transmit_burst_length=1, **kwargs):
        original(self, *args, transmit_burst_length=min(transmit_burst_length, limit), **kwargs)
    ordered_sets.TSEmitter.__init__ = patched


# ------------------------------------------------------------------------------------------------------------
#  Host / link-partner model: produces the word stream the physical layer hands to the link layer, reacts to
#  what the device transmits (LGOOD/LCRD for its headers, LRTY + retransmission on LBAD, ...).
# ------------------------------------------------------------------------------------------------------------

INTERESTING_WORDS = [HPSTART, LCSTART, DPPSTART, DPPEND, DPPABORT, IDLE, TS1_SET[0], TS1_SET[1], TS1_SET[2],
                     ts2_set()[1], ts2_set()[2], TSEQ_SET[0], TSEQ_SET[1], ITS1_SET[1], (0xFFFFFFFF, 0)]

class HostModel:

    def __init__(self, phy, seed, *, address=0):
        self.phy       = phy
        self.rnd       = random.Random(seed)
        self.address   = address

        # Word source.
        self.script    = None
        self.current   = collections.deque()
        self.responses = collections.deque()
        self.gap_probability   = 0.0
        self.stall_probability = 0.0          # probability of de-asserting sink.ready
        self.random_mode       = False
        self.reactive          = True

        # Physical layer status, as set by the script.
        self.status = dict(ready=0, vbus_present=0, lfps_reset_detected=0, lfps_ping_detected=0,
                           partner_present=1, host_polling=0)
        self.lfps_cycles_sent   = 0
        self.lfps_divider       = 0
        self.polling_divider    = 0
        self.detect_requested   = 0
        self.polling_requested  = 0

        # Link state.
        self.reset_link_state()

        # Device transmission parser.
        self.rx_words      = []
        self.rx_mode       = None
        self.last_kind     = None
        self.counts        = collections.Counter()
        self.device_headers = []
        self.sink_ready    = 1


    def reset_link_state(self, *, full=True):
        if full:
            self.tx_sequence   = 0
        self.unacked           = []
        self.credits           = 0
        self.next_credit       = 0
        self.ignore_until_lrty = False
        self.lbad_probability  = 0.0
        self.responses.clear()


    # -- script helpers (generators yielding atoms: lists of words that are sent back-to-back) --

    def idle(self, cycles, *, valid=True):
        for _ in range(cycles):
            yield [IDLE if valid else NOTHING]

    def wait_for(self, condition, *, filler=None, limit=4000):
        """ Sends ``filler`` atoms (default: nothing valid) until ``condition()``; bounded. """
        sent = 0
        while not condition() and sent < limit:
            atom = filler() if filler else [NOTHING]
            sent += len(atom)
            yield atom

    def power_on(self, *, dark_cycles=20):
        self.status.update(ready=0, vbus_present=0, host_polling=0)
        yield from self.idle(dark_cycles, valid=False)
        self.status.update(vbus_present=1)
        yield from self.idle(7, valid=False)
        self.status.update(ready=1)

    def train(self, *, inverted=False, ts2_config=0, from_recovery=False):
        """ Walks the device's LTSSM from LFPS polling (or recovery) to U0. """
        counts = self.counts
        self.reset_link_state(full=False)

        if not from_recovery:
            self.status.update(host_polling=1)
            start = counts['TSEQ']
            yield from self.wait_for(lambda: counts['TSEQ'] > start, limit=3000)
            self.status.update(host_polling=0)

            start = counts['TS1']
            yield from self.wait_for(lambda: counts['TS1'] > start, filler=lambda: list(TSEQ_SET), limit=6000)

        start = counts['TS2']
        ts1 = ITS1_SET if inverted else TS1_SET
        yield from self.wait_for(lambda: counts['TS2'] > start + 2, filler=lambda: list(ts1), limit=3000)

        yield from self.wait_for(lambda: self.last_kind == 'IDLE', filler=lambda: ts2_set(ts2_config), limit=3000)
        if ts2_config & 1:
            # Hot reset: the device answers with reset TS2s; then we drop the reset bit.
            for _ in range(24):
                yield ts2_set(ts2_config)
            start = counts['TS2']
            yield from self.wait_for(lambda: counts['TS2'] > start + 20, filler=lambda: ts2_set(ts2_config), limit=600)
            yield from self.wait_for(lambda: self.last_kind == 'IDLE', filler=lambda: ts2_set(0), limit=3000)
            self.reset_link_state(full=True)

        yield from self.idle(12)

        # Header sequence number advertisement, and our credits.
        yield link_command(LGOOD, (self.tx_sequence - 1) & 7)
        for credit in range(4):
            yield link_command(LCRD, credit)
            yield from self.idle(self.rnd.randrange(0, 3))
        self.next_credit = 0

    def enter_recovery(self):
        yield from self.train(from_recovery=True)

    def device_is_training(self):
        return self.last_kind in ('TS1', 'TS2')

    def warm_reset(self, cycles=40):
        self.status.update(lfps_reset_detected=1)
        yield from self.idle(cycles, valid=False)
        self.status.update(lfps_reset_detected=0)
        self.reset_link_state(full=True)

    def send_header(self, dwords, *, payload=None, corrupt=0, deferred=0, wait_for_credit=True):
        if wait_for_credit:
            yield from self.wait_for(lambda: self.credits > 0, filler=lambda: [IDLE], limit=600)
        sequence = self.tx_sequence
        atom = header_packet(*dwords, sequence, corrupt=corrupt, deferred=deferred)
        if payload is not None:
            atom = atom + payload
        # (The header receiver spends a cycle checking each header; it can't take headers back-to-back.)
        atom = atom + [IDLE]
        self.tx_sequence = (self.tx_sequence + 1) & 7
        self.unacked.append((dwords, sequence))
        self.credits = max(self.credits - 1, 0)
        yield atom

    def random_phase(self, cycles):
        self.random_mode = True
        yield from self.idle(cycles)
        self.random_mode = False


    # -- per-cycle interface --

    def next_word(self):
        rnd = self.rnd
        if self.random_mode:
            # Still consume the script (one idle per cycle), so the phase has a defined length.
            self._pull()
            self.current.popleft()
            if rnd.random() < 0.3:
                return NOTHING
            if rnd.random() < 0.6:
                return rnd.choice(INTERESTING_WORDS)
            return (rnd.getrandbits(32), rnd.choice([0, 0, 0, 0xF, rnd.getrandbits(4)]))

        if self.gap_probability and rnd.random() < self.gap_probability:
            return NOTHING
        self._pull()
        return self.current.popleft()

    def _pull(self):
        while not self.current:
            if self.responses:
                self.current.extend(self.responses.popleft())
            else:
                atom = next(self.script, None) if self.script is not None else None
                if atom is None:
                    self.script = None
                    atom = [IDLE]
                self.current.extend(atom)

    def inputs(self):
        """ Returns this cycle's values for all physical-layer outputs (= link layer inputs). """
        phy, status, rnd = self.phy, self.status, self.rnd
        word = self.next_word()

        values = Values()
        valid, (data, ctrl) = (0, (0, 0)) if word is None else (1, word)
        if self.random_mode and word is None:
            data, ctrl = rnd.getrandbits(32), rnd.getrandbits(4)
        raw_valid, raw_data, raw_ctrl = valid, data, ctrl
        if self.random_mode and rnd.random() < 0.5:
            raw_valid, raw_data, raw_ctrl = rnd.getrandbits(1), rnd.getrandbits(32), rnd.getrandbits(4)

        for stream, (v, d, c) in ((phy.source, (valid, data, ctrl)), (phy.raw_source, (raw_valid, raw_data, raw_ctrl))):
            values[stream.valid]   = v
            values[stream.payload] = d
            values[stream.ctrl]    = c
            values[stream.first]   = rnd.getrandbits(1) if self.random_mode else 0
            values[stream.last]    = rnd.getrandbits(1) if self.random_mode else 0

        # Transmit-side backpressure (SKP insertion and the like).
        if self.random_mode:
            self.sink_ready = rnd.getrandbits(1)
        elif self.stall_probability and rnd.random() < self.stall_probability:
            self.sink_ready = 0
        else:
            self.sink_ready = 1
        values[phy.sink.ready] = self.sink_ready

        # LFPS / receiver detection models (one cycle of latency).
        if self.polling_requested:
            self.lfps_divider += 1
            if self.lfps_divider == 5:
                self.lfps_divider = 0
                self.lfps_cycles_sent = (self.lfps_cycles_sent + 1) & 0xFFFF
        else:
            self.lfps_cycles_sent = 0
            self.lfps_divider     = 0
        self.polling_divider = (self.polling_divider + 1) % 23

        if self.random_mode:
            values[phy.ready]                     = rnd.random() < 0.98
            values[phy.vbus_present]              = rnd.random() < 0.998
            values[phy.lfps_reset_detected]       = rnd.random() < 0.002
            values[phy.lfps_ping_detected]        = rnd.getrandbits(1)
            values[phy.lfps_polling_detected]     = rnd.getrandbits(1)
            values[phy.link_partner_detected]     = rnd.getrandbits(1)
            values[phy.no_link_partner_detected]  = rnd.random() < 0.1
            values[phy.lfps_cycles_sent]          = rnd.getrandbits(6)
        else:
            values[phy.ready]                     = status['ready']
            values[phy.vbus_present]              = status['vbus_present']
            values[phy.lfps_reset_detected]       = status['lfps_reset_detected']
            values[phy.lfps_ping_detected]        = status['lfps_ping_detected']
            values[phy.lfps_polling_detected]     = int(bool(status['host_polling']) and self.polling_divider == 0)
            values[phy.link_partner_detected]     = int(self.detect_requested and bool(status['partner_present']))
            values[phy.no_link_partner_detected]  = int(self.detect_requested and not status['partner_present'])
            values[phy.lfps_cycles_sent]          = self.lfps_cycles_sent
        return values


    def observe(self, harness, sample):
        """ Looks at what the device does this cycle. """
        phy = self.phy
        self.detect_requested  = harness.field(sample, phy.perform_rx_detection)
        self.polling_requested = harness.field(sample, phy.send_lfps_polling)

        if not (harness.field(sample, phy.sink.valid) and self.sink_ready):
            return
        word = (harness.field(sample, phy.sink.payload), harness.field(sample, phy.sink.ctrl))
        self.parse(word)


    def parse(self, word):
        counts = self.counts

        # Multi-word constructs in progress.
        if self.rx_mode == 'HP':
            self.rx_words.append(word)
            if len(self.rx_words) == 4:
                self.rx_mode = None
                self.device_header(self.rx_words)
            return
        if self.rx_mode == 'LC':
            self.rx_mode = None
            self.device_link_command((word[0] >> 7) & 0xF, word[0] & 0xF)
            return
        if self.rx_mode == 'TS':
            self.rx_mode = None
            if word[0] >> 16 == 0x4A4A:
                counts['TS1'] += 1
                self.last_kind = 'TS1'
            elif word[0] >> 16 == 0x4545:
                counts['TS2'] += 1
                self.last_kind = 'TS2'
            return

        if word == HPSTART:
            self.rx_mode, self.rx_words = 'HP', []
            self.last_kind = 'HP'
        elif word == LCSTART:
            self.rx_mode = 'LC'
            self.last_kind = 'LC'
        elif word == TS1_SET[0]:
            self.rx_mode = 'TS'
        elif word == TSEQ_SET[0]:
            counts['TSEQ'] += 1
            self.last_kind = 'TSEQ'
        elif word == IDLE and self.last_kind in ('TS1', 'TS2', 'TSEQ'):
            self.last_kind = 'IDLE'


    def device_header(self, words):
        self.counts['HP'] += 1
        dw3 = words[3][0]
        sequence = (dw3 >> 16) & 7
        self.device_headers.append((words[0][0], words[1][0], words[2][0], dw3))
        if not self.reactive or self.ignore_until_lrty:
            return

        if self.lbad_probability and self.rnd.random() < self.lbad_probability:
            self.ignore_until_lrty = True
            self.responses.append(link_command(LBAD))
            return

        self.responses.append(link_command(LGOOD, sequence))
        self.responses.append(link_command(LCRD, self.next_credit))
        self.next_credit = (self.next_credit + 1) & 3


    def device_link_command(self, command, subtype):
        self.counts[f'LC{command}'] += 1
        if command == LCRD:
            self.credits = min(self.credits + 1, 4)
        elif command == LGOOD:
            self.unacked = [entry for entry in self.unacked if entry[1] != subtype]
        elif command == LRTY:
            self.ignore_until_lrty = False
        elif command == LBAD and self.reactive:
            atom = link_command(LRTY)
            for dwords, sequence in self.unacked:
                atom = atom + header_packet(*dwords, sequence, delayed=1) + [IDLE]
            self.responses.append(atom)


def traffic(host, items, *, errors=False):
    """ Plausible U0 traffic towards the device. """
    rnd = host.rnd
    timestamp = 100
    for _ in range(items):
        # If the device has gone to recovery on its own, follow it.
        if host.device_is_training():
            yield from host.train(from_recovery=True)

        choice = rnd.random()
        if choice < 0.25:
            dwords = tp_dwords(host.address, rnd.choice([1, 1, 4, 7]), endpoint=rnd.randrange(4), direction=rnd.getrandbits(1),
                               retry=rnd.random() < 0.1, packets=rnd.randrange(4), sequence=rnd.randrange(32))
            yield from host.send_header(dwords, corrupt=(rnd.choice([1, 2]) if errors and rnd.random() < 0.1 else 0))
        elif choice < 0.35:
            timestamp += rnd.randrange(1, 50)
            yield from host.send_header(itp_dwords(timestamp))
        elif choice < 0.42:
            yield from host.send_header(lmp_dwords(rnd.choice([4, 5, 5, 1]), link_speed=rnd.choice([1, 1, 2])))
        elif choice < 0.70:
            length  = rnd.choice([0, 1, 2, 3, 4, 5, 8, 8, 13, 31, 64, rnd.randrange(1, 200)])
            payload = bytes(rnd.getrandbits(8) for _ in range(length))
            dwords  = dph_dwords(host.address, endpoint=rnd.randrange(3), sequence=rnd.randrange(32), length=length,
                                 setup=(length == 8 and rnd.random() < 0.5))
            bad = errors and rnd.random() < 0.15
            yield from host.send_header(dwords, payload=data_payload(payload, corrupt=bad, abort=bad and rnd.random() < 0.3))
        elif choice < 0.80:
            yield link_command(LDN, corrupt=errors and rnd.random() < 0.2)
        elif choice < 0.84:
            yield link_command(LGO_U, rnd.randrange(1, 4))
        else:
            pass
        yield from host.idle(rnd.choice([0, 1, 2, 5, 20, 60]))



# ============================================================================================================
#  Unit under test: USB3LinkLayer (with all of its real children) on the physical layer stand-in.
# ============================================================================================================

CYCLES = 26000

def main():
    from luna.gateware.usb.usb3.link import USB3LinkLayer

    shorten_tseq_bursts()

    phy  = PhysicalLayerStandIn()
    link = USB3LinkLayer(physical_layer=phy, ss_clock_frequency=4e6)
    children = pre_elaborate(link)

    m = Module()
    m.domains.ss = ClockDomain()
    m.submodules.phy  = phy
    m.submodules.link = link

    harness = Harness()
    harness.add(link, "link")
    harness.add(phy,  "phy")
    harness.add_children(children)
    harness.finalize(m)

    host  = HostModel(phy, seed=0x4b32_0001)
    upper = LinkUser(link, seed=0x4b32_0002)

    def script():
        rnd = host.rnd
        yield from host.power_on()
        yield from host.train()
        host.gap_probability = 0.04
        yield from traffic(host, 60)

        # Host-initiated recovery.
        host.lbad_probability = 0.15
        yield from host.enter_recovery()
        host.stall_probability = 0.1
        yield from traffic(host, 50, errors=True)

        # Garbage on every input.
        yield from host.random_phase(1500)
        upper.random_mode = True
        yield from host.random_phase(1500)
        upper.random_mode = False

        # Warm reset; retrain with inverted polarity and 'disable scrambling' requested.
        host.gap_probability, host.stall_probability = 0, 0
        yield from host.warm_reset()
        yield from host.train(inverted=True, ts2_config=0b1000)
        host.gap_probability = 0.02
        yield from traffic(host, 50, errors=True)

        # Starve the device of link commands until its recovery timer fires; then retrain with a hot reset.
        start = host.counts['TS1']
        yield from host.wait_for(lambda: host.counts['TS1'] > start, limit=5000)
        yield from host.train(from_recovery=True, ts2_config=0b0001)
        yield from traffic(host, 40)

        # Loss of VBUS, and a fresh start.
        host.status.update(vbus_present=0)
        yield from host.idle(30, valid=False)
        host.reset_link_state(full=True)
        yield from host.power_on(dark_cycles=10)
        yield from host.train()
        host.stall_probability = 0.05
        yield from traffic(host, 1000, errors=True)

    host.script = script()

    def step(cycle, sample):
        if sample is not None:
            host.observe(harness, sample)
            upper.observe(harness, sample)
        values = host.inputs()
        values.update(upper.inputs())
        return values

    print("HASH", harness.run(m, CYCLES, step))

    if "-v" in sys.argv:
        print(dict(host.counts), len(host.device_headers), dict(upper.counts), file=sys.stderr)


class LinkUser:
    """ Drives the link layer's upward-facing inputs (what the protocol layer would do). """

    def __init__(self, link, seed):
        self.link = link
        self.rnd  = random.Random(seed)
        self.random_mode = False
        self.counts = collections.Counter()

        self.header       = None      # header being offered on header_sink
        self.header_delay = 0
        self.accept_delay = 0
        self.packet       = None      # words of the data packet being sent
        self.parameters   = dict(seq=0, ep=0, length=0, direction=1)
        self.address      = 0
        self.zlp          = 0
        self.ready        = 0         # link.ready, from the previous cycle
        self.sink_ready   = 0
        self.data_ready   = 0
        self.source_valid = 0

    def observe(self, harness, sample):
        link = self.link
        self.ready        = harness.field(sample, link.ready)
        self.sink_ready   = harness.field(sample, link.header_sink.ready)
        self.data_ready   = harness.field(sample, link.data_sink.ready)
        self.source_valid = harness.field(sample, link.header_source.valid)

    def inputs(self):
        link, rnd = self.link, self.rnd
        values = Values()

        if self.random_mode:
            values[link.header_sink.valid]         = rnd.getrandbits(1)
            for field in link.header_sink.header.fields.values():
                values[field]                      = rnd.getrandbits(len(field))
            values[link.header_source.ready]       = rnd.getrandbits(1)
            values[link.data_sink.valid]           = rnd.choice([0, 0, 0xF, 0xF, 0x7, 0x3, 0x1, rnd.getrandbits(4)])
            values[link.data_sink.first]           = rnd.getrandbits(1)
            values[link.data_sink.last]            = rnd.getrandbits(1)
            values[link.data_sink.payload]         = rnd.getrandbits(32)
            values[link.data_source.ready]         = rnd.getrandbits(1)
            values[link.data_sink_send_zlp]        = rnd.random() < 0.1
            values[link.data_sink_sequence_number] = rnd.getrandbits(5)
            values[link.data_sink_endpoint_number] = rnd.getrandbits(4)
            values[link.data_sink_length]          = rnd.randrange(1025)
            values[link.data_sink_direction]       = rnd.getrandbits(1)
            values[link.current_address]           = rnd.getrandbits(7)
            values[link.disable_scrambling]        = rnd.random() < 0.1
            values[link.enable_compliance]         = rnd.random() < 0.1
            self.header, self.packet = None, None
            return values

        # Header packets towards the host: offered until accepted.
        if self.header is not None and self.sink_ready:
            self.header = None
            self.counts['headers'] += 1
        if self.header is None and self.ready and self.packet is None:
            if self.header_delay == 0:
                self.header_delay = rnd.choice([3, 10, 40, 150, 400])
                self.header = tp_dwords(self.address, rnd.choice([1, 2, 3, 5]), endpoint=rnd.randrange(4),
                                        direction=rnd.getrandbits(1), sequence=rnd.randrange(32), packets=rnd.randrange(4))
            else:
                self.header_delay -= 1
        dw0, dw1, dw2 = self.header if self.header is not None else (0, 0, 0)
        header = link.header_sink.header
        values[link.header_sink.valid] = int(self.header is not None)
        values[header.dw0] = dw0
        values[header.dw1] = dw1
        values[header.dw2] = dw2
        for name in ('crc16', 'sequence_number', 'dw3_reserved', 'hub_depth', 'delayed', 'deferred', 'crc5'):
            values[header[name]] = 0

        # Header packets from the host: accepted after a little while.
        if self.source_valid:
            if self.accept_delay == 0:
                values[link.header_source.ready] = 1
                self.accept_delay = rnd.choice([0, 0, 1, 3, 12, 50])
            else:
                values[link.header_source.ready] = 0
                self.accept_delay -= 1
        else:
            values[link.header_source.ready] = 0

        # Data packets towards the host.
        self.zlp = 0
        if self.packet is not None and self.data_ready:
            self.packet.pop(0)
            if not self.packet:
                self.packet = None
                self.counts['packets'] += 1
        elif self.packet is None and self.ready and self.header is None and rnd.random() < 0.004:
            length = rnd.choice([0, 1, 2, 3, 4, 7, 8, 18, 64, 100])
            self.parameters = dict(seq=rnd.randrange(32), ep=rnd.randrange(4), length=length, direction=rnd.getrandbits(1))
            if length == 0:
                self.zlp = 1
            else:
                words = []
                for offset in range(0, length, 4):
                    remaining = min(length - offset, 4)
                    words.append((rnd.getrandbits(32), (1 << remaining) - 1, offset == 0, offset + 4 >= length))
                self.packet = words
        data, valid, first, last = self.packet[0] if self.packet else (0, 0, 0, 0)
        values[link.data_sink.valid]           = valid
        values[link.data_sink.payload]         = data
        values[link.data_sink.first]           = first
        values[link.data_sink.last]            = last
        values[link.data_source.ready]         = 1
        values[link.data_sink_send_zlp]        = self.zlp
        values[link.data_sink_sequence_number] = self.parameters['seq']
        values[link.data_sink_endpoint_number] = self.parameters['ep']
        values[link.data_sink_length]          = self.parameters['length']
        values[link.data_sink_direction]       = self.parameters['direction']

        if rnd.random() < 0.001:
            self.address = rnd.getrandbits(7)
        values[link.current_address]    = self.address
        values[link.disable_scrambling] = 0
        values[link.enable_compliance]  = 0
        return values


if __name__ == "__main__":
    main()
