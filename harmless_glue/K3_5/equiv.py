#
# Behavioural-equivalence harness (self-contained; imports luna from PYTHONPATH).
#
# Builds real units, drives every input with a fixed-seed stimulus (protocol-plausible phases plus
# pure-random phases) under amaranth.sim, and hashes -- every cycle -- the values of all public ports.
#
import os
import sys
import random
import hashlib
import warnings
warnings.filterwarnings("ignore")

from amaranth          import Signal, Cat, Elaboratable, Module
from amaranth.hdl      import Value
from amaranth.hdl.rec  import Record
from amaranth.sim      import Simulator

# ---------------------------------------------------------------------------------------------
# Child capture: record every Elaboratable constructed while a chosen parent's elaborate() runs.
# ---------------------------------------------------------------------------------------------
_capture_stack   = []
_children_of     = {}            # id(parent) -> [child, ...]
_orig_new        = Elaboratable.__new__


def _recording_new(cls, *args, **kwargs):
    self = _orig_new(cls, *args, **kwargs)
    if _capture_stack and not isinstance(self, Module):
        _capture_stack[-1].append(self)
    return self

Elaboratable.__new__ = _recording_new


def capture_children_of(cls):
    """ Wraps cls.elaborate so that the immediate children it creates are recorded. """
    original = cls.elaborate

    def elaborate(self, platform):
        _capture_stack.append([])
        try:
            return original(self, platform)
        finally:
            _children_of.setdefault(id(self), []).extend(_capture_stack.pop())

    cls.elaborate = elaborate


def children_of(parent):
    """ Immediate children, ordered by class name (creation order only breaks ties within a class). """
    kids = _children_of.get(id(parent), [])
    return [k for _, _, k in sorted(((type(k).__name__, i, k) for i, k in enumerate(kids)), key=lambda t: t[:2])]


# ---------------------------------------------------------------------------------------------
# Port discovery through public attributes.
# ---------------------------------------------------------------------------------------------
def collect_signals(obj, out, seen, depth=0):
    """ Appends every Signal reachable through the public attributes of `obj` (Records and plain
        interface objects are flattened; order is by attribute name, so it is tree-independent). """

    if obj is None or isinstance(obj, (int, str, float, bool)):
        return

    if isinstance(obj, Record):
        if id(obj) in seen:
            return
        seen.add(id(obj))
        for name in obj.fields:
            collect_signals(obj.fields[name], out, seen, depth)
        return

    if isinstance(obj, Signal):
        if id(obj) not in seen:
            seen.add(id(obj))
            out.append(obj)
        return

    if not isinstance(obj, Value) and hasattr(obj, 'as_value'):
        try:
            collect_signals(obj.as_value(), out, seen, depth)
        except Exception:
            pass
        return

    if isinstance(obj, Value):
        return

    if isinstance(obj, (list, tuple)):
        for item in obj:
            collect_signals(item, out, seen, depth)
        return

    if depth >= 3 or id(obj) in seen:
        return
    if not type(obj).__module__.startswith(('luna', 'amaranth.lib.coding', '__main__')):
        return
    seen.add(id(obj))

    try:
        attributes = vars(obj)
    except TypeError:
        return
    for name in sorted(attributes):
        if name.startswith('_'):
            continue
        collect_signals(attributes[name], out, seen, depth + 1)


def observed_signals(*objects):
    out, seen = [], set()
    for obj in objects:
        collect_signals(obj, out, seen)
    return out


class SigState:
    """ Ordered {Signal: value} mapping (Signals are not hashable; keyed by identity). """

    def __init__(self, pairs=()):
        self._entries = {}
        self.update(pairs)

    def __setitem__(self, signal, value):
        self._entries[id(signal)] = (signal, value)

    def __getitem__(self, signal):
        return self._entries[id(signal)][1]

    def __contains__(self, signal):
        return id(signal) in self._entries

    def __iter__(self):
        return iter([s for s, _ in self._entries.values()])

    def items(self):
        return list(self._entries.values())

    def update(self, pairs):
        for signal, value in (pairs.items() if hasattr(pairs, 'items') else pairs):
            self[signal] = value

    def copy(self):
        return SigState(self.items())


class Hasher:
    """ SHA-256 over the per-cycle values of a fixed list of signals. """

    def __init__(self, signals, sha):
        self.signals = signals
        self.chunks  = [Cat(*signals[i:i + 64]) for i in range(0, len(signals), 64)]
        self.sizes   = [(len(c) + 7) // 8 for c in self.chunks]
        self.sha     = sha
        self.sha.update(repr([len(s) for s in signals]).encode())

        self.first   = None
        self.toggled = [0] * len(self.chunks)

    def sample(self, ctx):
        values = [int(ctx.get(chunk)) for chunk in self.chunks]
        for value, size in zip(values, self.sizes):
            self.sha.update(value.to_bytes(size, 'little'))
        if self.first is None:
            self.first = values
        self.toggled = [t | (v ^ f) for t, v, f in zip(self.toggled, values, self.first)]

    def never_toggled(self):
        """ Names of observed signals that kept their initial value for the whole run (coverage aid). """
        names = []
        for index, mask in enumerate(self.toggled):
            offset = 0
            for signal in self.signals[index * 64:(index + 1) * 64]:
                if not (mask >> offset) & ((1 << len(signal)) - 1):
                    names.append(signal.name)
                offset += len(signal)
        return names


TOTAL_CYCLES = [0]

def run_sim(top, signals_fn, stimulus, cycles, sha, *, domain="usb", frequency=60e6, other_domains=()):
    """ Runs `cycles` cycles.  `stimulus` is a generator: it yields {Signal: value} dicts (the inputs for the
        coming cycle) and is sent a function `get(signal)` that reads the settled values of the current cycle.
        `signals_fn()` is called after elaboration and returns the list of signals to hash. """

    sim = Simulator(top)
    sim.add_clock(1 / frequency, domain=domain)
    for other in other_domains:
        sim.add_clock(1 / frequency, domain=other)
    hasher = Hasher(signals_fn() if callable(signals_fn) else signals_fn, sha)

    async def testbench(ctx):
        get = lambda s: int(ctx.get(s))
        inputs = next(stimulus)
        for cycle in range(cycles):
            for signal, value in inputs.items():
                ctx.set(signal, value)
            hasher.sample(ctx)
            try:
                inputs = stimulus.send(get)
            except StopIteration:
                raise RuntimeError("stimulus ran out at cycle %d" % cycle)
            await ctx.tick(domain)

    sim.add_testbench(testbench)
    sim.run()
    TOTAL_CYCLES[0] += cycles
    quiet = hasher.never_toggled()
    if os.environ.get("EQUIV_VERBOSE"):
        sys.stderr.write("%s: observed %d signals for %d cycles; %d never changed: %s\n"
                         % (type(top).__name__, len(hasher.signals), cycles, len(quiet), " ".join(quiet)))
    return len(hasher.signals)


# ---------------------------------------------------------------------------------------------
# K3_5: constructor-derived cycle counts of LinkMaintenanceTimers, LFPSDetector, LFPSGenerator and
#       LFPSTransceiver, each built for several clock frequencies.
# ---------------------------------------------------------------------------------------------
from math import ceil


def around(rng, *values):
    """ Picks a duration close to one of the given interesting values (or exactly one of them). """
    value = rng.choice(values)
    return max(1, value + rng.choice([0, 0, 0, -1, 1, -2, 2, -3, 5]))


def maintenance_timer_stimulus(rng, dut, keepalive, recovery):
    s = SigState([(dut.enable, 0), (dut.link_command_received, 0), (dut.packet_received, 0),
                  (dut.link_command_transmitted, 0)])
    strobes = [dut.link_command_received, dut.packet_received, dut.link_command_transmitted]

    def idle(count):
        for _ in range(count):
            yield s.copy()

    yield from idle(5)
    phase = 0
    while True:
        mode = phase % 5
        if mode == 0:
            # Enabled, link commands transmitted at gaps around the keepalive period; receive side busy.
            s[dut.enable] = 1
            for _ in range(12):
                gap = around(rng, keepalive, keepalive - 1, keepalive + 1, 2 * keepalive, keepalive // 2)
                for i in range(gap):
                    s[dut.link_command_received] = int(rng.random() < 0.02)
                    s[dut.packet_received]       = int(rng.random() < 0.02)
                    yield s.copy()
                s[dut.link_command_transmitted] = 1
                yield s.copy()
                s[dut.link_command_transmitted] = 0
        elif mode == 1:
            # Enabled, the receive side goes quiet for about the recovery period; keepalives get scheduled
            # and are answered a few cycles later.
            s[dut.enable] = 1
            s[dut.link_command_received] = s[dut.packet_received] = 0
            for _ in range(2):
                gap = around(rng, recovery, recovery + 1, recovery - 1, recovery + keepalive)
                answer_in = None
                for i in range(gap):
                    if answer_in is not None:
                        answer_in -= 1
                    s[dut.link_command_transmitted] = int(answer_in == 0)
                    if answer_in == 0:
                        answer_in = None
                    get = yield s.copy()
                    if get(dut.schedule_keepalive) and answer_in is None:
                        answer_in = rng.randrange(1, 6)
                s[dut.link_command_transmitted] = 0
                s[rng.choice(strobes[:2])] = 1
                yield s.copy()
                s[dut.link_command_received] = s[dut.packet_received] = 0
        elif mode == 2:
            # Enable dropping in and out.
            for _ in range(10):
                s[dut.enable] = 1
                yield from idle(around(rng, keepalive, 3, keepalive // 3 + 1))
                s[dut.enable] = 0
                yield from idle(rng.randrange(1, 5))
        elif mode == 3:
            # Free-running (rollover of both timers).
            s[dut.enable] = 1
            yield from idle(min(2 * recovery + 10, 30000))
        else:
            for _ in range(700):
                for signal in s:
                    s[signal] = rng.getrandbits(1)
                yield s.copy()
            for signal in s:
                s[signal] = 0
        phase += 1


def maintenance_timer_runs(sha):
    from luna.gateware.usb.usb3.link.timers import LinkMaintenanceTimers

    for index, (kwargs, cycles) in enumerate([
            ({},                                   290000),
            (dict(ss_clock_frequency=4e6),          30000),
            (dict(ss_clock_frequency=8e6),          40000),
            (dict(ss_clock_frequency=33.3e6),      110000),
            (dict(ss_clock_frequency=250e6 / 20),   60000),
            (dict(ss_clock_frequency=1000000),      12000)]):
        dut = LinkMaintenanceTimers(**kwargs)
        frequency = kwargs.get('ss_clock_frequency', 125e6)
        stimulus = maintenance_timer_stimulus(random.Random(0x4B335F50 + index), dut,
                                              int(10e-6 * frequency), int(1e-3 * frequency))
        sha.update(repr(sorted(kwargs.items())).encode())
        run_sim(dut, observed_signals(dut), stimulus, cycles, sha, domain="ss", frequency=frequency)


def lfps_limits(pattern, frequency):
    burst  = tuple(ceil(frequency * t) for t in pattern.burst.range)
    repeat = tuple(ceil(frequency * t) for t in pattern.repeat.range) if pattern.repeat is not None else None
    return burst, repeat


def lfps_receive_stimulus(rng, signals, patterns, frequency, random_length=600):
    """ Drives `signals` (all the same value) with burst trains around the limits of the given patterns. """
    s = SigState([(signal, 0) for signal in signals])

    def drive(value, count):
        for signal in signals:
            s[signal] = value
        for _ in range(count):
            yield s.copy()

    yield from drive(0, 7)
    phase = 0
    while True:
        pattern = patterns[phase % len(patterns)]
        (burst_min, burst_max), repeat = lfps_limits(pattern, frequency)
        style = (phase // len(patterns)) % 4
        if style == 3:
            # Pure random phase, then a quiet gap.
            for _ in range(random_length):
                value = rng.getrandbits(1)
                for signal in signals:
                    s[signal] = value
                yield s.copy()
            yield from drive(0, 20)
        else:
            trains = rng.randrange(3, 7)
            for _ in range(trains):
                if style == 0:
                    # Nominal: everything well inside of the window.
                    burst  = rng.randrange(burst_min + 2, max(burst_min + 3, burst_max - 2)) if burst_max - burst_min > 5 \
                             else rng.randrange(burst_min, burst_max + 1)
                    if repeat is None:
                        period = None
                    elif repeat[1] - repeat[0] > 8:
                        period = rng.randrange(repeat[0] + 3, repeat[1] - 3)
                    else:
                        period = rng.randrange(repeat[0], repeat[1] + 1)
                else:
                    # Borderline: right at the limits, give or take the synchronizer / edge-detect latency.
                    burst  = around(rng, burst_min, burst_max, burst_min + 1, burst_max - 1, burst_min + 2, burst_max + 2)
                    period = None if repeat is None else around(rng, repeat[0], repeat[1], repeat[0] + 1, repeat[1] - 1,
                                                                repeat[0] + 2, repeat[1] + 2, repeat[0] + burst)
                yield from drive(1, burst)
                if period is None:
                    yield from drive(0, rng.randrange(1, 40))
                else:
                    yield from drive(0, max(1, period - burst) if style < 2 else max(1, period))
            yield from drive(0, rng.randrange(1, 30))
        phase += 1


def lfps_detector_runs(sha):
    from luna.gateware.usb.usb3.physical import lfps

    cases = [
        # (pattern name, clock frequency, cycles)
        ('_PollingLFPS', None,        60000),
        ('_PollingLFPS', 125e6,       30000),
        ('_PollingLFPS', 62.5e6,      30000),
        ('_PollingLFPS', 7.3728e6,    12000),
        ('_PollingLFPS', 250e6,       60000),
        ('_PingLFPS',    100e3,      260000),
        ('_PingLFPS',    33.3e3,      90000),
        ('_PingLFPS',    250e3 / 3,  120000),
        ('_ResetLFPS',   100e3,      140000),
        ('_ResetLFPS',   48e3,        70000),
        ('_ResetLFPS',   1e6 / 7,    160000),
    ]
    for index, (pattern_name, frequency, cycles) in enumerate(cases):
        pattern = getattr(lfps, pattern_name)
        if frequency is None:
            dut, frequency = lfps.LFPSDetector(pattern), 125e6
        elif index % 2:
            dut = lfps.LFPSDetector(pattern, frequency)
        else:
            dut = lfps.LFPSDetector(lfps_pattern=pattern, ss_clk_frequency=frequency)
        sha.update(repr((pattern_name, frequency)).encode())
        stimulus = lfps_receive_stimulus(random.Random(0x4B335F60 + index), [dut.signaling_received], [pattern], frequency)
        run_sim(dut, observed_signals(dut), stimulus, cycles, sha, domain="ss", frequency=frequency)


def lfps_generator_stimulus(rng, dut, burst, period):
    s = SigState([(dut.generate, 0)])

    def drive(value, count):
        s[dut.generate] = value
        for _ in range(count):
            yield s.copy()

    yield from drive(0, 4)
    while True:
        # Several whole periods; a request that is dropped in the burst / in the wait; short blips; random.
        yield from drive(1, rng.randrange(2, 5) * period + rng.randrange(0, period))
        yield from drive(0, rng.randrange(1, period + 3))
        yield from drive(1, around(rng, burst, 1, burst // 2 + 1))
        yield from drive(0, around(rng, period, period - burst, 3))
        yield from drive(1, around(rng, period, period - 1, period + 1, burst + 1))
        yield from drive(0, around(rng, period, 2 * period))
        for _ in range(10):
            yield from drive(1, rng.randrange(1, 4))
            yield from drive(0, rng.randrange(1, 4))
        for _ in range(min(6 * period, 1500)):
            yield from drive(int(rng.random() < 0.9), 1)
        for _ in range(400):
            yield from drive(rng.getrandbits(1), 1)
        yield from drive(0, period + 5)


def lfps_generator_runs(sha):
    from luna.gateware.usb.usb3.physical import lfps

    for index, (frequency, cycles) in enumerate([(125e6, 40000), (62.5e6, 25000), (25e6, 12000), (7.3728e6, 8000),
                                                 (1e6, 4000), (250e6, 70000)]):
        if index % 2:
            dut = lfps.LFPSGenerator(lfps._PollingLFPS, frequency)
        else:
            dut = lfps.LFPSGenerator(lfps_pattern=lfps._PollingLFPS, sys_clk_freq=frequency)
        sha.update(repr(frequency).encode())
        stimulus = lfps_generator_stimulus(random.Random(0x4B335F70 + index), dut,
                                           ceil(frequency * 1.0e-6), ceil(frequency * 10.0e-6))
        run_sim(dut, observed_signals(dut), stimulus, cycles, sha, domain="ss", frequency=frequency)


def lfps_transceiver_runs(sha):
    from luna.gateware.usb.usb3.physical import lfps
    capture_children_of(lfps.LFPSTransceiver)

    for index, (kwargs, cycles) in enumerate([({}, 70000), (dict(ss_clk_freq=62.5e6), 40000),
                                               (dict(ss_clk_freq=250e3), 150000), (dict(ss_clk_freq=2e6), 60000)]):
        dut = lfps.LFPSTransceiver(**kwargs)
        frequency = kwargs.get('ss_clk_freq', 125e6)
        rng = random.Random(0x4B335F80 + index)

        # Receive side: trains of whichever pattern can be produced in a sensible number of cycles.
        patterns = [lfps._PollingLFPS]
        if frequency <= 1e6:
            patterns += [lfps._ResetLFPS, lfps._PingLFPS]
        receive = lfps_receive_stimulus(rng, [dut.signaling_received], patterns, frequency)
        send    = lfps_generator_stimulus(rng, dut_alias(dut), ceil(frequency * 1.0e-6), ceil(frequency * 10.0e-6))

        def both(receive=receive, send=send):
            a, b = next(receive), next(send)
            while True:
                merged = a.copy()
                merged.update(b.items())
                get = yield merged
                a, b = receive.send(get), send.send(get)

        def signals(dut=dut):
            kids = children_of(dut)
            assert [type(k).__name__ for k in kids] == ['LFPSDetector'] * 3 + ['LFPSGenerator'], kids
            # Detector children in a creation-order-independent order: by their limits.
            return observed_signals(dut, *kids)

        sha.update(repr(sorted(kwargs.items())).encode())
        run_sim(dut, signals, both(), cycles, sha, domain="ss", frequency=frequency)


class dut_alias:
    """ Lets the generator stimulus drive the transceiver's send_polling input. """
    def __init__(self, transceiver):
        self.generate = transceiver.send_polling


def main():
    sha = hashlib.sha256()
    maintenance_timer_runs(sha)
    lfps_detector_runs(sha)
    lfps_generator_runs(sha)
    lfps_transceiver_runs(sha)
    if os.environ.get("EQUIV_VERBOSE"):
        sys.stderr.write("total cycles: %d\n" % TOTAL_CYCLES[0])
    print("HASH " + sha.hexdigest())

main()
