#
# Behavioural-equivalence harness (self-contained; imports luna from PYTHONPATH).
#
# Builds the parent unit with real children, drives every input with a fixed-seed stimulus
# (protocol-plausible phases plus pure-random phases) under amaranth.sim, and hashes -- every cycle --
# the values of all public ports of the parent and of its immediate children.
#
import os
import sys
import random
import hashlib
import warnings
warnings.filterwarnings("ignore")

from amaranth          import Signal, Cat, Elaboratable, Module, Record as _TopRecord
from amaranth.hdl      import Value
from amaranth.hdl.rec  import Record
from amaranth.sim      import Simulator

# ---------------------------------------------------------------------------------------------
# Child capture: record every Elaboratable constructed while a chosen parent's elaborate() runs.
# (Grand-children are constructed later, when the children themselves are elaborated.)
# ---------------------------------------------------------------------------------------------
_capture_stack   = []
_children_of     = {}            # id(parent) -> [child, ...]
_orig_new        = Elaboratable.__new__


def _recording_new(cls, *args, **kwargs):
    self = _orig_new(cls, *args, **kwargs)
    if _capture_stack and not isinstance(self, Module):
        _capture_stack[-1].append(self)
    return self

Elaboratable.__new__ = _recording_new


def capture_children_of(cls):
    """ Wraps cls.elaborate so that the immediate children it creates are recorded. """
    original = cls.elaborate

    def elaborate(self, platform):
        _capture_stack.append([])
        try:
            return original(self, platform)
        finally:
            _children_of.setdefault(id(self), []).extend(_capture_stack.pop())

    cls.elaborate = elaborate


def children_of(parent):
    """ Immediate children, ordered by class name (creation order only breaks ties within a class). """
    kids = _children_of.get(id(parent), [])
    return [k for _, _, k in sorted(((type(k).__name__, i, k) for i, k in enumerate(kids)), key=lambda t: t[:2])]


# ---------------------------------------------------------------------------------------------
# Port discovery through public attributes.
# ---------------------------------------------------------------------------------------------
def collect_signals(obj, out, seen, depth=0):
    """ Appends every Signal reachable through the public attributes of `obj` (Records and plain
        interface objects are flattened; order is by attribute name, so it is tree-independent). """

    if obj is None or isinstance(obj, (int, str, float, bool)):
        return

    if isinstance(obj, Record):
        if id(obj) in seen:
            return
        seen.add(id(obj))
        for name in obj.fields:
            collect_signals(obj.fields[name], out, seen, depth)
        return

    if isinstance(obj, Signal):
        if id(obj) not in seen:
            seen.add(id(obj))
            out.append(obj)
        return

    # data.View and friends.
    if not isinstance(obj, Value) and hasattr(obj, 'as_value'):
        try:
            collect_signals(obj.as_value(), out, seen, depth)
        except Exception:
            pass
        return

    if isinstance(obj, Value):
        return

    if isinstance(obj, (list, tuple)):
        for item in obj:
            collect_signals(item, out, seen, depth)
        return

    if depth >= 3 or id(obj) in seen:
        return
    if not type(obj).__module__.startswith(('luna', 'amaranth.lib.coding')):
        return
    seen.add(id(obj))

    try:
        attributes = vars(obj)
    except TypeError:
        return
    for name in sorted(attributes):
        if name.startswith('_'):
            continue
        collect_signals(attributes[name], out, seen, depth + 1)


def observed_signals(*objects):
    out, seen = [], set()
    for obj in objects:
        collect_signals(obj, out, seen)
    return out


class SigState:
    """ Ordered {Signal: value} mapping (Signals are not hashable; keyed by identity). """

    def __init__(self, pairs=()):
        self._entries = {}
        self.update(pairs)

    def __setitem__(self, signal, value):
        self._entries[id(signal)] = (signal, value)

    def __getitem__(self, signal):
        return self._entries[id(signal)][1]

    def __iter__(self):
        return iter([s for s, _ in self._entries.values()])

    def items(self):
        return list(self._entries.values())

    def update(self, pairs):
        for signal, value in (pairs.items() if hasattr(pairs, 'items') else pairs):
            self[signal] = value

    def copy(self):
        return SigState(self.items())


class Hasher:
    """ SHA-256 over the per-cycle values of a fixed list of signals. """

    def __init__(self, signals, sha):
        self.signals = signals
        self.chunks  = [Cat(*signals[i:i + 64]) for i in range(0, len(signals), 64)]
        self.sizes   = [(len(c) + 7) // 8 for c in self.chunks]
        self.sha     = sha
        self.sha.update(repr([len(s) for s in signals]).encode())

        self.first   = None
        self.toggled = [0] * len(self.chunks)

    def sample(self, ctx):
        values = [int(ctx.get(chunk)) for chunk in self.chunks]
        for value, size in zip(values, self.sizes):
            self.sha.update(value.to_bytes(size, 'little'))
        if self.first is None:
            self.first = values
        self.toggled = [t | (v ^ f) for t, v, f in zip(self.toggled, values, self.first)]

    def never_toggled(self):
        """ Names of observed signals that kept their initial value for the whole run (coverage aid). """
        names = []
        for index, mask in enumerate(self.toggled):
            offset = 0
            for signal in self.signals[index * 64:(index + 1) * 64]:
                if not (mask >> offset) & ((1 << len(signal)) - 1):
                    names.append(signal.name)
                offset += len(signal)
        return names

    def mark(self, text):
        self.sha.update(text.encode())


def run_usb_sim(top, signals_fn, stimulus, cycles, sha, *, domain="usb"):
    """ Runs `cycles` cycles.  `stimulus` is a generator: it yields {Signal: value} dicts (the inputs for the
        coming cycle) and is sent a function `get(signal)` that reads the settled values of the current cycle.
        `signals_fn()` is called after elaboration and returns the list of signals to hash. """

    sim = Simulator(top)
    sim.add_clock(1 / 60e6, domain=domain)
    hasher = Hasher(signals_fn(), sha)

    async def testbench(ctx):
        get = lambda s: int(ctx.get(s))
        inputs = next(stimulus)
        for cycle in range(cycles):
            for signal, value in inputs.items():
                ctx.set(signal, value)
            hasher.sample(ctx)
            try:
                inputs = stimulus.send(get)
            except StopIteration:
                raise RuntimeError("stimulus ran out at cycle %d" % cycle)
            await ctx.tick(domain)

    sim.add_testbench(testbench)
    sim.run()
    quiet = hasher.never_toggled()
    if os.environ.get("EQUIV_VERBOSE"):
        sys.stderr.write("observed %d signals for %d cycles; %d never changed: %s\n"
                         % (len(hasher.signals), cycles, len(quiet), " ".join(quiet)))
    return len(hasher.signals)


# ---------------------------------------------------------------------------------------------
# K1_2: parent under test = USBEndpointMultiplexer with three bare EndpointInterface objects.
# ---------------------------------------------------------------------------------------------
CYCLES = 24000

def endpoint_mux_stimulus(rng, shared, interfaces):
    """ Alternates protocol-plausible phases (one endpoint talks at a time: packets with first/last framing,
        single-cycle strobes, one-hot requests) with pure random phases on every input. """

    shared_inputs = [
        shared.data_crc.crc, shared.timer.tx_allowed, shared.timer.tx_timeout, shared.timer.rx_timeout,
        *shared.handshakes_in.fields.values(), *shared.tokenizer.fields.values(), *shared.rx.fields.values(),
        shared.rx_complete, shared.rx_ready_for_response, shared.rx_invalid, shared.rx_pid_toggle,
        shared.speed, shared.active_config, shared.active_address, shared.tx.ready,
        shared.clear_endpoint_halt_in.as_value(),
    ]
    def endpoint_outputs(i):
        return [
            i.address_changed, i.new_address, i.config_changed, i.new_config,
            i.tx.valid, i.tx.first, i.tx.last, i.tx.payload, i.tx_pid_toggle,
            *i.handshakes_out.fields.values(), i.data_crc.start, i.timer.start,
            i.clear_endpoint_halt_out.as_value(), i.issue_stall,
        ]
    per_endpoint = [endpoint_outputs(i) for i in interfaces]
    everything   = shared_inputs + [s for group in per_endpoint for s in group]

    state = SigState([(s, 0) for s in everything])
    yield state.copy()

    while True:
        # -- protocol-plausible phase ---------------------------------------------------------
        for _ in range(rng.randrange(20, 40)):
            active = rng.randrange(len(interfaces))
            i      = interfaces[active]
            kind   = rng.choice(['tx', 'tx', 'rx', 'setaddr', 'setcfg', 'halt', 'token', 'idle'])

            # Shared-side context for this transaction.
            state[shared.tokenizer.pid]      = rng.choice([0b0001, 0b1001, 0b1101, 0b0100])
            state[shared.tokenizer.address]  = rng.getrandbits(7)
            state[shared.tokenizer.endpoint] = rng.getrandbits(4)
            state[shared.tokenizer.is_in]    = int(state[shared.tokenizer.pid] == 0b1001)
            state[shared.tokenizer.is_out]   = int(state[shared.tokenizer.pid] == 0b0001)
            state[shared.tokenizer.is_setup] = int(state[shared.tokenizer.pid] == 0b1101)
            state[shared.tokenizer.is_ping]  = int(state[shared.tokenizer.pid] == 0b0100)
            state[shared.tokenizer.new_token] = 1
            state[shared.speed]              = rng.choice([0, 1, 1, 2])
            yield state.copy()
            state[shared.tokenizer.new_token] = 0
            for _ in range(rng.randrange(1, 4)):
                yield state.copy()
            state[shared.tokenizer.ready_for_response] = 1
            yield state.copy()
            state[shared.tokenizer.ready_for_response] = 0

            if kind == 'tx':
                length = rng.randrange(0, 12)
                state[i.tx_pid_toggle] = rng.getrandbits(2)
                for other in interfaces:
                    if other is not i:
                        state[other.tx_pid_toggle] = rng.getrandbits(2)
                if length == 0:
                    state[i.tx.valid], state[i.tx.last] = 1, 1
                    yield state.copy()
                else:
                    index = 0
                    while index < length:
                        state[i.tx.valid]   = 1
                        state[i.tx.first]   = int(index == 0)
                        state[i.tx.last]    = int(index == length - 1)
                        state[i.tx.payload] = rng.getrandbits(8)
                        state[shared.tx.ready] = int(rng.random() < 0.7)
                        yield state.copy()
                        if state[shared.tx.ready]:
                            index += 1
                state[i.tx.valid] = state[i.tx.first] = state[i.tx.last] = 0
                state[i.timer.start] = 1
                yield state.copy()
                state[i.timer.start] = 0
                for _ in range(rng.randrange(1, 5)):
                    yield state.copy()
                state[shared.timer.rx_timeout] = int(rng.random() < 0.2)
                handshake = rng.choice(['ack', 'nak', 'stall', 'nyet'])
                state[shared.handshakes_in[handshake]] = 1
                yield state.copy()
                state[shared.handshakes_in[handshake]] = 0
                state[shared.timer.rx_timeout] = 0

            elif kind == 'rx':
                state[i.data_crc.start] = 1
                yield state.copy()
                state[i.data_crc.start] = 0
                state[shared.rx.valid] = 1
                state[shared.rx_pid_toggle] = rng.getrandbits(2)
                for _ in range(rng.randrange(1, 10)):
                    state[shared.rx.next]    = int(rng.random() < 0.6)
                    state[shared.rx.payload] = rng.getrandbits(8)
                    state[shared.data_crc.crc] = rng.getrandbits(16)
                    yield state.copy()
                state[shared.rx.valid] = state[shared.rx.next] = 0
                good = rng.random() < 0.8
                state[shared.rx_complete], state[shared.rx_invalid] = int(good), int(not good)
                yield state.copy()
                state[shared.rx_complete] = state[shared.rx_invalid] = 0
                yield state.copy()
                state[shared.timer.tx_allowed] = 1
                state[shared.rx_ready_for_response] = 1
                response = rng.choice(['ack', 'nak', 'stall'])
                state[i.handshakes_out[response]] = 1
                yield state.copy()
                state[shared.timer.tx_allowed] = 0
                state[shared.rx_ready_for_response] = 0
                state[i.handshakes_out[response]] = 0
                state[shared.timer.tx_timeout] = int(rng.random() < 0.3)
                yield state.copy()
                state[shared.timer.tx_timeout] = 0

            elif kind == 'setaddr':
                state[i.address_changed], state[i.new_address] = 1, rng.getrandbits(7)
                yield state.copy()
                state[shared.active_address] = state[i.new_address]
                state[i.address_changed] = 0
                if rng.random() < 0.5:
                    state[i.new_address] = 0

            elif kind == 'setcfg':
                state[i.config_changed], state[i.new_config] = 1, rng.getrandbits(8)
                yield state.copy()
                state[shared.active_config] = state[i.new_config]
                state[i.config_changed] = 0
                if rng.random() < 0.5:
                    state[i.new_config] = 0

            elif kind == 'halt':
                state[i.clear_endpoint_halt_out.as_value()] = 1 | (rng.getrandbits(5) << 1)
                yield state.copy()
                state[i.clear_endpoint_halt_out.as_value()] = 0

            elif kind == 'token':
                state[shared.tokenizer.frame]     = rng.getrandbits(11)
                state[shared.tokenizer.new_frame] = 1
                yield state.copy()
                state[shared.tokenizer.new_frame] = 0

            for _ in range(rng.randrange(0, 6)):
                yield state.copy()

        # -- pure random phase -----------------------------------------------------------------
        for _ in range(rng.randrange(300, 700)):
            for signal in everything:
                state[signal] = rng.getrandbits(len(signal))
            yield state.copy()

        # -- sparse random phase: mostly idle, occasionally several requesters at once ---------
        for _ in range(rng.randrange(200, 400)):
            for signal in everything:
                state[signal] = rng.getrandbits(len(signal)) if rng.random() < 0.15 else 0
            yield state.copy()

        for signal in everything:
            state[signal] = 0
        yield state.copy()


def main():
    from luna.gateware.usb.usb2.endpoint import USBEndpointMultiplexer, EndpointInterface
    capture_children_of(USBEndpointMultiplexer)

    dut        = USBEndpointMultiplexer()
    interfaces = [EndpointInterface() for _ in range(3)]
    for interface in interfaces:
        dut.add_interface(interface)

    sha = hashlib.sha256()

    def signals():
        kids = children_of(dut)
        assert [type(k).__name__ for k in kids] == ['OneHotMultiplexer'], kids
        return observed_signals(dut, *interfaces, *kids)

    run_usb_sim(dut, signals, endpoint_mux_stimulus(random.Random(0x4B315F32), dut.shared, interfaces), CYCLES, sha)
    print("HASH " + sha.hexdigest())

main()
