#
# Behavioural-equivalence harness (self-contained; imports luna from PYTHONPATH).
#
# Builds real units, drives every input with a fixed-seed stimulus (protocol-plausible phases plus
# pure-random phases) under amaranth.sim, and hashes -- every cycle -- the values of all public ports.
#
import os
import sys
import random
import hashlib
import warnings
warnings.filterwarnings("ignore")

from amaranth          import Signal, Cat, Elaboratable, Module
from amaranth.hdl      import Value
from amaranth.hdl.rec  import Record
from amaranth.sim      import Simulator

# ---------------------------------------------------------------------------------------------
# Child capture: record every Elaboratable constructed while a chosen parent's elaborate() runs.
# ---------------------------------------------------------------------------------------------
_capture_stack   = []
_children_of     = {}            # id(parent) -> [child, ...]
_orig_new        = Elaboratable.__new__


def _recording_new(cls, *args, **kwargs):
    self = _orig_new(cls, *args, **kwargs)
    if _capture_stack and not isinstance(self, Module):
        _capture_stack[-1].append(self)
    return self

Elaboratable.__new__ = _recording_new


def capture_children_of(cls):
    """ Wraps cls.elaborate so that the immediate children it creates are recorded. """
    original = cls.elaborate

    def elaborate(self, platform):
        _capture_stack.append([])
        try:
            return original(self, platform)
        finally:
            _children_of.setdefault(id(self), []).extend(_capture_stack.pop())

    cls.elaborate = elaborate


def children_of(parent):
    """ Immediate children, ordered by class name (creation order only breaks ties within a class). """
    kids = _children_of.get(id(parent), [])
    return [k for _, _, k in sorted(((type(k).__name__, i, k) for i, k in enumerate(kids)), key=lambda t: t[:2])]


# ---------------------------------------------------------------------------------------------
# Port discovery through public attributes.
# ---------------------------------------------------------------------------------------------
def collect_signals(obj, out, seen, depth=0):
    """ Appends every Signal reachable through the public attributes of `obj` (Records and plain
        interface objects are flattened; order is by attribute name, so it is tree-independent). """

    if obj is None or isinstance(obj, (int, str, float, bool)):
        return

    if isinstance(obj, Record):
        if id(obj) in seen:
            return
        seen.add(id(obj))
        for name in obj.fields:
            collect_signals(obj.fields[name], out, seen, depth)
        return

    if isinstance(obj, Signal):
        if id(obj) not in seen:
            seen.add(id(obj))
            out.append(obj)
        return

    if not isinstance(obj, Value) and hasattr(obj, 'as_value'):
        try:
            collect_signals(obj.as_value(), out, seen, depth)
        except Exception:
            pass
        return

    if isinstance(obj, Value):
        return

    if isinstance(obj, (list, tuple)):
        for item in obj:
            collect_signals(item, out, seen, depth)
        return

    if depth >= 3 or id(obj) in seen:
        return
    if not type(obj).__module__.startswith(('luna', 'amaranth.lib.coding', '__main__')):
        return
    seen.add(id(obj))

    try:
        attributes = vars(obj)
    except TypeError:
        return
    for name in sorted(attributes):
        if name.startswith('_'):
            continue
        collect_signals(attributes[name], out, seen, depth + 1)


def observed_signals(*objects):
    out, seen = [], set()
    for obj in objects:
        collect_signals(obj, out, seen)
    return out


class SigState:
    """ Ordered {Signal: value} mapping (Signals are not hashable; keyed by identity). """

    def __init__(self, pairs=()):
        self._entries = {}
        self.update(pairs)

    def __setitem__(self, signal, value):
        self._entries[id(signal)] = (signal, value)

    def __getitem__(self, signal):
        return self._entries[id(signal)][1]

    def __contains__(self, signal):
        return id(signal) in self._entries

    def __iter__(self):
        return iter([s for s, _ in self._entries.values()])

    def items(self):
        return list(self._entries.values())

    def update(self, pairs):
        for signal, value in (pairs.items() if hasattr(pairs, 'items') else pairs):
            self[signal] = value

    def copy(self):
        return SigState(self.items())


class Hasher:
    """ SHA-256 over the per-cycle values of a fixed list of signals. """

    def __init__(self, signals, sha):
        self.signals = signals
        self.chunks  = [Cat(*signals[i:i + 64]) for i in range(0, len(signals), 64)]
        self.sizes   = [(len(c) + 7) // 8 for c in self.chunks]
        self.sha     = sha
        self.sha.update(repr([len(s) for s in signals]).encode())

        self.first   = None
        self.toggled = [0] * len(self.chunks)

    def sample(self, ctx):
        values = [int(ctx.get(chunk)) for chunk in self.chunks]
        for value, size in zip(values, self.sizes):
            self.sha.update(value.to_bytes(size, 'little'))
        if self.first is None:
            self.first = values
        self.toggled = [t | (v ^ f) for t, v, f in zip(self.toggled, values, self.first)]

    def never_toggled(self):
        """ Names of observed signals that kept their initial value for the whole run (coverage aid). """
        names = []
        for index, mask in enumerate(self.toggled):
            offset = 0
            for signal in self.signals[index * 64:(index + 1) * 64]:
                if not (mask >> offset) & ((1 << len(signal)) - 1):
                    names.append(signal.name)
                offset += len(signal)
        return names


TOTAL_CYCLES = [0]

def run_sim(top, signals_fn, stimulus, cycles, sha, *, domain="usb", frequency=60e6, other_domains=()):
    """ Runs `cycles` cycles.  `stimulus` is a generator: it yields {Signal: value} dicts (the inputs for the
        coming cycle) and is sent a function `get(signal)` that reads the settled values of the current cycle.
        `signals_fn()` is called after elaboration and returns the list of signals to hash. """

    sim = Simulator(top)
    sim.add_clock(1 / frequency, domain=domain)
    for other in other_domains:
        sim.add_clock(1 / frequency, domain=other)
    hasher = Hasher(signals_fn() if callable(signals_fn) else signals_fn, sha)

    async def testbench(ctx):
        get = lambda s: int(ctx.get(s))
        inputs = next(stimulus)
        for cycle in range(cycles):
            for signal, value in inputs.items():
                ctx.set(signal, value)
            hasher.sample(ctx)
            try:
                inputs = stimulus.send(get)
            except StopIteration:
                raise RuntimeError("stimulus ran out at cycle %d" % cycle)
            await ctx.tick(domain)

    sim.add_testbench(testbench)
    sim.run()
    TOTAL_CYCLES[0] += cycles
    quiet = hasher.never_toggled()
    if os.environ.get("EQUIV_VERBOSE"):
        sys.stderr.write("%s: observed %d signals for %d cycles; %d never changed: %s\n"
                         % (type(top).__name__, len(hasher.signals), cycles, len(quiet), " ".join(quiet)))
    return len(hasher.signals)


# ---------------------------------------------------------------------------------------------
# K3_4: constructor-derived constants of USBInterpacketTimer (several parameter sets) and of
#       USBResetSequencer (the full reset / chirp / suspend choreography, real-time lengths).
# ---------------------------------------------------------------------------------------------
def timer_stimulus(rng, timer, interfaces):
    """ Start strobes of varying density + speed changes; every fourth phase is pure random. """
    state = SigState([(timer.speed, 1)] + [(i.start, 0) for i in interfaces])
    phase = 0
    while True:
        mode = phase % 4
        length = rng.randrange(300, 900)
        if mode == 3:
            for _ in range(length):
                for signal in state:
                    state[signal] = rng.getrandbits(len(signal))
                yield state.copy()
        else:
            # A speed, and packet-end events separated by gaps around the interesting intervals.
            state[timer.speed] = rng.choice([0, 1, 1, 2, 3]) if mode else 1
            remaining = length
            while remaining > 0:
                starter = rng.choice(interfaces)
                state[starter.start] = 1
                if rng.random() < 0.1:
                    state[rng.choice(interfaces).start] = 1
                yield state.copy()
                for i in interfaces:
                    state[i.start] = 0
                gap = rng.choice([0, 1, 2, 7, 10, 16, 24, 32, 33, 80, 81, 92, 93, 100, 260, 270, 640, 642, 700,
                                  rng.randrange(1, 720)])
                for _ in range(gap):
                    yield state.copy()
                remaining -= gap + 1
        phase += 1


def timer_runs(sha):
    from luna.gateware.usb.usb2.packet import USBInterpacketTimer, InterpacketTimerInterface

    parameter_sets = [
        ({},                                          2),
        (dict(domain_clock=60e6, fs_only=False),      3),
        (dict(domain_clock=60e6, fs_only=True),       1),
        (dict(domain_clock=12e6, fs_only=True),       4),
        (dict(fs_only=True),                          2),
        (dict(domain_clock=60000000),                 1),
        (dict(domain_clock=12000000, fs_only=True),   2),
        # Unsupported combinations must keep being rejected.
        (dict(domain_clock=12e6, fs_only=False),      0),
        (dict(domain_clock=12e6),                     0),
        (dict(domain_clock=48e6, fs_only=True),       0),
        (dict(domain_clock=48e6),                     0),
    ]
    for index, (kwargs, interface_count) in enumerate(parameter_sets):
        sha.update(repr(sorted(kwargs.items())).encode())
        try:
            timer = USBInterpacketTimer(**kwargs)
        except ValueError:
            sha.update(b"ValueError")
            continue
        sha.update(b"constructed")

        interfaces = [InterpacketTimerInterface() for _ in range(interface_count)]
        for interface in interfaces:
            timer.add_interface(interface)

        rng = random.Random(0x4B335F34 + index)
        run_sim(timer, observed_signals(timer, *interfaces), timer_stimulus(rng, timer, interfaces), 3500, sha)


class ResetHost:
    """ Line-state choreography for the USBResetSequencer; cycle() is the only yield point. """

    J, K, SE0, SE1 = 0b01, 0b10, 0b00, 0b11

    def __init__(self, rng, dut):
        self.rng, self.dut = rng, dut
        self.random_mode = False
        self.busy_probability = 0.0
        self.state = SigState([
            (dut.line_state, self.J), (dut.low_speed_only, 0), (dut.full_speed_only, 0), (dut.bus_busy, 0),
            (dut.vbus_connected, 1), (dut.disconnect, 0), (dut.tx.ready, 1),
        ])
        self.get = None

    def cycle(self, count=1):
        rng, s, dut = self.rng, self.state, self.dut
        for _ in range(count):
            if self.random_mode:
                for signal in s:
                    s[signal] = rng.getrandbits(len(signal))
            else:
                s[dut.bus_busy] = int(rng.random() < self.busy_probability)
                s[dut.tx.ready] = int(rng.random() < 0.8)
            self.get = yield s.copy()

    def line(self, value, count):
        self.state[self.dut.line_state] = value
        yield from self.cycle(count)

    def glitchy(self, value, count, glitch):
        """ A mostly-constant line state with occasional single-cycle glitches. """
        for _ in range(count):
            self.state[self.dut.line_state] = glitch if self.rng.random() < 0.0005 else value
            yield from self.cycle()

    def wait_for(self, condition, limit):
        waited = 0
        while not (self.get and condition(self.get)) and waited < limit:
            yield from self.cycle()
            waited += 1

    def high_speed_handshake(self, pairs=4, chirp=200, host_delay=300):
        """ SE0 until the device has chirped, then host K/J pairs, then SE0 (HS idle). """
        dut = self.dut
        yield from self.line(self.SE0, 400)
        # The device chirps K for 2ms; the PHY reflects that on the line state.
        yield from self.wait_for(lambda get: get(dut.tx.valid), 1000)
        self.state[dut.line_state] = self.K
        yield from self.wait_for(lambda get: not get(dut.tx.valid), 130000)
        yield from self.line(self.SE0, host_delay)
        for _ in range(pairs):
            yield from self.line(self.K, chirp)
            yield from self.line(self.J, chirp)
        yield from self.line(self.SE0, 500)

    def run(self):
        rng, s, dut = self.rng, self.state, self.dut
        J, K, SE0, SE1 = self.J, self.K, self.SE0, self.SE1

        yield from self.line(J, 50)

        # 1. Short SE0 glitches (no reset), then a full-speed-only reset.
        yield from self.line(SE0, 120)
        yield from self.line(J, 40)
        s[dut.full_speed_only] = 1
        yield from self.line(SE0, 700)
        yield from self.line(J, 200)
        s[dut.full_speed_only] = 0

        # 7. Forced disconnect and low-speed operation.
        s[dut.full_speed_only] = 1
        yield from self.line(SE0, 50)
        yield from self.line(J, 50)
        s[dut.disconnect] = 1
        yield from self.line(J, 400)
        s[dut.disconnect] = 0
        yield from self.line(J, 100)
        s[dut.full_speed_only] = 0
        s[dut.low_speed_only] = 1
        yield from self.line(K, 200)                    # LS idle is "K"-coded (0b10)
        yield from self.line(SE0, 700)
        yield from self.line(K, 500)
        s[dut.low_speed_only] = 0
        yield from self.line(J, 300)

        # 2. Reset with a host that never chirps back: the device chirp times out (2ms + 2.5ms).
        self.busy_probability = 0.5
        yield from self.line(SE0, 400)
        self.busy_probability = 0.0
        yield from self.wait_for(lambda get: get(dut.tx.valid), 1000)
        s[dut.line_state] = K
        yield from self.wait_for(lambda get: not get(dut.tx.valid), 130000)
        yield from self.line(SE0, 152000)
        yield from self.line(J, 300)

        # 3. Reset with chirps that are too short, then a successful high-speed handshake.
        yield from self.high_speed_handshake(pairs=3, chirp=120, host_delay=100)
        yield from self.line(SE0, 30000)                 # runs into the 2.5ms timeout -> full speed
        yield from self.line(J, 300)
        yield from self.high_speed_handshake(pairs=4, chirp=rng.randrange(160, 400))
        yield from self.line(SE0, 3000)
        # Some HS traffic (line state toggling), then a forced FS/LS request and back.
        for _ in range(200):
            yield from self.line(rng.choice([J, K, SE0, SE0]), rng.randrange(1, 30))

        # 4. HS idle for 3ms -> falls back to FS and finds ... a suspend (J after 200us).
        yield from self.line(SE0, 180030)
        yield from self.line(J, 12400)
        yield from self.glitchy(J, 3000, SE0)
        # Resume (K) -> back to high speed.
        yield from self.line(K, 600)
        yield from self.line(SE0, 2000)

        # 5. HS idle for 3ms again, this time it is a reset (SE0 stays) -> new handshake.
        yield from self.line(SE0, 180030)
        yield from self.line(SE0, 12100)
        yield from self.high_speed_handshake(pairs=5, chirp=151)
        yield from self.line(SE0, 1000)

        # 6. VBUS loss in high speed; then full-speed idle for 3ms -> suspend; reset from suspend.
        s[dut.vbus_connected] = 0
        yield from self.line(SE0, 300)
        yield from self.line(J, 300)
        s[dut.vbus_connected] = 1
        yield from self.line(J, 180200)
        yield from self.line(J, 500)
        yield from self.line(SE0, 100)
        yield from self.line(J, 300)
        yield from self.line(SE0, 160)                  # > 2.5us: reset request from suspend
        yield from self.high_speed_handshake(pairs=3, chirp=155)
        yield from self.line(SE0, 500)

        # 7b. Low-speed suspend and resume.
        s[dut.low_speed_only] = 1
        yield from self.line(K, 200)
        yield from self.line(SE0, 700)
        yield from self.line(K, 181000)                 # LS suspend
        yield from self.line(J, 500)                    # LS resume (0b01)
        yield from self.line(K, 500)
        s[dut.low_speed_only] = 0
        yield from self.line(J, 500)

        # 8. Pure random phases (fast and slowly changing), then settle and start over.
        while True:
            self.random_mode = True
            yield from self.cycle(3000)
            self.random_mode = False
            for _ in range(300):
                for signal in s:
                    if rng.random() < 0.3:
                        s[signal] = rng.getrandbits(len(signal))
                yield from self.cycle(rng.randrange(1, 400))
            s.update([(dut.low_speed_only, 0), (dut.full_speed_only, 0), (dut.vbus_connected, 1), (dut.disconnect, 0)])
            yield from self.line(J, 500)
            yield from self.high_speed_handshake(pairs=4, chirp=170)


def reset_run(sha):
    from luna.gateware.usb.usb2.reset import USBResetSequencer

    # Real-time constants, and the shortened 2.5us the unit's own test bench uses (instance override).
    for index, overrides, cycles in [(0, {}, 1000000), (1, {'_CYCLES_2P5_MICROSECONDS': 10}, 250000)]:
        dut = USBResetSequencer()
        for name, value in overrides.items():
            setattr(dut, name, value)
        host = ResetHost(random.Random(0x4B335F40 + index), dut)
        run_sim(dut, observed_signals(dut), host.run(), cycles, sha)


def main():
    sha = hashlib.sha256()
    timer_runs(sha)
    reset_run(sha)
    if os.environ.get("EQUIV_VERBOSE"):
        sys.stderr.write("total cycles: %d\n" % TOTAL_CYCLES[0])
    print("HASH " + sha.hexdigest())

main()
