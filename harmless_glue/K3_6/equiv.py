#
# Behavioural-equivalence harness (self-contained; imports luna from PYTHONPATH).
#
# Builds real units, drives every input with a fixed-seed stimulus (protocol-plausible phases plus
# pure-random phases) under amaranth.sim, and hashes -- every cycle -- the values of all public ports.
#
import os
import sys
import random
import hashlib
import warnings
warnings.filterwarnings("ignore")

from amaranth          import Signal, Cat, Elaboratable, Module
from amaranth.hdl      import Value
from amaranth.hdl.rec  import Record
from amaranth.sim      import Simulator

# ---------------------------------------------------------------------------------------------
# Child capture: record every Elaboratable constructed while a chosen parent's elaborate() runs.
# ---------------------------------------------------------------------------------------------
_capture_stack   = []
_children_of     = {}            # id(parent) -> [child, ...]
_orig_new        = Elaboratable.__new__


def _recording_new(cls, *args, **kwargs):
    self = _orig_new(cls, *args, **kwargs)
    if _capture_stack and not isinstance(self, Module):
        _capture_stack[-1].append(self)
    return self

Elaboratable.__new__ = _recording_new


def capture_children_of(cls):
    """ Wraps cls.elaborate so that the immediate children it creates are recorded. """
    original = cls.elaborate

    def elaborate(self, platform):
        _capture_stack.append([])
        try:
            return original(self, platform)
        finally:
            _children_of.setdefault(id(self), []).extend(_capture_stack.pop())

    cls.elaborate = elaborate


def children_of(parent):
    """ Immediate children, ordered by class name (creation order only breaks ties within a class). """
    kids = _children_of.get(id(parent), [])
    return [k for _, _, k in sorted(((type(k).__name__, i, k) for i, k in enumerate(kids)), key=lambda t: t[:2])]


# ---------------------------------------------------------------------------------------------
# Port discovery through public attributes.
# ---------------------------------------------------------------------------------------------
def collect_signals(obj, out, seen, depth=0):
    """ Appends every Signal reachable through the public attributes of `obj` (Records and plain
        interface objects are flattened; order is by attribute name, so it is tree-independent). """

    if obj is None or isinstance(obj, (int, str, float, bool)):
        return

    if isinstance(obj, Record):
        if id(obj) in seen:
            return
        seen.add(id(obj))
        for name in obj.fields:
            collect_signals(obj.fields[name], out, seen, depth)
        return

    if isinstance(obj, Signal):
        if id(obj) not in seen:
            seen.add(id(obj))
            out.append(obj)
        return

    if not isinstance(obj, Value) and hasattr(obj, 'as_value'):
        try:
            collect_signals(obj.as_value(), out, seen, depth)
        except Exception:
            pass
        return

    if isinstance(obj, Value):
        return

    if isinstance(obj, (list, tuple)):
        for item in obj:
            collect_signals(item, out, seen, depth)
        return

    if depth >= 3 or id(obj) in seen:
        return
    if not type(obj).__module__.startswith(('luna', 'amaranth.lib.coding', '__main__')):
        return
    seen.add(id(obj))

    try:
        attributes = vars(obj)
    except TypeError:
        return
    for name in sorted(attributes):
        if name.startswith('_'):
            continue
        collect_signals(attributes[name], out, seen, depth + 1)


def observed_signals(*objects):
    out, seen = [], set()
    for obj in objects:
        collect_signals(obj, out, seen)
    return out


class SigState:
    """ Ordered {Signal: value} mapping (Signals are not hashable; keyed by identity). """

    def __init__(self, pairs=()):
        self._entries = {}
        self.update(pairs)

    def __setitem__(self, signal, value):
        self._entries[id(signal)] = (signal, value)

    def __getitem__(self, signal):
        return self._entries[id(signal)][1]

    def __contains__(self, signal):
        return id(signal) in self._entries

    def __iter__(self):
        return iter([s for s, _ in self._entries.values()])

    def items(self):
        return list(self._entries.values())

    def update(self, pairs):
        for signal, value in (pairs.items() if hasattr(pairs, 'items') else pairs):
            self[signal] = value

    def copy(self):
        return SigState(self.items())


class Hasher:
    """ SHA-256 over the per-cycle values of a fixed list of signals. """

    def __init__(self, signals, sha):
        self.signals = signals
        self.chunks  = [Cat(*signals[i:i + 64]) for i in range(0, len(signals), 64)]
        self.sizes   = [(len(c) + 7) // 8 for c in self.chunks]
        self.sha     = sha
        self.sha.update(repr([len(s) for s in signals]).encode())

        self.first   = None
        self.toggled = [0] * len(self.chunks)

    def sample(self, ctx):
        values = [int(ctx.get(chunk)) for chunk in self.chunks]
        for value, size in zip(values, self.sizes):
            self.sha.update(value.to_bytes(size, 'little'))
        if self.first is None:
            self.first = values
        self.toggled = [t | (v ^ f) for t, v, f in zip(self.toggled, values, self.first)]

    def never_toggled(self):
        """ Names of observed signals that kept their initial value for the whole run (coverage aid). """
        names = []
        for index, mask in enumerate(self.toggled):
            offset = 0
            for signal in self.signals[index * 64:(index + 1) * 64]:
                if not (mask >> offset) & ((1 << len(signal)) - 1):
                    names.append(signal.name)
                offset += len(signal)
        return names


TOTAL_CYCLES = [0]

def run_sim(top, signals_fn, stimulus, cycles, sha, *, domain="usb", frequency=60e6, other_domains=()):
    """ Runs `cycles` cycles.  `stimulus` is a generator: it yields {Signal: value} dicts (the inputs for the
        coming cycle) and is sent a function `get(signal)` that reads the settled values of the current cycle.
        `signals_fn()` is called after elaboration and returns the list of signals to hash. """

    sim = Simulator(top)
    sim.add_clock(1 / frequency, domain=domain)
    for other in other_domains:
        sim.add_clock(1 / frequency, domain=other)
    hasher = Hasher(signals_fn() if callable(signals_fn) else signals_fn, sha)

    async def testbench(ctx):
        get = lambda s: int(ctx.get(s))
        inputs = next(stimulus)
        for cycle in range(cycles):
            for signal, value in inputs.items():
                ctx.set(signal, value)
            hasher.sample(ctx)
            try:
                inputs = stimulus.send(get)
            except StopIteration:
                raise RuntimeError("stimulus ran out at cycle %d" % cycle)
            await ctx.tick(domain)

    sim.add_testbench(testbench)
    sim.run()
    TOTAL_CYCLES[0] += cycles
    quiet = hasher.never_toggled()
    if os.environ.get("EQUIV_VERBOSE"):
        sys.stderr.write("%s: observed %d signals for %d cycles; %d never changed: %s\n"
                         % (type(top).__name__, len(hasher.signals), cycles, len(quiet), " ".join(quiet)))
    return len(hasher.signals)


# ---------------------------------------------------------------------------------------------
# K3_6: constructor / python-side derived parameters of PHYResetController, UARTTransmitter,
#       UARTMultibyteTransmitter and the GetDescriptorHandlerBlock ROM layout code.
# ---------------------------------------------------------------------------------------------
def reset_controller_stimulus(rng, dut, reset_cycles, stop_cycles):
    s = SigState([(dut.trigger, 0)])

    def drive(value, count):
        s[dut.trigger] = value
        for _ in range(count):
            yield s.copy()

    total = reset_cycles + stop_cycles
    yield from drive(0, total + 10)
    while True:
        # Single pulses with the unit idle, pulses that arrive while busy, a held trigger, random noise.
        for _ in range(4):
            yield from drive(1, 1)
            yield from drive(0, total + rng.randrange(0, 6))
        for _ in range(4):
            yield from drive(1, rng.randrange(1, 3))
            yield from drive(0, rng.choice([reset_cycles - 1, reset_cycles, reset_cycles + 1, total - 2, total - 1, 1, 2]))
        yield from drive(1, 2 * total + rng.randrange(0, 7))
        yield from drive(0, total + 3)
        for _ in range(300):
            yield from drive(int(rng.random() < 0.05), 1)
        for _ in range(300):
            yield from drive(rng.getrandbits(1), 1)
        yield from drive(0, total + 3)


def reset_controller_runs(sha):
    from luna.gateware.architecture.car import PHYResetController

    for index, kwargs in enumerate([
            {},
            dict(clock_frequency=12e6, reset_length=5e-6, stop_length=1e-6),
            dict(clock_frequency=100e6, reset_length=1e-6, stop_length=7.3e-6, power_on_reset=False),
            dict(clock_frequency=48e6),
            dict(clock_frequency=60e6, reset_length=10e-6, stop_length=3e-7, power_on_reset=False),
            dict(clock_frequency=125e6, reset_length=2e-6, stop_length=2e-6),
            dict(clock_frequency=1e6, reset_length=1e-6, stop_length=3e-6),
            dict(clock_frequency=1e6, reset_length=1e-6, stop_length=1e-6, power_on_reset=False)]):
        dut = PHYResetController(**kwargs)
        sha.update(repr((sorted(kwargs.items()), dut.reset_length_cycles, dut.stop_length_cycles, dut.power_on_reset)).encode())
        stimulus = reset_controller_stimulus(random.Random(0x4B335F90 + index), dut, dut.reset_length_cycles, dut.stop_length_cycles)
        run_sim(dut, observed_signals(dut), stimulus, 9000, sha, domain="sync")


def stream_source(rng, stream, get_holder, state, *, valid_probability):
    """ One step of a valid-held-until-ready stream source; returns nothing, updates `state`. """
    get = get_holder[0]
    accepted = get is not None and get(stream.ready) and state[stream.valid]
    if accepted or not state[stream.valid]:
        state[stream.valid]   = int(rng.random() < valid_probability)
        state[stream.payload] = rng.getrandbits(len(stream.payload))
        state[stream.first]   = rng.getrandbits(1)
        state[stream.last]    = rng.getrandbits(1)


def uart_stimulus(rng, dut, frame_cycles):
    stream = dut.stream
    s = SigState([(stream.valid, 0), (stream.payload, 0), (stream.first, 0), (stream.last, 0)])
    holder = [None]
    phase = 0
    while True:
        mode = phase % 4
        length = rng.randrange(3, 8) * frame_cycles
        if mode == 3:
            for _ in range(min(length, 1200)):
                for signal in s:
                    s[signal] = rng.getrandbits(len(signal))
                holder[0] = yield s.copy()
        else:
            probability = [1.0, 0.5, 0.02][mode] if frame_cycles < 400 else [1.0, 0.5, 0.3][mode]
            for _ in range(length):
                stream_source(rng, stream, holder, s, valid_probability=probability)
                holder[0] = yield s.copy()
        phase += 1


def uart_runs(sha):
    from luna.gateware.interface.uart import UARTTransmitter, UARTMultibyteTransmitter
    capture_children_of(UARTMultibyteTransmitter)

    for index, divisor in enumerate([1, 2, 3, 8, 16, 25, 520]):
        dut = UARTTransmitter(divisor=divisor)
        sha.update(repr((divisor, dut.divisor)).encode())
        stimulus = uart_stimulus(random.Random(0x4B335FA0 + index), dut, 10 * divisor)
        run_sim(dut, observed_signals(dut), stimulus, 3000 + 100 * divisor, sha, domain="sync")

    for index, (byte_width, divisor) in enumerate([(1, 4), (2, 3), (4, 2), (3, 7), (8, 1), (5, 16)]):
        dut = UARTMultibyteTransmitter(byte_width=byte_width, divisor=divisor)
        sha.update(repr((byte_width, divisor, dut.byte_width, dut.divisor)).encode())
        stimulus = uart_stimulus(random.Random(0x4B335FB0 + index), dut, 10 * divisor * byte_width)

        def signals(dut=dut):
            kids = children_of(dut)
            assert [type(k).__name__ for k in kids] == ['UARTTransmitter'], kids
            return observed_signals(dut, *kids)

        run_sim(dut, signals, stimulus, 6000 + 400 * divisor * byte_width, sha, domain="sync")


def descriptor_collection(seed):
    from usb_protocol.emitters import DeviceDescriptorCollection

    rng = random.Random(seed)
    d = DeviceDescriptorCollection()
    with d.DeviceDescriptor() as dev:
        dev.idVendor, dev.idProduct = 0x1209, seed
        dev.iManufacturer, dev.iProduct, dev.iSerialNumber = "LUNA", "Thing %d" % seed, "x" * rng.randrange(1, 30)
        dev.bNumConfigurations = 1
    with d.ConfigurationDescriptor() as c:
        for n in range(rng.randrange(1, 4)):
            with c.InterfaceDescriptor() as i:
                i.bInterfaceNumber = n
                with i.EndpointDescriptor() as e:
                    e.bEndpointAddress, e.wMaxPacketSize = 0x81 + n, 64
    for k in range(rng.randrange(0, 4)):
        d.add_descriptor(bytes([rng.randrange(2, 40), 0x21 + k] + [rng.getrandbits(8) for _ in range(rng.randrange(0, 70))]),
                         index=rng.choice([0, 0, 2, 5]))
    if seed % 2:
        d.add_descriptor(bytes(range(64)), descriptor_type=0x22, index=3)
    if seed % 3 == 0:
        d.add_descriptor(bytes(range(128)), descriptor_type=0x23, index=0)
    return d


def descriptor_stimulus(rng, dut, collection, max_packet):
    known = [(type_number, index, len(raw)) for type_number, index, raw in collection]
    s = SigState([(dut.value, 0), (dut.length, 0), (dut.start, 0), (dut.start_position, 0), (dut.tx.ready, 0)])
    holder = [None]
    ready_probability = 0.8

    def cycle(count=1):
        for _ in range(count):
            s[dut.tx.ready] = int(rng.random() < ready_probability)
            holder[0] = yield s.copy()

    yield from cycle(4)
    while True:
        for _ in range(25):
            ready_probability = rng.choice([1.0, 0.8, 0.4])

            # Pick a descriptor (mostly one that exists), a requested length and a start position.
            if rng.random() < 0.8:
                type_number, index, size = rng.choice(known)
                if rng.random() < 0.1:
                    index = (index + rng.randrange(1, 4)) & 0xFF
            else:
                type_number, index, size = rng.randrange(0, 64), rng.randrange(0, 8), 18
            length   = rng.choice([size, size, 255, 0xFFFF, 8, 9, 0, 1, 64, rng.randrange(0, 2 * size + 2)])
            position = rng.choice([0, 0, 0, max_packet, 2 * max_packet, size, rng.randrange(0, size + 2)])
            if rng.random() < 0.85:
                position = min(position, length)
            s[dut.value], s[dut.length], s[dut.start_position] = (type_number << 8) | index, length, position & 0x7FF
            yield from cycle(rng.randrange(1, 4))

            s[dut.start] = 1
            yield from cycle()
            s[dut.start] = 0

            # Wait for the packet (or the stall) to be over.
            waited, seen_valid = 0, False
            while waited < 4 * max_packet + 40:
                yield from cycle()
                waited += 1
                get = holder[0]
                if get(dut.tx.valid):
                    seen_valid = True
                elif seen_valid or get(dut.stall) or waited > 12:
                    break
            yield from cycle(rng.randrange(1, 6))

        # Pure random phase.
        for _ in range(500):
            for signal in s:
                s[signal] = rng.getrandbits(len(signal))
            holder[0] = yield s.copy()
        s[dut.start] = 0
        yield from cycle(max_packet + 20)


def descriptor_runs(sha):
    from luna.gateware.usb.usb2.descriptor import GetDescriptorHandlerBlock

    # The ROM layout code by itself, for many descriptor sets...
    for seed in range(60):
        handler = GetDescriptorHandlerBlock(descriptor_collection(seed))
        sha.update(repr(handler.generate_rom_content()).encode())

    # ... and the whole unit for some of them.
    for index, (seed, kwargs) in enumerate([(1, {}), (2, dict(max_packet_length=8)), (3, dict(max_packet_length=512, domain="sync")),
                                            (6, dict(max_packet_length=16, domain="usb")), (9, dict(max_packet_length=64)),
                                            (12, dict(max_packet_length=32))]):
        collection = descriptor_collection(seed)
        dut = GetDescriptorHandlerBlock(collection, **kwargs)
        stimulus = descriptor_stimulus(random.Random(0x4B335FC0 + index), dut, collection, kwargs.get('max_packet_length', 64))
        sha.update(repr((seed, sorted(kwargs.items()))).encode())
        run_sim(dut, observed_signals(dut), stimulus, 9000, sha, domain=kwargs.get('domain', 'usb'))


def main():
    sha = hashlib.sha256()
    reset_controller_runs(sha)
    uart_runs(sha)
    descriptor_runs(sha)
    if os.environ.get("EQUIV_VERBOSE"):
        sys.stderr.write("total cycles: %d\n" % TOTAL_CYCLES[0])
    print("HASH " + sha.hexdigest())

main()
