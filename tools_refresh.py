#!/usr/bin/env python3
"""Re-runs the quick check of every claimed property against /repo, validates MANIFEST and evidence against the schemas."""
import json, subprocess, sys, os, jsonschema, time
ROOT = os.path.dirname(os.path.abspath(__file__))
man = json.load(open(os.path.join(ROOT, "MANIFEST.json")))
jsonschema.validate(man, json.load(open("/root/.vp/MANIFEST.schema.json")))
evs = json.load(open("/root/.vp/EVIDENCE.schema.json"))
only = sys.argv[1:]
bad = 0
for c in man["checks"]:
    pid = c["property_id"]
    if only and pid not in only:
        continue
    t = time.time()
    r = subprocess.run(c["quick_cmd"], shell=True, cwd=ROOT, capture_output=True, text=True, env={k: v for k, v in os.environ.items() if k != "HWV_REPO"})
    ev = json.load(open(os.path.join(ROOT, c["evidence_file"])))
    try:
        jsonschema.validate(ev, evs)
        ok = ev["level"] == c["level_claimed"]["category"] and (ev["level"] != "proof" or ev["coverage"]["obligations"] == ev["coverage"]["discharged"])
    except Exception as e:
        ok = False
    line = r.stdout.strip().splitlines()[0] if r.stdout.strip() else ""
    print(f"{pid}: exit={r.returncode} evidence_ok={ok} {time.time()-t:.0f}s  {line}")
    if r.returncode != 0 or not ok:
        bad += 1
        print(r.stdout[-1500:])
sys.exit(1 if bad else 0)
