#!/usr/bin/env python3
"""False-alarm test for glue refactorings: applies <srcdir>/<id>/patch.diff to a scratch copy of /repo/luna and runs every
check whose property is anchored in (or has wiring obligations on) the touched part of the tree.  Expected: exit 0 everywhere.
usage: tools_harmless_glue_check.py <srcdir> <id> ...      (results merged into <srcdir>/<id>/meta.json under "checks")"""
import json, os, subprocess, sys, shutil, tempfile, concurrent.futures as cf
ROOT = os.path.dirname(os.path.abspath(__file__))
USB2 = ["C%02d" % i for i in list(range(1, 20)) + [21, 22, 23, 24, 25, 48, 57]]
USB3 = ["C%02d" % i for i in range(31, 48)]


def props_for(files):
    ps = set()
    for f in files:
        if "usb3" in f: ps.update(USB3)
        elif "usb2" in f or "interface/ulpi" in f or "interface/utmi" in f or "usb/stream" in f or "devices" in f: ps.update(USB2)
        else: ps.update(json.load(open(os.path.join(ROOT, "claims.json"))).keys())
    claimed = {c["property_id"] for c in json.load(open(os.path.join(ROOT, "MANIFEST.json")))["checks"]}
    return sorted(ps & claimed)


def main():
    src = sys.argv[1]
    for sid in sys.argv[2:]:
        d = tempfile.mkdtemp(prefix="hglue.", dir="/tmp")
        try:
            shutil.copytree("/repo/luna", os.path.join(d, "luna"))
            pf = os.path.join(src, sid, "patch.diff")
            r = subprocess.run(f"patch -p1 -s < {pf}", shell=True, cwd=d, capture_output=True, text=True)
            if r.returncode != 0:
                print(sid, "PATCH-FAILED", r.stdout[:200]); continue
            files = [l[6:].strip() for l in open(pf) if l.startswith("+++ b/")]
            props = props_for(files)

            def run(p):
                r = subprocess.run([os.path.join(ROOT, "check"), p], env={**os.environ, "HWV_REPO": d}, capture_output=True, text=True)
                lines = [l for l in r.stdout.splitlines() if l.startswith(("VIOLATION", "UNDECIDED", "CHECKER-BROKEN")) or "failed obligation" in l]
                return p, r.returncode, lines[:4]
            res = {}
            with cf.ThreadPoolExecutor(3) as ex:
                for p, rc, lines in ex.map(run, props):
                    res[p] = {"exit": rc, "lines": [l[:200] for l in lines]}
            bad = {p: v for p, v in res.items() if v["exit"] != 0}
            print(sid, f"{len(res) - len(bad)}/{len(res)} exit 0", "|", " ;; ".join(f"{p}: exit {v['exit']} {v['lines'][:2]}" for p, v in bad.items()), flush=True)
            mp = os.path.join(src, sid, "meta.json")
            meta = json.load(open(mp)) if os.path.exists(mp) else {}
            meta["checks"] = {p: v["exit"] for p, v in res.items()}
            meta["not_exit0"] = bad
            json.dump(meta, open(mp, "w"), indent=1)
        finally:
            shutil.rmtree(d, ignore_errors=True)


if __name__ == "__main__":
    main()
