"""hwv.prove — discharge obligations (z3 / cvc5 / GF(2) normaliser) on a fork pool; BMC for covers and witnesses."""
import os, sys, time, subprocess, tempfile, multiprocessing as mp
import z3
from . import gf2
from .contract import free_vars

_OBS = []
_TIMEOUT_MS = 60000
_XCHECK = set()


def model_dict(m, vars_):
    d = {}
    for name, v in vars_.items():
        try:
            val = m.eval(v, model_completion=True)
            if z3.is_bv_value(val):
                d[name] = val.as_long()
            elif z3.is_true(val) or z3.is_false(val):
                d[name] = int(z3.is_true(val))
            else:
                d[name] = str(val)[:300]
        except Exception as e:          # pragma: no cover
            d[name] = f"<{e}>"
    return d


def _cvc5(assertions, timeout_ms):
    s = z3.Solver()
    s.add(*assertions)
    txt = "(set-logic ALL)\n" + s.to_smt2()
    with tempfile.NamedTemporaryFile("w", suffix=".smt2", delete=False, dir=os.environ.get("HWV_TMP", None)) as f:
        f.write(txt)
        path = f.name
    try:
        r = subprocess.run(["/usr/bin/cvc5", "--lang", "smt2", f"--tlimit={timeout_ms}", path],
                           capture_output=True, text=True, timeout=timeout_ms / 1000 + 10)
        out = r.stdout.strip().splitlines()
        return out[0] if out else "unknown"
    except Exception:
        return "unknown"
    finally:
        os.unlink(path)


def _solve(i):
    ob = _OBS[i]
    t0 = time.time()
    try:
        if ob.method == "gf2":
            impl, spec = ob.assertions
            ok, why = gf2.equal(impl, spec)
            model = None
            if not ok:
                model = dict(gf2.assignment(impl, spec))
                for n, v in free_vars(impl != spec).items():
                    model.setdefault(n, 0)
                model["gf2"] = why
            return i, ("unsat" if ok else "sat"), time.time() - t0, model, "gf2", ""
        if ob.kind == "comb" and ob.method == "z3" and len(ob.assertions) == 2 and not z3.is_bool(ob.assertions[0]):
            impl, spec = ob.assertions
            asserts = [impl != spec]
        else:
            asserts = ob.assertions
        s = z3.Solver()
        s.set("timeout", _TIMEOUT_MS)
        s.add(*asserts)
        r = s.check()
        if r == z3.sat:
            fv = {}
            for a in asserts:
                free_vars(a, fv)
            return i, "sat", time.time() - t0, model_dict(s.model(), fv), "z3", ""
        if r == z3.unsat:
            if i in _XCHECK:                 # thorough tier: second opinion on a sample of the proofs
                r2 = _cvc5(asserts, 30000)
                if r2 == "sat":
                    return i, "error", time.time() - t0, None, "z3+cvc5", "SOLVER DISAGREEMENT: z3 unsat, cvc5 sat"
                return i, "unsat", time.time() - t0, None, "z3" + ("+cvc5" if r2 == "unsat" else ""), \
                    ("" if r2 == "unsat" else "cvc5 cross-check: no answer within 30 s")
            return i, "unsat", time.time() - t0, None, "z3", ""
        why = s.reason_unknown()
        r2 = _cvc5(asserts, _TIMEOUT_MS)
        if r2 in ("sat", "unsat"):
            return i, r2, time.time() - t0, ({} if r2 == "sat" else None), "cvc5", f"z3 unknown ({why})"
        return i, "unknown", time.time() - t0, None, "z3+cvc5", why
    except Exception as e:
        import traceback
        return i, "error", time.time() - t0, None, "-", traceback.format_exc()


def default_procs():
    """16 workers on an idle machine; fewer when the machine is already oversubscribed (verdicts must not depend on load)."""
    if os.environ.get("HWV_PROCS"):
        return int(os.environ["HWV_PROCS"])
    try:
        load = os.getloadavg()[0]
    except OSError:
        load = 0
    ncpu = os.cpu_count() or 16
    return ncpu if load < ncpu / 2 else max(3, ncpu // 4)


def solve_all(obs, timeout_s=60, procs=None, xcheck=0, seed=0):
    """-> list of dict(name, kind, expect, result, seconds, model, backend, note)
    xcheck: number of z3-proved obligations to re-check with cvc5 (a deterministic sample)"""
    global _OBS, _TIMEOUT_MS, _XCHECK
    _OBS = obs
    cand = [i for i, o in enumerate(obs) if o.expect == "unsat" and o.method == "z3"]
    import random as _r
    _r.Random(seed).shuffle(cand)
    _XCHECK = set(cand[:xcheck])
    _TIMEOUT_MS = int(timeout_s * 1000)
    procs = procs or min(default_procs(), max(1, len(obs)))
    res = [None] * len(obs)
    if not obs:
        return []
    if procs == 1 or len(obs) == 1:
        for i in range(len(obs)):
            res[i] = _solve(i)
    else:
        ctx = mp.get_context("fork")
        with ctx.Pool(procs, maxtasksperchild=8) as pool:
            pending = [(i, pool.apply_async(_solve, (i,))) for i in range(len(obs))]
            for i, ar in pending:
                try:
                    res[i] = ar.get(timeout=timeout_s * 2.5 + 30)
                except mp.TimeoutError:
                    res[i] = (i, "unknown", timeout_s * 2.5 + 30, None, "z3", "hard timeout")
            pool.terminate()
    out = []
    for ob, r in zip(obs, res):
        _, result, secs, model, backend, note = r
        out.append({"name": ob.name, "kind": ob.kind, "expect": ob.expect, "result": result, "seconds": round(secs, 3),
                    "model": model, "backend": backend, "note": note, "meta": ob.meta})
    return out


# ---------------------------------------------------------------------------------------------- BMC
class Unroller:
    """Frames s_0..s_K of the contract's units + ghosts, with fresh variables per frame tied by next-state equalities."""

    def __init__(self, c):
        self.c = c
        self.svars = []
        for u in c.units:
            self.svars += list(u.state.values())
        self.gvars = [c.ghosts[n][0] for n in c.ghosts]
        self.inputs = c.all_inputs()
        self.nextmap = []
        for u in c.units:
            self.nextmap += u.next_pairs()
        self.nextmap += [(c.ghosts[n][0], c.gnext[n]) for n in c.ghosts]
        self.frames = []

    def frame_vars(self, t):
        while len(self.frames) <= t:
            k = len(self.frames)
            f = {}
            for v in self.svars + self.gvars:
                f[str(v)] = (v, z3.Const(f"{v}@{k}", v.sort()))
            for n, v in self.inputs.items():
                f[str(v)] = (v, z3.Const(f"{v}@{k}", v.sort()))
            self.frames.append(f)
        return self.frames[t]

    def at(self, e, t):
        """e (over state, ghosts, inputs at levels 0..) instantiated at frame t (level-l inputs -> frame t+l)."""
        pairs = [p for p in self.frame_vars(t).values()]
        for (name, lvl), pv in self.c._lvl.items():
            var = self.inputs[name]
            pairs.append((pv, self.frame_vars(t + lvl)[str(var)][1]))
        return z3.substitute(self.c._apply_binds(e), *pairs)

    def init_constraints(self):
        f0 = self.frame_vars(0)
        return [f0[str(v)][1] == val for v, val in self.c.state_pairs_init()]

    def trans(self, t):
        """frame t -> t+1"""
        f1 = self.frame_vars(t + 1)
        return [f1[str(v)][1] == self.at(nx, t) for v, nx in self.nextmap]

    def reqs(self, t):
        return [self.at(e, t) for _, e in self.c.all_requires()]

    def trace(self, model, upto):
        tr = []
        for t in range(upto + 1):
            row = {}
            for n, v in self.inputs.items():
                val = model.eval(self.frame_vars(t)[str(v)][1], model_completion=True)
                row[n] = val.as_long()
            tr.append(row)
        # rigid / unconstrained-init ghosts (witness indices): record the value the solver chose, so that the replay
        # evaluates the ensures for the same witness (keys "g.<name>" in row 0; ignored by the simulator driver)
        for n, (v, init) in self.c.ghosts.items():
            if init is None and tr and z3.is_bv(v):
                val = model.eval(self.frame_vars(0)[str(v)][1], model_completion=True)
                tr[0]["g." + n] = val.as_long()
        return tr


def bmc(c, targets, depth, timeout_s=60, extra_levels=1):
    """targets: list of (name, Bool expr).  Finds, per target, the shortest input history from reset (under requires)
    after which the target holds.  -> {name: (t, trace) | None}, seconds"""
    t0 = time.time()
    un = Unroller(c)
    s = z3.Solver()
    s.add(*un.init_constraints())
    found = {n: None for n, _ in targets}
    maxlvl = max([c.input_level(e) for _, e in targets] + [0])
    s.add(*un.reqs(0))
    built = 0
    for t in range(depth):
        while built < t + maxlvl:                 # frames up to t+maxlvl need transitions and requires
            s.add(*un.trans(built))
            s.add(*un.reqs(built + 1))
            built += 1
        remaining = [(n, e) for n, e in targets if found[n] is None]
        if not remaining:
            break
        left = timeout_s - (time.time() - t0)
        if left <= 0:
            for n, _ in remaining:
                found[n] = "timeout"
            return found, time.time() - t0
        s.set("timeout", int(left * 1000))
        inst = [(n, un.at(e, t)) for n, e in remaining]
        if len(inst) > 1:                       # one query for "any remaining target at this depth"
            s.push()
            s.add(z3.Or(*[x for _, x in inst]))
            r = s.check()
            s.pop()
            if r == z3.unknown:
                for n, _ in remaining:
                    found[n] = "timeout"
                return found, time.time() - t0
            if r != z3.sat:
                continue
        for n, x in inst:
            left = timeout_s - (time.time() - t0)
            if left <= 0:
                for n2, _ in inst:
                    if found[n2] is None:
                        found[n2] = "timeout"
                return found, time.time() - t0
            s.set("timeout", int(left * 1000))
            s.push()
            s.add(x)
            r = s.check()
            if r == z3.sat:
                found[n] = (t, un.trace(s.model(), t + maxlvl))
            s.pop()
    return found, time.time() - t0
