"""hwv.contract — sidecar contracts over an extracted transition system, and the obligations they generate.

A contract function receives a `Ctx`, builds the real unit(s) with `c.unit(...)`, declares ghost state, `require`s,
`inv`ariants, `ensure`s (taken from the property statement) and `cover`s.  `Ctx.obligations()` turns that into named
proof obligations (DESIGN.md §2):

    init/<inv>   Init(s) ∧ GhostInit(g) ∧ Req ⇒ Inv
    cons/<inv>   Inv ∧ Req [∧ Req'] ⇒ Inv'                      (one per conjunct)
    post/<ens>   Inv ∧ Req [∧ Req'] ⇒ Ens(s, g, x, s', g', x')
    comb/<name>  ⊨ impl = spec                                   (no state; z3 or GF(2) normaliser)
    sat/inv      Inv ∧ Req satisfiable                           (vacuity guard)
    cover/<name> reachable from reset under Req within K steps   (vacuity guard, BMC)
"""
import z3
from .extract import TS, BindingError, Unsupported, bv1   # noqa: F401


def B(e):
    """1-bit BV or Bool -> Bool."""
    if z3.is_bool(e):
        return e
    if z3.is_bv(e) and e.size() == 1:
        return e == 1
    raise TypeError(f"expected Bool or 1-bit vector, got {e.sort()}")


def bits(e, hi, lo=None):
    return z3.Extract(hi, hi if lo is None else lo, e)


def zx(e, w):
    return z3.ZeroExt(w - e.size(), e) if e.size() < w else e


def bvc(v, w):
    return z3.BitVecVal(v, w)


def free_vars(e, acc=None, seen=None):
    acc = {} if acc is None else acc
    seen = set() if seen is None else seen
    stack = [e]
    while stack:
        t = stack.pop()
        i = t.get_id()
        if i in seen:
            continue
        seen.add(i)
        if z3.is_const(t) and t.decl().kind() == z3.Z3_OP_UNINTERPRETED:
            acc[str(t)] = t
        else:
            stack.extend(t.children())
    return acc


class Obligation:
    def __init__(self, name, kind, assertions, expect, method="z3", meta=None):
        self.name, self.kind, self.assertions = name, kind, assertions
        self.expect = expect          # 'unsat' (proof) or 'sat' (vacuity guard)
        self.method = method
        self.meta = meta or {}


class Ctx:
    MAXLEVEL = 3

    def __init__(self, prop, unit_name, cfg_name="", tier="quick", seed=0):
        self.prop, self.unit_name, self.cfg_name, self.tier, self.seed = prop, unit_name, cfg_name, tier, seed
        self.units = []
        self.ghosts = {}       # name -> (var, init)
        self.gnext = {}        # name -> expr
        self.requires, self.invs, self.ensures, self.covers, self.combs, self.lemmas = [], [], [], [], [], []
        self.cands = []
        self.degraded = []
        self.comb_at = {}
        self.inv_covers = []
        self.assumptions = []
        self.functions = []    # real functions / classes under contract (for the evidence)
        self.induction_k = 1
        self.bmc_depth = 24 if tier == "quick" else 60
        self.cover_depth = None
        self.timeout_s = 60 if tier == "quick" else 300
        self.free_reset = False
        self._lvl = {}         # (input name, level) -> var
        self.notes = []
        self.binds = []
        self.cosim_cycles = None
        self.cosim_bias = {}

    # ---------------------------------------------------------------- construction
    @property
    def name(self):
        return f"{self.prop}/{self.unit_name}" + (f"/{self.cfg_name}" if self.cfg_name else "")

    def unit(self, dut, ports, prefix="", under_contract=None):
        ts = TS(dut, ports, prefix=prefix)
        self.units.append(ts)
        cls = type(dut)
        self.functions.append(under_contract or f"{cls.__module__}.{cls.__qualname__}.elaborate")
        return ts

    @property
    def ts(self):
        return self.units[0]

    def ghost(self, name, width, init=0):
        v = z3.BitVec("g." + name, width)
        self.ghosts[name] = (v, init)
        return v

    def rigid(self, name, width):
        """A symbolic constant: arbitrary but fixed over the whole history (witness indices, captured values)."""
        v = self.ghost(name, width, init=None)
        self.gnext[name] = v
        return v

    def set_next(self, ghost, expr):
        name = str(ghost)[2:]
        assert name in self.ghosts, name
        if z3.is_bool(expr):
            expr = bv1(expr)
        assert expr.size() == ghost.size(), (name, expr.size(), ghost.size())
        self.gnext[name] = expr

    def assume(self, text):
        """Records an unchecked environment assumption for the evidence (the formula itself goes in require())."""
        if text not in self.assumptions:
            self.assumptions.append(text)

    def require(self, name, expr, why=None):
        self.requires.append((name, B(expr)))
        if why:
            self.assume(f"{self.unit_name}: requires {name}: {why}")

    def inv(self, name, expr):
        self.invs.append((name, B(expr)))

    def try_inv(self, name, fn):
        """An invariant conjunct about an *incidental* internal register (a temporary the property does not care about).
        `fn()` builds the formula; if the register it names no longer exists (BindingError / AssertionError), the conjunct
        is skipped and the contract is marked degraded: the remaining obligations are still generated (dropping a
        hypothesis is sound), but a refuted obligation is then only reported as a VIOLATION when a witness from reset
        replays on the simulator and violates an ensures clause; otherwise the verdict is undecided."""
        try:
            e = fn()
        except (BindingError, AssertionError, KeyError, IndexError, AttributeError, TypeError, z3.Z3Exception) as ex:
            self.degraded.append(f"{name}: {ex}"[:200])
            return False
        self.invs.append((name, B(e)))
        return True

    def candidate(self, name, expr):
        self.cands.append((name, B(expr)))

    def ensure(self, name, expr, clause=""):
        self.ensures.append((name, B(expr), clause))

    def cover(self, name, expr, reach=True):
        """Vacuity guard.  reach=True: reachable from reset under the requires within the cover depth (BMC);
        reach=False: satisfiable together with invariant and requires (for situations too deep for BMC, e.g. long timers)."""
        if reach:
            self.covers.append((name, B(expr)))
        else:
            self.inv_covers.append((name, B(expr)))

    def comb(self, name, impl, spec, method="z3", clause="", at=None):
        """Combinational equivalence impl == spec for all values of the free constants.  `at`: input values that were
        substituted into `impl` (control inputs fixed to constants), replayed together with the counterexample."""
        self.combs.append((name, impl, spec, method, clause))
        self.comb_at[name] = dict(at or {})

    def lemma(self, name, formula, clause=""):
        self.lemmas.append((name, B(formula), clause))

    def bind(self, var, expr):
        """Product construction: input `var` of one unit is driven by `expr` (typically another unit's output)."""
        self.binds.append((var, expr))

    # ---------------------------------------------------------------- priming
    def all_inputs(self):
        d = {}
        for u in self.units:
            for n, v in u.inputs.items():
                d[u.prefix + n] = v
        return d

    def _input_at(self, name, var, level):
        if level == 0:
            return var
        k = (name, level)
        if k not in self._lvl:
            self._lvl[k] = z3.BitVec(str(var) + "'" * level, var.size())
        return self._lvl[k]

    def _nx_pairs(self):
        missing = [n for n in self.ghosts if n not in self.gnext]
        if missing:
            raise RuntimeError(f"ghosts without next-state function: {missing}")
        pairs = []
        for u in self.units:
            pairs += u.next_pairs()
        pairs += [(self.ghosts[n][0], self.gnext[n]) for n in self.ghosts]
        for name, var in self.all_inputs().items():
            for lvl in range(self.MAXLEVEL, -1, -1):
                pairs.append((self._input_at(name, var, lvl), self._input_at(name, var, lvl + 1)))
        return pairs

    def nx(self, e, k=1):
        """e evaluated one (k) clock(s) later: state -> next(state, x), ghosts -> next, inputs x -> x'."""
        was_bool = z3.is_bool(e)
        for _ in range(k):
            e = z3.substitute(e, *self._nx_pairs())
        return e

    def at_level(self, e, lvl):
        """e with inputs renamed to their level-`lvl` copies (state/ghost untouched)."""
        if lvl == 0:
            return e
        pairs = [(var, self._input_at(name, var, lvl)) for name, var in self.all_inputs().items()]
        return z3.substitute(e, *pairs)

    def input_level(self, e):
        names = free_vars(e)
        lvl = 0
        for (n, l), v in self._lvl.items():
            if str(v) in names:
                lvl = max(lvl, l)
        return lvl

    # ---------------------------------------------------------------- state
    def state_pairs_init(self):
        pairs = []
        for u in self.units:
            pairs += u.init_pairs()
        for n, (v, i) in self.ghosts.items():
            if i is not None:
                pairs.append((v, z3.BitVecVal(i, v.size()) if isinstance(i, int) else i))
        return pairs

    def reset_reqs(self):
        out = []
        if not self.free_reset:
            for u in self.units:
                for r in u.reset_inputs:
                    out.append(("reset_low:" + r, u.inputs[r] == 0))
        return out

    def all_requires(self):
        return self.reset_reqs() + self.requires

    def _apply_binds(self, f):
        if not self.binds:
            return f
        for _ in range(8):
            pairs = []
            for var, expr in self.binds:
                for lvl in range(self.MAXLEVEL + 1):
                    nm = [n for n, v in self.all_inputs().items() if v.eq(var)]
                    pv = self._input_at(nm[0], var, lvl) if nm else None
                    if pv is not None:
                        pairs.append((pv, self.at_level(expr, lvl)))
            g = z3.substitute(f, *pairs)
            if g.eq(f):
                break
            f = g
        return f

    # ---------------------------------------------------------------- obligations
    def obligations(self):
        obs = []
        N = self.name
        reqs = [e for _, e in self.all_requires()]
        invs = [e for _, e in self.invs]
        ipairs = self.state_pairs_init()

        def hyp(target):
            h = list(invs) + list(reqs)
            lvl = self.input_level(target)
            for l in range(1, lvl + 1):
                # requires at the later cycles, over the later state
                for r in reqs:
                    h.append(self.nx(r, l))
            return h

        fin = self._apply_binds
        for name, e in self.invs:
            obs.append(Obligation(f"{N}/init/{name}", "init",
                                  [fin(z3.substitute(z3.And(*reqs, z3.Not(e)), *ipairs)) if reqs else fin(z3.substitute(z3.Not(e), *ipairs))], "unsat"))
        for name, e in self.invs:
            tgt = self.nx(e)
            if self.induction_k == 1:
                obs.append(Obligation(f"{N}/cons/{name}", "cons", [fin(x) for x in hyp(tgt)] + [fin(z3.Not(tgt))], "unsat"))
            else:
                k = self.induction_k
                h = []
                for j in range(k):
                    h += [self.nx(x, j) if j else x for x in invs + reqs]
                h += [self.nx(r, k) for r in reqs] if self.input_level(self.nx(e, k)) >= k else []
                obs.append(Obligation(f"{N}/cons{k}/{name}", "cons", [fin(x) for x in h] + [fin(z3.Not(self.nx(e, k)))], "unsat",
                                      meta={"k": k}))
                for j in range(1, k):      # base cases: the invariant holds 1..k-1 steps after reset
                    hb = [self.nx(r, i) if i else r for i in range(j + 1) for r in reqs]
                    obs.append(Obligation(f"{N}/init@{j}/{name}", "init",
                                          [fin(z3.substitute(z3.And(*hb, z3.Not(self.nx(e, j))), *ipairs))], "unsat", meta={"k": k}))
        for name, e, clause in self.ensures:
            obs.append(Obligation(f"{N}/post/{name}", "post", [fin(x) for x in hyp(e)] + [fin(z3.Not(e))], "unsat",
                                  meta={"clause": clause}))
        for name, f, clause in self.lemmas:
            obs.append(Obligation(f"{N}/lemma/{name}", "comb", [fin(z3.Not(f))], "unsat", meta={"clause": clause}))
        for name, impl, spec, method, clause in self.combs:
            obs.append(Obligation(f"{N}/comb/{name}", "comb", [fin(impl), fin(spec)], "unsat", method=method,
                                  meta={"clause": clause}))
        for name, e in self.inv_covers:
            obs.append(Obligation(f"{N}/sat/cover:{name}", "sat", [fin(x) for x in invs + reqs] + [fin(e)], "sat"))
        if self.invs or self.requires:
            obs.append(Obligation(f"{N}/sat/inv_and_requires", "sat", [fin(x) for x in invs + reqs], "sat"))
        return obs
