"""hwv.extract — the real code -> a z3 transition system.

`TS(dut, ports)` runs the real `elaborate()` of `dut` (and every submodule) through Amaranth's own lowering
(`Fragment.get` + `Fragment.prepare` + `build_netlist`) and translates the resulting NIR netlist cell by cell into
z3 bit-vector / array terms:

    state   : {key -> z3 const}      key = ('ff', cell) | ('mem', cell) | ('rp', cell)
    init    : {key -> int | tuple | None}
    next    : {key -> z3 term over state+inputs}
    inputs  : {port name -> z3 const}
    outputs : {port name -> z3 term}

What is dropped is listed in DESIGN.md §1 (clock nets are implicit: one step = one active edge of every clock
domain in the unit; asynchronous resets / Instance / IOBuffer cells are rejected).
"""
import warnings
warnings.filterwarnings("ignore")
import z3
from amaranth.hdl import Fragment
from amaranth.hdl import _nir as nir
from amaranth.hdl._ir import build_netlist


# Register names and widths of the unit on the reference tree (set by the driver per contract, from probe_baseline.json):
# lets a contract follow a *renamed* internal register (see TS.resolve).
REFERENCE_REGS = {}
REFERENCE_MODS = {}         # prefix+module path -> class name of the Elaboratable there, on the reference tree
REFERENCE_PORTS = {}        # prefix+port name -> width on the reference tree (probe baseline)


class _PortView(dict):
    """Port dictionary handed to contracts.  Iteration (.items/.values) gives the real z3 terms; indexing gives the term
    zero-extended to the width the port had on the reference tree when it has become narrower there (an unsigned port
    that lost bits cannot express the upper values any more: the contract's clauses are then decided over the value the
    rest of the design would see, instead of failing to build on a sort mismatch)."""
    def __init__(self, prefix):
        super().__init__(); self._prefix = prefix; self.narrowed = {}

    def __getitem__(self, k):
        v = dict.__getitem__(self, k)
        ref = REFERENCE_PORTS.get(self._prefix + k)
        if ref and z3.is_bv(v) and v.size() < ref:
            self.narrowed[k] = (v.size(), ref)
            return z3.ZeroExt(ref - v.size(), v)
        return v


class Unsupported(Exception):
    """The unit contains something outside the translated subset."""


class BindingError(Exception):
    """A contract referred to a signal / FSM state / port that does not exist in the current tree."""


def bv1(cond):
    return z3.If(cond, z3.BitVecVal(1, 1), z3.BitVecVal(0, 1))


class FSM:
    def __init__(self, ts, path, sig, expr):
        self.ts, self.path, self.sig, self.expr = ts, path, sig, expr
        self.enc = {}
        dec = sig.decoder
        for n in range(1 << len(sig)):
            try:
                s = dec(n)
            except Exception:
                continue
            if isinstance(s, str) and '/' in s:
                self.enc[s.rsplit('/', 1)[0]] = n
        self.states = list(self.enc)

    def code(self, name):
        if name not in self.enc:
            raise BindingError(f"FSM {self.path}: no state {name!r} (has {self.states})")
        return self.enc[name]

    def is_(self, *names):
        return z3.Or(*[self.expr == self.code(n) for n in names]) if len(names) != 1 else self.expr == self.code(names[0])

    def legal(self):
        return z3.Or(*[self.expr == v for v in self.enc.values()])


class TS:
    def __init__(self, dut, ports, prefix="", platform=None):
        self.dut = dut
        self.prefix = prefix
        frag = Fragment.get(dut, platform)
        pd = {}
        for name, sig in ports.items():
            pd[name] = (sig, None) if not isinstance(sig, tuple) else sig
        self.port_signals = {n: p[0] for n, p in pd.items()}
        self.design = frag.prepare(ports=pd, hierarchy=("top",))
        self.nl = nl = build_netlist(self.design)
        self.state, self.init, self.next = {}, {}, {}
        self.inputs, self.outputs = _PortView(prefix), _PortView(prefix)
        self.cellval = {}
        self.clock_inputs, self.reset_inputs = [], []
        self.probes = {}
        self.rebound = []
        self.widened = {}
        self._build()
        self._index_names()

    # ------------------------------------------------------------------ nets / values
    def net(self, n):
        n = nir.Net.ensure(n)
        if n.is_const:
            return z3.BitVecVal(n.const, 1)
        v = self.cell(n.cell)
        return z3.Extract(n.bit, n.bit, v)

    def netb(self, n):
        n = nir.Net.ensure(n)
        if n.is_const:
            return z3.BoolVal(bool(n.const))
        return self.net(n) == 1

    def val(self, value):
        nets = list(value)
        if not nets:
            return None
        parts = []
        i = 0
        while i < len(nets):
            n = nets[i]
            if n.is_const:
                j, c = i, 0
                while j < len(nets) and nets[j].is_const:
                    c |= nets[j].const << (j - i)
                    j += 1
                parts.append(z3.BitVecVal(c, j - i))
            else:
                cell, bit = n.cell, n.bit
                j = i
                while j < len(nets) and nets[j].is_cell and nets[j].cell == cell and nets[j].bit == bit + (j - i):
                    j += 1
                if cell in self._evaluating and isinstance(self.nl.cells[cell], nir.AssignmentList):
                    # a signal some of whose bits are computed from other bits of the same signal (e.g.
                    # `w[11:16].eq(f(w[0:11]))`): no bit-level loop, but the AssignmentList cell refers to itself.
                    # Evaluate just the referenced slice of the assignment list.
                    parts.append(self._alist_slice(cell, bit, j - i + bit))
                    i = j
                    continue
                v = self.cell(cell)
                if bit == 0 and (j - i) == v.size():
                    parts.append(v)
                else:
                    parts.append(z3.Extract(bit + (j - i) - 1, bit, v))
            i = j
        if len(parts) == 1:
            return parts[0]
        return z3.Concat(*reversed(parts))

    _evaluating = frozenset()

    def cell(self, idx):
        v = self.cellval.get(idx)
        if v is None:
            if not isinstance(self._evaluating, set):
                self._evaluating = set()
            self._evaluating.add(idx)
            try:
                v = self._eval(idx, self.nl.cells[idx])
            finally:
                self._evaluating.discard(idx)
            self.cellval[idx] = v
        return v

    def _alist_slice(self, idx, lo, hi):
        """Bits [lo, hi) of an AssignmentList cell, evaluated without evaluating its other bits."""
        key = (idx, lo, hi)
        cache = self.__dict__.setdefault("_slice_cache", {})
        if key in cache:
            return cache[key]
        c = self.nl.cells[idx]
        cur = self.val(list(c.default)[lo:hi])
        w = hi - lo
        for a in c.assignments:
            anets = list(a.value)
            alo, ahi = a.start, a.start + len(anets)
            olo, ohi = max(lo, alo), min(hi, ahi)
            if olo >= ohi:
                continue
            v = self.val(anets[olo - alo:ohi - alo])
            parts = []
            if olo > lo: parts.append(z3.Extract(olo - lo - 1, 0, cur))
            parts.append(v)
            if ohi < hi: parts.append(z3.Extract(w - 1, ohi - lo, cur))
            new = parts[0] if len(parts) == 1 else z3.Concat(*reversed(parts))
            cur = z3.If(self.netb(a.cond), new, cur)
        cache[key] = cur
        return cur

    # ------------------------------------------------------------------ cell semantics
    def _eval(self, idx, c):
        if isinstance(c, nir.Operator):
            ins = [self.val(i) for i in c.inputs]
            op = c.operator
            if len(ins) == 1:
                a, = ins
                if op == '~': return ~a
                if op == '-': return -a
                if op in ('b', 'r|'): return bv1(a != 0)
                if op == 'r&': return bv1(a == z3.BitVecVal(-1, a.size()))
                if op == 'r^':
                    r = z3.Extract(0, 0, a)
                    for k in range(1, a.size()):
                        r = r ^ z3.Extract(k, k, a)
                    return r
            elif len(ins) == 2:
                a, b = ins
                if op == '+': return a + b
                if op == '-': return a - b
                if op == '*': return a * b
                if op == '&': return a & b
                if op == '|': return a | b
                if op == '^': return a ^ b
                if op == 'u//': return z3.If(b == 0, z3.BitVecVal(0, a.size()), z3.UDiv(a, b))
                if op == 'u%': return z3.If(b == 0, z3.BitVecVal(0, a.size()), z3.URem(a, b))
                if op in ('<<', 'u>>', 's>>'):
                    wa, wb = a.size(), b.size()
                    W = max(wa, wb)
                    bb = z3.ZeroExt(W - wb, b) if wb < W else b
                    if op == 's>>':
                        aa = z3.SignExt(W - wa, a) if wa < W else a
                        r = aa >> bb
                    else:
                        aa = z3.ZeroExt(W - wa, a) if wa < W else a
                        r = (aa << bb) if op == '<<' else z3.LShR(aa, bb)
                    return z3.Extract(wa - 1, 0, r) if W > wa else r
                if op == '==': return bv1(a == b)
                if op == '!=': return bv1(a != b)
                if op == 'u<': return bv1(z3.ULT(a, b))
                if op == 'u>': return bv1(z3.UGT(a, b))
                if op == 'u<=': return bv1(z3.ULE(a, b))
                if op == 'u>=': return bv1(z3.UGE(a, b))
                if op == 's<': return bv1(a < b)
                if op == 's>': return bv1(a > b)
                if op == 's<=': return bv1(a <= b)
                if op == 's>=': return bv1(a >= b)
            elif len(ins) == 3 and op == 'm':
                s, a, b = ins
                return z3.If(s == 1, a, b)
            raise Unsupported(f"operator {op!r}/{len(ins)}")
        if isinstance(c, nir.Part):
            v, off = self.val(c.value), self.val(c.offset)
            wv = v.size()
            W = max(wv + c.width, off.size() + max(1, c.stride.bit_length())) + 1
            vv = z3.SignExt(W - wv, v) if c.value_signed else z3.ZeroExt(W - wv, v)
            sh = z3.ZeroExt(W - off.size(), off) * c.stride
            res = (vv >> sh) if c.value_signed else z3.LShR(vv, sh)
            return z3.Extract(c.width - 1, 0, res)
        if isinstance(c, nir.Matches):
            v = self.val(c.value)
            alts = []
            for p in c.patterns:
                if v is None or not p:
                    alts.append(z3.BoolVal(True))
                    continue
                mask = int(''.join('0' if ch == '-' else '1' for ch in p), 2)
                bits = int(''.join('1' if ch == '1' else '0' for ch in p), 2)
                alts.append((v & mask) == bits)
            return bv1(z3.Or(*alts)) if alts else z3.BitVecVal(0, 1)
        if isinstance(c, nir.PriorityMatch):
            none_before = self.netb(c.en)
            outs = []
            for n in c.inputs:
                i = self.netb(n)
                outs.append(bv1(z3.And(none_before, i)))
                none_before = z3.And(none_before, z3.Not(i))
            return outs[0] if len(outs) == 1 else z3.Concat(*reversed(outs))
        if isinstance(c, nir.AssignmentList):
            cur = self.val(c.default)
            w = cur.size()
            for a in c.assignments:
                v = self.val(a.value)
                lo, hi = a.start, a.start + v.size()
                parts = []
                if lo > 0: parts.append(z3.Extract(lo - 1, 0, cur))
                parts.append(v)
                if hi < w: parts.append(z3.Extract(w - 1, hi, cur))
                new = parts[0] if len(parts) == 1 else z3.Concat(*reversed(parts))
                cur = z3.If(self.netb(a.cond), new, cur)
            return cur
        if isinstance(c, nir.FlipFlop):
            return self.state[('ff', idx)]
        if isinstance(c, nir.SyncReadPort):
            return self.state[('rp', idx)]
        if isinstance(c, nir.AsyncReadPort):
            return self._memread(c.memory, self.val(c.addr))
        raise Unsupported(f"cell {type(c).__name__}")

    def _memread(self, midx, addr):
        m = self.nl.cells[midx]
        if addr is None:                              # zero-width address (depth-1 memory): always row 0
            addr = z3.BitVecVal(0, 1)
        if ('mem', midx) not in self.state:          # ROM: constant lookup tree over the real init contents
            return self._romread(m.init, addr, m.width)
        mem = self.state[('mem', midx)]
        aw = mem.sort().domain().size()
        a = addr
        if a.size() < aw: a = z3.ZeroExt(aw - a.size(), a)
        r = z3.Select(mem, z3.Extract(aw - 1, 0, a) if a.size() > aw else a)
        if m.depth < (1 << addr.size()):
            r = z3.If(z3.ULT(addr, m.depth), r, z3.BitVecVal(0, m.width))
        return r

    def _romread(self, init, addr, width):
        n = addr.size()
        def rec(bit, base):
            if base >= len(init):
                return z3.BitVecVal(0, width)
            if bit < 0:
                return z3.BitVecVal(init[base], width)
            lo = rec(bit - 1, base)
            if base + (1 << bit) >= len(init):
                hi = z3.BitVecVal(0, width)
            else:
                hi = rec(bit - 1, base + (1 << bit))
            if z3.is_bv_value(lo) and z3.is_bv_value(hi) and lo.as_long() == hi.as_long():
                return lo
            return z3.If(z3.Extract(bit, bit, addr) == 1, hi, lo)
        return rec(n - 1, 0)

    # ------------------------------------------------------------------ build
    def _build(self):
        nl, P = self.nl, self.prefix
        top = nl.cells[0]
        pieces = {}
        for name, (start, w) in top.ports_i.items():
            v = z3.BitVec(P + name, w)
            self.inputs[name] = v
            pieces[start] = v
            if name.endswith('_clk') or name == 'clk': self.clock_inputs.append(name)
            if name.endswith('_rst') or name == 'rst': self.reset_inputs.append(name)
        parts, pos = [z3.BitVecVal(0b10, 2)], 2
        for s in sorted(pieces):
            assert s == pos, (s, pos)
            parts.append(pieces[s]); pos += pieces[s].size()
        self.cellval[0] = z3.Concat(*reversed(parts)) if len(parts) > 1 else parts[0]

        writes = {}
        self.clocks = set()
        for idx, c in enumerate(nl.cells):
            if isinstance(c, (nir.Instance, nir.IOBuffer, nir.Initial, nir.AnyValue)):
                raise Unsupported(f"{type(c).__name__} cell (vendor primitive / IO buffer)")
            if isinstance(c, nir.SyncWritePort):
                writes.setdefault(c.memory, []).append((idx, c))
                self.clocks.add((c.clk, c.clk_edge))
        # names for flip-flops: the signal whose nets are this cell's outputs
        ffname = {}
        for sig, value in nl.signals.items():
            nets = list(value)
            if nets and nets[0].is_cell and isinstance(nl.cells[nets[0].cell], nir.FlipFlop):
                cidx = nets[0].cell
                if len(nets) == len(nl.cells[cidx].data) and all(
                        n.is_cell and n.cell == cidx and n.bit == i for i, n in enumerate(nets)):
                    # prefer the name the signal has in the module that owns the flip-flop
                    owner = nl.modules[nl.cells[cidx].module_idx]
                    if cidx not in ffname or (sig in owner.signal_names and ffname[cidx] not in owner.signal_names):
                        ffname[cidx] = sig
        self.ff_signal = {}
        rpname = {}
        for sig, value in nl.signals.items():
            nets = list(value)
            if nets and nets[0].is_cell and isinstance(nl.cells[nets[0].cell], nir.SyncReadPort) and nets[0].bit == 0 \
                    and len(nets) == nl.cells[nets[0].cell].width:
                rpname.setdefault(nets[0].cell, sig)
        used = {str(v) for v in self.inputs.values()}      # a register must never share its z3 name with an input port
        def uniq(n):
            base, k = n, 1
            while n in used:
                k += 1; n = f"{base}${k}"
            used.add(n)
            return n
        for idx, c in enumerate(nl.cells):
            if isinstance(c, nir.FlipFlop):
                if c.arst != nir.Net.from_const(0):
                    raise Unsupported("asynchronous reset flip-flop")
                self.clocks.add((c.clk, c.clk_edge))
                sig = ffname.get(idx)
                if sig is not None and len(sig) != len(c.data): sig = None
                mod = '.'.join(nl.modules[c.module_idx].name[1:])
                nm = (mod + '.' if mod else '') + (sig.name if sig is not None else f"ff{idx}")
                self.state[('ff', idx)] = z3.BitVec(uniq(P + nm), len(c.data))
                self.init[('ff', idx)] = c.init
                if sig is not None: self.ff_signal[('ff', idx)] = sig
            elif isinstance(c, nir.Memory):
                if idx not in writes:
                    continue                                   # ROM
                aw = max(1, (c.depth - 1).bit_length())
                mod = '.'.join(nl.modules[c.module_idx].name[1:])
                self.state[('mem', idx)] = z3.Array(uniq(P + (mod + '.' if mod else '') + 'mem:' + c.name),
                                                    z3.BitVecSort(aw), z3.BitVecSort(c.width))
                self.init[('mem', idx)] = c.init
            elif isinstance(c, nir.SyncReadPort):
                self.clocks.add((c.clk, c.clk_edge))
                self.state[('rp', idx)] = z3.BitVec(uniq(f"{P}rp{idx}"), c.width)
                self.init[('rp', idx)] = None
                if idx in rpname: self.ff_signal[('rp', idx)] = rpname[idx]
        for idx, c in enumerate(nl.cells):
            if isinstance(c, nir.FlipFlop):
                self.next[('ff', idx)] = self.val(c.data)
            elif isinstance(c, nir.Memory) and ('mem', idx) in self.state:
                mem = self.state[('mem', idx)]
                aw = mem.sort().domain().size()
                new = mem
                for widx, wp in writes.get(idx, []):
                    addr0 = self.val(wp.addr)
                    if addr0 is None:                          # zero-width address (depth-1 memory): always row 0
                        addr0 = z3.BitVecVal(0, 1)
                    addr = z3.ZeroExt(aw - addr0.size(), addr0) if addr0.size() < aw else \
                        (z3.Extract(aw - 1, 0, addr0) if addr0.size() > aw else addr0)
                    data = self.val(wp.data)
                    old = z3.Select(new, addr)
                    if all(n == wp.en[0] for n in wp.en):
                        d = z3.If(self.netb(wp.en[0]), data, old)
                    else:
                        en = self.val(wp.en)
                        d = (data & en) | (old & ~en)
                    upd = z3.Store(new, addr, d)
                    if c.depth < (1 << addr0.size()):
                        upd = z3.If(z3.ULT(addr0, c.depth), upd, new)
                    new = upd
                self.next[('mem', idx)] = new
            elif isinstance(c, nir.SyncReadPort):
                addr = self.val(c.addr)
                r = self._memread(c.memory, addr)
                for widx in c.transparent_for:
                    wp = nl.cells[widx]
                    waddr = self.val(wp.addr)
                    W = max(waddr.size(), addr.size())
                    wa = z3.ZeroExt(W - waddr.size(), waddr) if waddr.size() < W else waddr
                    ra = z3.ZeroExt(W - addr.size(), addr) if addr.size() < W else addr
                    if all(n == wp.en[0] for n in wp.en):
                        r = z3.If(z3.And(self.netb(wp.en[0]), wa == ra), self.val(wp.data), r)
                    else:
                        en = self.val(wp.en)
                        r = z3.If(wa == ra, (self.val(wp.data) & en) | (r & ~en), r)
                self.next[('rp', idx)] = z3.If(self.netb(c.en), r, self.state[('rp', idx)])
        for name, value in top.ports_o.items():
            self.outputs[name] = self.val(value)
        self.n_cells = len(nl.cells)
        self.state_bits = sum(v.size() for k, v in self.state.items() if k[0] != 'mem')

    # ------------------------------------------------------------------ names
    def _index_names(self):
        """hierarchical path ('timer.counter') -> (Signal, nir.Value)."""
        nl = self.nl
        self.paths = {}
        for m in nl.modules:
            mod = '.'.join(m.name[1:])
            for sig, nm in m.signal_names.items():
                if sig in nl.signals:
                    self.paths.setdefault((mod + '.' if mod else '') + nm, sig)
        self.mems = {}
        for idx, c in enumerate(nl.cells):
            if isinstance(c, nir.Memory):
                mod = '.'.join(nl.modules[c.module_idx].name[1:])
                self.mems[(mod + '.' if mod else '') + c.name] = idx
        self._sigcache = {}

    def of(self, sig):
        """z3 term for an Amaranth Signal object that is part of the design."""
        k = id(sig)
        if k not in self._sigcache:
            if sig not in self.nl.signals:
                raise BindingError(f"signal {sig!r} is not part of the elaborated design")
            self._sigcache[k] = self.val(self.nl.signals[sig])
        return self._sigcache[k]

    @staticmethod
    def _strip(path):
        import re
        return '.'.join(re.sub(r'\$\d+$', '', comp) for comp in path.split('.'))

    def module_classes(self):
        """stripped module path -> class name of the (outermost non-Amaranth) Elaboratable elaborated there"""
        if getattr(self, "_modcls", None) is None:
            out = {}
            for obj, frag in getattr(self.design, "elaboratables", {}).items():
                info = self.design.fragments.get(frag)
                if info is None or len(info.name) < 2:
                    continue
                mp = self._strip('.'.join(info.name[1:]))
                if not type(obj).__module__.startswith("amaranth") and mp not in out:
                    out[mp] = type(obj).__name__
            self._modcls = out
        return self._modcls

    def _module_map(self):
        """Submodule-rename following.  A module path that existed on the reference tree (REFERENCE_MODS, with the class
        elaborated there) and is gone is mapped to the one *new* module of the same class under the same (mapped) parent.
        Every followed rename is recorded (self.rebound) and marks the contract degraded."""
        if getattr(self, "_modmap", None) is not None:
            return self._modmap
        new = self.module_classes()
        ref = {k[len(self.prefix):]: v for k, v in REFERENCE_MODS.items() if k.startswith(self.prefix)}
        mm = {}
        for r in sorted(ref, key=lambda x: x.count('.')):
            parent, _, leaf = r.rpartition('.')
            mparent = mm.get(parent, parent) if parent else ''
            same = (mparent + '.' if mparent else '') + leaf
            if same in new:
                if same != r:
                    mm[r] = same
                continue
            cands = [q for q, cls in new.items() if cls == ref[r] and q.rpartition('.')[0] == mparent and q not in ref
                     and q not in mm.values()]
            if len(cands) == 1:
                mm[r] = cands[0]
                self.rebound.append(f"module {r} -> {cands[0]} (renamed submodule of class {ref[r]})")
        self._modmap = mm
        return mm

    def _remap(self, want):
        """`want` (stripped path) with its longest renamed module prefix replaced; None when no rename applies"""
        mm = self._module_map()
        comps = want.split('.')
        for i in range(len(comps) - 1, 0, -1):
            pre = '.'.join(comps[:i])
            if pre in mm:
                return mm[pre] + '.' + '.'.join(comps[i:])
        return None

    def resolve(self, path):
        """Exact path, or the path modulo Amaranth's `$N` de-duplication suffixes (which depend on unrelated code); when
        several signals share the stripped name, the one backed by a flip-flop is meant."""
        if path in self.paths:
            return path
        want = self._strip(path)
        cands = [p for p in self.paths if self._strip(p) == want]
        if len(cands) > 1:
            ffsigs = {id(s) for s in self.ff_signal.values()}
            regs = [p for p in cands if id(self.paths[p]) in ffsigs]
            if len(regs) == 1:
                cands = regs
        if len(cands) == 1:
            return cands[0]
        if not cands:
            moved = self._remap(want)
            if moved is not None and moved != want:
                return self.resolve(moved)
            alt = self._renamed_register(want)
            if alt is not None:
                return alt
            raise BindingError(f"no signal at path {path!r}")
        raise BindingError(f"ambiguous signal path {path!r}: {cands}")

    def _renamed_register(self, want):
        """`want` (a stripped path) named a flip-flop on the reference tree and is gone.  If exactly one flip-flop of the
        same width in the same module is new (its name is unknown on the reference tree), follow the rename.  The choice is
        recorded (self.rebound) and marks the contract degraded: a wrong guess can only make invariants fail, and failures
        of a degraded contract are reported as violations only with a replayed ensures-level witness."""
        ref = REFERENCE_REGS.get(self.prefix + want)
        if ref is None:
            return None
        mod = want.rsplit('.', 1)[0] + '.' if '.' in want else ''
        by_sig = {id(sg): p for p, sg in self.paths.items()}
        cands = []
        for k, sg in self.ff_signal.items():
            if k[0] != 'ff':
                continue
            name = self._strip(str(self.state[k]))[len(self.prefix):]
            nmod = name.rsplit('.', 1)[0] + '.' if '.' in name else ''
            if nmod == mod and len(sg) == ref and (self.prefix + name) not in REFERENCE_REGS and id(sg) in by_sig:
                cands.append(by_sig[id(sg)])
        if len(cands) == 1:
            self.rebound.append(f"{want} -> {cands[0]} (renamed register, width {ref})")
            return cands[0]
        return None

    def sig(self, path):
        if path in self.inputs: return self.inputs[path]
        if path in self.outputs: return self.outputs[path]
        p = self.resolve(path)
        v = self.of(self.paths[p])
        # a register whose width differs from the reference tree's: contracts are written for the reference width.
        # Narrower: zero-extended (what every reader of an unsigned signal sees).  Wider: the low bits, and the driver
        # adds the conjunct "the new upper bits are zero" (self.widened); the contract is then degraded (run.py).
        ref = REFERENCE_REGS.get(self.prefix + self._strip(p))
        if ref and z3.is_bv(v) and v.size() != ref:
            if v.size() < ref:
                return z3.ZeroExt(ref - v.size(), v)
            self.widened[p] = (v, ref)
            return z3.Extract(ref - 1, 0, v)
        return v

    def key(self, name):
        """the global (prefixed) name of an input port, as used in traces"""
        return self.prefix + name

    def has(self, path):
        """Probe for an optional name.  Every probe is recorded (self.probes): a name that resolves on the reference
        tree (probe_baseline.json) but not on the tree being checked marks the contract as degraded."""
        ok = self._has(path)
        self.probes["has:" + path] = ok
        return ok

    def reg(self, name):
        """State variable of the flip-flop named `name` ('module.signal'), modulo `$N` suffixes and followed submodule
        renames (use this instead of looking names up in ts.state by hand)."""
        want = self._strip(name)
        for w in (want, self._remap(want)):
            if w is None:
                continue
            c_ = [v for k, v in self.state.items() if k[0] == 'ff' and self._strip(str(v)) == self.prefix + w]
            if len(c_) == 1:
                return c_[0]
            if len(c_) > 1:
                raise BindingError(f"ambiguous register {name!r}")
        raise BindingError(f"no register {name}")

    def has_reg(self, name):
        """Probe for a register by its z3 name ('module.signal')."""
        ok = any(str(v) == self.prefix + name for v in self.state.values())
        if not ok:
            moved = self._remap(self._strip(name))
            ok = moved is not None and any(self._strip(str(v)) == self.prefix + moved for v in self.state.values())
        self.probes["reg:" + name] = ok
        return ok

    def _has(self, path):
        if path in self.inputs or path in self.outputs or path in self.paths:
            return True
        try:
            self.resolve(path)
            return True
        except BindingError:
            return False

    def fsm(self, path="fsm_state"):
        path = self.resolve(path)
        s = self.paths[path]
        return FSM(self, path, s, self.of(s))

    def mem(self, path):
        if path not in self.mems:
            c_ = [p for p in self.mems if self._strip(p) == self._strip(path)]
            if not c_ and self._remap(self._strip(path)):
                c_ = [p for p in self.mems if self._strip(p) == self._remap(self._strip(path))]
            if len(c_) != 1:
                raise BindingError(f"no memory {path!r} (have {list(self.mems)})")
            path = c_[0]
        idx = self.mems[path]
        return self.state[('mem', idx)], self.nl.cells[idx]

    def instances(self, cls):
        """The real sub-Elaboratable objects of class `cls` that elaborate() created anywhere in the hierarchy (so their
        public Signal attributes can be addressed with ts.of(obj.signal) instead of by path)."""
        out = []
        for obj in getattr(self.design, "elaboratables", {}):
            if isinstance(obj, cls):
                out.append(obj)
        return out

    def instance(self, cls, index=None):
        objs = self.instances(cls)
        if index is not None:
            return objs[index]
        if len(objs) != 1:
            raise BindingError(f"expected exactly one {cls.__name__} instance in the design, found {len(objs)}")
        return objs[0]

    def find(self, suffix):
        r = [p for p in self.paths if p == suffix or p.endswith('.' + suffix)]
        if not r:                                   # a register of that name on the reference tree may have been renamed
            for ref in REFERENCE_REGS:
                want = ref[len(self.prefix):] if ref.startswith(self.prefix) else ref
                if want == suffix or want.endswith('.' + suffix):
                    alt = self._renamed_register(want)
                    if alt is not None and alt not in r:
                        r.append(alt)
        self.probes["find:" + suffix] = bool(r)
        return r

    # ------------------------------------------------------------------ substitutions
    def state_vars(self):
        return list(self.state.values())

    def next_pairs(self):
        return [(v, self.next[k]) for k, v in self.state.items()]

    def init_pairs(self):
        """(var, value) for every state element with a defined power-on value; read-port registers are left free."""
        out = []
        for k, v in self.state.items():
            i = self.init[k]
            if k[0] == 'ff':
                out.append((v, z3.BitVecVal(i, v.size())))
            elif k[0] == 'mem':
                aw, w = v.sort().domain().size(), v.sort().range().size()
                a = z3.K(z3.BitVecSort(aw), z3.BitVecVal(0, w))
                for j, x in enumerate(i):
                    if x != 0:
                        a = z3.Store(a, z3.BitVecVal(j, aw), z3.BitVecVal(x, w))
                out.append((v, a))
        return out

    def summary(self):
        from collections import Counter
        return {"cells": self.n_cells, "state_bits": self.state_bits,
                "memories": sum(1 for k in self.state if k[0] == 'mem'),
                "cell_kinds": dict(Counter(type(c).__name__ for c in self.nl.cells)),
                "clock_domains": sorted(self.clock_inputs)}
