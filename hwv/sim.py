"""hwv.sim — run the real design on Amaranth's simulator, and evaluate the extracted transition system concretely.

Used for (a) translation validation of the extractor on every run (random stimulus, every flip-flop and output
compared each cycle) and (b) replaying a BMC witness on the real code and evaluating the contract's ghost monitor
and `ensures` on that run.
"""
import random
import z3
from amaranth.sim import Simulator
from amaranth.sim.pysim import PySimEngine


def make_sim(ts):
    """A Simulator over the *same* Design object the netlist was built from (so Signal identities coincide)."""
    sim = Simulator.__new__(Simulator)
    sim._design = ts.design
    sim._engine = PySimEngine(ts.design)
    sim._clocked = set()
    sim._running = False
    doms = [n[:-4] if n.endswith("_clk") else "sync" for n in ts.clock_inputs]
    for d in doms:
        sim.add_clock(1e-6, domain=d)
    return sim, doms


class Concrete:
    """Concrete evaluation of z3 terms over a valuation of (state, ghost, input) constants."""

    def __init__(self, c, use_binds=True):
        self.c = c
        self.fin = c._apply_binds if use_binds else (lambda e: e)
        self.svars = []
        for u in c.units:
            self.svars += list(u.state.values())
        self.gvars = [c.ghosts[n][0] for n in c.ghosts]
        self.nextmap = []
        for u in c.units:
            self.nextmap += u.next_pairs()
        self.nextmap += [(c.ghosts[n][0], c.gnext[n]) for n in c.ghosts]
        self.inputs = c.all_inputs()
        # one wide term for all bit-vector next-states: a single substitute+simplify per cycle
        self.bvn = [(v, e) for v, e in self.nextmap if z3.is_bv(v)]
        self.arn = [(v, e) for v, e in self.nextmap if not z3.is_bv(v)]
        self.wide = z3.Concat(*[self.fin(e) for _, e in self.bvn]) if len(self.bvn) > 1 else \
            (self.fin(self.bvn[0][1]) if self.bvn else None)

    def initial(self, rp_value=0):
        env = dict()
        for v, val in self.c.state_pairs_init():
            env[str(v)] = (v, val)
        for v in self.svars + self.gvars:
            if str(v) not in env:
                if z3.is_bv(v):
                    env[str(v)] = (v, z3.BitVecVal(rp_value, v.size()))
                else:
                    env[str(v)] = (v, z3.K(v.sort().domain(), z3.BitVecVal(0, v.sort().range().size())))
        return env

    def pairs(self, env, frames):
        """frames: list of input dicts for levels 0,1,..."""
        ps = [p for p in env.values()]
        for n, v in self.inputs.items():
            ps.append((v, z3.BitVecVal(frames[0].get(n, 0), v.size())))
        for (name, lvl), pv in self.c._lvl.items():
            if lvl < len(frames):
                ps.append((pv, z3.BitVecVal(frames[lvl].get(name, 0), pv.size())))
        return ps

    def ev(self, e, pairs):
        r = z3.simplify(z3.substitute(self.fin(e), *pairs))
        if z3.is_bv_value(r):
            return r.as_long()
        if z3.is_true(r):
            return 1
        if z3.is_false(r):
            return 0
        return r

    def step(self, env, pairs):
        new = {}
        if self.wide is not None:
            w = z3.simplify(z3.substitute(self.wide, *pairs))
            assert z3.is_bv_value(w), "next-state did not evaluate to a constant"
            val = w.as_long()
            pos = w.size()
            for v, _ in self.bvn:
                pos -= v.size()
                new[str(v)] = (v, z3.BitVecVal((val >> pos) & ((1 << v.size()) - 1), v.size()))
        for v, e in self.arn:
            new[str(v)] = (v, z3.simplify(z3.substitute(self.fin(e), *pairs)))
        return new


def run_real(c, trace, observe_paths=()):
    """Drive `trace` (list of {input: value}) into the real design under pysim.
    -> per cycle: {'ff': {z3 state name: value}, 'out': {port: value}} sampled after inputs settle, before the edge."""
    rows = []
    sims = []
    for ts in c.units:
        sim, doms = make_sim(ts)
        sims.append((ts, sim, doms))
    for ts, sim, doms in sims:
        ffs = [(str(ts.state[k]), sig) for k, sig in ts.ff_signal.items()]
        outs = {n: ts.port_signals[n] for n in ts.outputs}
        ins = {n: ts.port_signals[n] for n in ts.inputs if n in ts.port_signals}
        rsts = {}
        for n in ts.reset_inputs:
            dom = n[:-4] if n.endswith("_rst") else "sync"
            cd = ts.design.fragment.domains.get(dom)
            if cd is not None and cd.rst is not None:
                rsts[n] = cd.rst
        myrows = []

        async def tb(ctx, ts=ts, ffs=ffs, outs=outs, ins=ins, rsts=rsts, doms=doms, myrows=myrows):
            for row in trace:
                for n, s in ins.items():
                    ctx.set(s, row.get(ts.prefix + n, 0) & ((1 << len(s)) - 1))
                for n, s in rsts.items():
                    ctx.set(s, row.get(ts.prefix + n, 0) & 1)
                r = {"ff": {}, "out": {}}
                for name, s in ffs:
                    v = ctx.get(s)
                    r["ff"][name] = v & ((1 << len(s)) - 1) if isinstance(v, int) else int(v) & ((1 << len(s)) - 1)
                for n, s in outs.items():
                    v = ctx.get(s)
                    r["out"][ts.prefix + n] = int(v) & ((1 << len(s)) - 1)
                myrows.append(r)
                await ctx.tick(doms[0]) if doms else None
        sim.add_testbench(tb)
        sim.run()
        rows.append(myrows)
    # merge units
    merged = []
    for t in range(len(trace)):
        m = {"ff": {}, "out": {}}
        for r in rows:
            if t < len(r):
                m["ff"].update(r[t]["ff"]); m["out"].update(r[t]["out"])
        merged.append(m)
    return merged


def random_trace(c, cycles, seed):
    rnd = random.Random(seed)
    tr = []
    hold = {}
    for t in range(cycles):
        row = {}
        for u in c.units:
            for n, v in u.inputs.items():
                if n in u.clock_inputs:
                    continue
                kk = u.prefix + n
                if n in u.reset_inputs:
                    row[kk] = 0
                    continue
                w = v.size()
                bias = c.cosim_bias.get(n)
                if bias is not None:
                    row[kk] = bias(rnd, t)
                elif w == 1:
                    # sticky bits: change with probability 1/3, so that handshakes and runs of activity both occur
                    if kk not in hold or rnd.random() < 0.34:
                        hold[kk] = rnd.getrandbits(1)
                    row[kk] = hold[kk]
                else:
                    k = rnd.random()
                    row[kk] = rnd.getrandbits(w) if k < 0.7 else rnd.choice([0, (1 << w) - 1, rnd.getrandbits(min(w, 3))])
        tr.append(row)
    return tr


def cosim(c, cycles, seed):
    """Translation validation: the z3 transition function, evaluated concretely, must agree with Amaranth's simulator
    on every flip-flop and output, every cycle, for a random stimulus (each unit on its own: product bindings are
    not applied here).  -> (ok, cycles, mismatch description)"""
    trace = random_trace(c, cycles, seed)
    real = run_real(c, trace)
    conc = Concrete(c, use_binds=False)
    env = conc.initial()
    compared = 0
    for t, row in enumerate(trace):
        pairs = conc.pairs(env, [row])
        for name, val in real[t]["ff"].items():
            mine = env[name][1].as_long()
            compared += 1
            if mine != val:
                return False, t, f"cycle {t}: register {name}: extracted {mine} != simulator {val}"
        for u in c.units:
            for n, e in u.outputs.items():
                mine = conc.ev(e, pairs)
                compared += 1
                if mine != real[t]["out"][u.prefix + n]:
                    return False, t, f"cycle {t}: output {u.prefix + n}: extracted {mine} != simulator {real[t]['out'][u.prefix + n]}"
        env = conc.step(env, pairs)
    return True, cycles, f"{compared} register/output values compared"


def fill_bound(c, trace):
    """For a product contract: compute, cycle by cycle, the values of the bound inputs (driven by the other unit's
    outputs) with the extracted system, so that each real unit can then be simulated on its own with them."""
    if not c.binds:
        return trace
    conc = Concrete(c, use_binds=True)
    env = conc.initial()
    inputs = c.all_inputs()
    out = []
    for row in trace:
        pairs = conc.pairs(env, [row])
        row = dict(row)
        for var, expr in c.binds:
            row[str(var)] = conc.ev(var, pairs)
        out.append(row)
        env = conc.step(env, pairs)
    return out


def replay(c, trace):
    """Run `trace` on the real design and on the extracted system; evaluate requires / ensures / ghosts per cycle.
    -> dict(agree=bool, mismatch=str, cycles=[{t, ghosts, requires_ok, failed_ensures}], violated=[(t, ensure name)])"""
    trace = fill_bound(c, trace)
    real = run_real(c, trace)
    conc = Concrete(c)
    env = conc.initial()
    # rigid / unconstrained-init ghosts: use the value recorded with the witness (row 0, key "g.<name>"), default 0
    for n, (v, init) in c.ghosts.items():
        if init is None and trace and isinstance(trace[0].get("g." + n), int) and z3.is_bv(v):
            env[str(v)] = (v, z3.BitVecVal(trace[0]["g." + n], v.size()))
    maxlvl = max([c.input_level(e) for _, e, _ in c.ensures] + [0])
    out = {"agree": True, "mismatch": "", "cycles": [], "violated": []}
    for t in range(len(trace)):
        frames = [trace[t + l] for l in range(maxlvl + 1) if t + l < len(trace)]
        pairs = conc.pairs(env, frames)
        for name, val in real[t]["ff"].items():
            mine = env[name][1].as_long()
            if mine != val and out["agree"]:
                out["agree"] = False
                out["mismatch"] = f"cycle {t}: register {name}: extracted {mine} != simulator {val}"
        outs = {}
        for u in c.units:
            for n, e in u.outputs.items():
                mine = conc.ev(e, pairs)
                kk = u.prefix + n
                outs[kk] = real[t]["out"][kk]
                if mine != real[t]["out"][kk] and out["agree"]:
                    out["agree"] = False
                    out["mismatch"] = f"cycle {t}: output {kk}: extracted {mine} != simulator {real[t]['out'][kk]}"
        row = {"t": t, "inputs": {k: v for k, v in trace[t].items() if not k.endswith("clk")}, "outputs": outs,
               "ghosts": {n: env["g." + n][1].as_long() for n in c.ghosts if z3.is_bv_value(env["g." + n][1])}}
        req_ok = all(conc.ev(e, pairs) == 1 for _, e in c.all_requires())
        row["requires_ok"] = req_ok
        failed = []
        if len(frames) == maxlvl + 1:
            for name, e, _ in c.ensures:
                if c.input_level(e) + 1 > len(frames):
                    continue
                v = conc.ev(e, pairs)
                if v == 0:
                    failed.append(name)
                    out["violated"].append((t, name))
        row["failed_ensures"] = failed
        out["cycles"].append(row)
        env = conc.step(env, pairs)
    return out


def inject(c, assignment, formula=None):
    """State-injection replay of a solver counterexample (one clocked step from an arbitrary state).
    `assignment`: z3 constant name -> int (flip-flops, ghosts, inputs `x`, next-cycle inputs `x'`).  The flip-flops of the
    real design are loaded with those values under pysim, the inputs applied, one clock stepped; registers and outputs of
    the real run are compared with the extracted system's concrete evaluation, and `formula` (the negated obligation's
    target, i.e. what should hold) is evaluated.  Memories cannot be injected: units with writable memories are skipped."""
    for u in c.units:
        if any(k[0] == "mem" for k in u.state):
            return {"supported": False, "why": "unit has a writable memory; contents cannot be injected"}
    conc = Concrete(c)
    env = conc.initial()
    for name, (v, _) in list(env.items()):
        if name in assignment and z3.is_bv(v) and isinstance(assignment[name], int):
            env[name] = (v, z3.BitVecVal(assignment[name], v.size()))
    row0 = {k: assignment.get(str(v), 0) for k, v in conc.inputs.items()}
    row1 = {k: assignment.get(str(v) + "'", 0) for k, v in conc.inputs.items()}
    row0 = {k: (x if isinstance(x, int) else 0) for k, x in row0.items()}
    row1 = {k: (x if isinstance(x, int) else 0) for k, x in row1.items()}
    for var, expr in c.binds:
        pass
    pairs = conc.pairs(env, [row0, row1])
    res = {"supported": True, "state": {n: p[1].as_long() for n, p in env.items() if z3.is_bv_value(p[1])},
           "inputs": row0, "next_inputs": row1}
    if formula is not None:
        res["obligation_holds"] = conc.ev(formula, pairs)
    env2 = conc.step(env, pairs)
    agree, mism = True, ""
    real_out, real_next = {}, {}
    if not c.binds:
        for ts in c.units:
            s, doms = make_sim(ts)
            ffs = [(str(ts.state[k]), sig) for k, sig in ts.ff_signal.items()]
            outs = {n: ts.port_signals[n] for n in ts.outputs}
            ins = {n: ts.port_signals[n] for n in ts.inputs if n in ts.port_signals}

            async def tb(ctx, ts=ts, ffs=ffs, outs=outs, ins=ins, doms=doms):
                for name, sig in ffs:
                    ctx.set(sig, env[name][1].as_long())
                for n, sg in ins.items():
                    ctx.set(sg, row0.get(ts.prefix + n, 0) & ((1 << len(sg)) - 1))
                for n, sg in outs.items():
                    real_out[ts.prefix + n] = int(ctx.get(sg)) & ((1 << len(sg)) - 1)
                if doms:
                    await ctx.tick(doms[0])
                for name, sig in ffs:
                    real_next[name] = int(ctx.get(sig)) & ((1 << len(sig)) - 1)
            s.add_testbench(tb)
            s.run()
        for u in c.units:
            for n, e in u.outputs.items():
                mine = conc.ev(e, pairs)
                if mine != real_out[u.prefix + n] and agree:
                    agree, mism = False, f"output {u.prefix + n}: extracted {mine} != simulator {real_out[u.prefix + n]}"
        for name, val in real_next.items():
            mine = env2[name][1].as_long()
            if mine != val and agree:
                agree, mism = False, f"next {name}: extracted {mine} != simulator {val}"
        res["real_outputs"] = real_out
        res["real_next_registers"] = real_next
    res["simulator_agrees_with_extraction"] = agree
    res["mismatch"] = mism
    return res
