"""hwv.run — the check driver: contracts -> obligations -> verdict, replay, evidence.

exit 0: every obligation discharged, every vacuity guard satisfied, extractor self-check passed
exit 1: an obligation that expresses the property is refuted (VIOLATION line printed, replay file written)
exit 2: undecided (solver unknown/timeout, binding error) — never a VIOLATION
exit 3: the checker itself is broken (extractor self-check mismatch, cover unreachable, exception, zero obligations)
"""
import os, sys, json, time, fnmatch, importlib, traceback, glob
import multiprocessing as mp
import z3

ROOT = os.path.dirname(os.path.dirname(os.path.abspath(__file__)))
sys.path.insert(0, ROOT)
if os.environ.get("HWV_REPO"):          # self-tests only: verify a scratch copy of the repository instead of /repo
    sys.path.insert(0, os.environ["HWV_REPO"])
from hwv.contract import Ctx, BindingError, Unsupported          # noqa: E402
from hwv import prove, sim                                       # noqa: E402

TRUSTED = [
    "Amaranth 0.5.9 Fragment.prepare/build_netlist (the production lowering to NIR) and its pysim simulator",
    "hwv.extract NIR->z3 translation (co-simulated against pysim on every run)",
    "z3 5.1.0 (QF_ABV), cvc5 for z3 unknowns, hwv.gf2 affine normaliser",
    "spec functions in contracts/spec.py written from the USB 2.0/3.2, ULPI 1.1 specifications",
]


def load(prop):
    files = sorted(glob.glob(os.path.join(ROOT, "contracts", prop.lower() + "_*.py")) +
                   glob.glob(os.path.join(ROOT, "contracts", prop.lower() + ".py")))
    if not files:
        raise SystemExit(f"no contract file for {prop}")
    name = os.path.splitext(os.path.basename(files[0]))[0]
    return importlib.import_module("contracts." + name)


def known_findings(prop):
    p = os.path.join(ROOT, "known_findings.json")
    if not os.path.exists(p):
        return []
    return [e for e in json.load(open(p)) if e.get("property") == prop and e.get("status") == "finding"]


# -------------------------------------------------------------------------------------------- per-contract tasks
_CTX = []


def _aux(task):
    kind, ci = task
    c = _CTX[ci]
    t0 = time.time()
    try:
        if kind == "cover":
            depth = c.cover_depth or c.bmc_depth
            found, secs = prove.bmc(c, c.covers, depth, timeout_s=max(c.timeout_s, 60) * 4)
            return kind, ci, {n: ("timeout" if v == "timeout" else (v[0] if v else None)) for n, v in found.items()}, time.time() - t0, ""
        if kind == "cosim":
            cycles = c.cosim_cycles or (64 if c.tier == "quick" else 1000)
            ok, n, msg = sim.cosim(c, cycles, c.seed)
            return kind, ci, (ok, n, msg), time.time() - t0, ""
    except Exception:
        return kind, ci, None, time.time() - t0, traceback.format_exc()


def houdini(c, log):
    """Drop candidate conjuncts until the rest (with the stated invariants) is inductive; survivors become invariants."""
    if not c.cands:
        return
    cands = list(c.cands)
    ipairs = c.state_pairs_init()
    reqs = [e for _, e in c.all_requires()]
    keep = []
    for n, e in cands:
        s = z3.Solver(); s.set("timeout", 20000)
        s.add(*reqs); s.add(z3.substitute(z3.Not(e), *ipairs))
        if s.check() == z3.unsat:
            keep.append((n, e))
    cands = keep
    changed = True
    rounds = 0
    while changed:
        changed = False
        rounds += 1
        base = [e for _, e in c.invs] + [e for _, e in cands] + reqs
        s = z3.Solver(); s.set("timeout", 20000)
        s.add(*[c._apply_binds(b) for b in base])
        keep = []
        for n, e in cands:
            s.push()
            tgt = c.nx(e)
            lvl = c.input_level(tgt)
            for l in range(1, lvl + 1):
                s.add(*[c._apply_binds(c.nx(r, l)) for r in reqs])
            s.add(c._apply_binds(z3.Not(tgt)))
            r = s.check()
            s.pop()
            if r == z3.unsat:
                keep.append((n, e))
            else:
                changed = True
        cands = keep
    log["houdini"] = {"candidates": len(c.cands), "survivors": [n for n, _ in cands], "rounds": rounds}
    for n, e in cands:
        c.inv("h:" + n, e)


def _probe_baseline():
    p = os.path.join(ROOT, "probe_baseline.json")
    return json.load(open(p)) if os.path.exists(p) else {}


def build_contracts(mod, prop, tier, seed):
    ctxs, problems = [], []
    baseline = _probe_baseline().get(prop, {})
    record = {} 
    for entry in mod.contracts(tier):
        unit_name, cfg_name, fn = entry[:3]
        c = Ctx(prop, unit_name, cfg_name, tier=tier, seed=seed)
        c.log = {}
        from hwv import extract as _ex
        _ex.REFERENCE_REGS = dict(baseline.get(c.name, {}).get("__regs__", {}))
        _ex.REFERENCE_MODS = dict(baseline.get(c.name, {}).get("__mods__", {}))
        _ex.REFERENCE_PORTS = dict(baseline.get(c.name, {}).get("__ports__", {}))
        try:
            fn(c)
            # the step semantics is "one active edge of the unit's clock domain(s), all together": a unit whose flip-flops
            # have moved into a clock domain it did not have on the reference tree is outside what was proved
            ref_clk = None if (os.environ.get("HWV_RECORD_PROBES") and not os.environ.get("HWV_REPO")) \
                else baseline.get(c.name, {}).get("__clocks__")
            now_clk = {u.prefix: sorted(u.clock_inputs) for u in c.units}
            c.lemma("clock_domains_of_the_units_are_those_of_the_reference_tree",
                    z3.BoolVal(ref_clk is None or ref_clk == now_clk),
                    clause=f"(structural) clock inputs per unit {now_clk}; on the reference tree {ref_clk}: every flip-flop is "
                           "clocked by the domain the contract's cycle semantics assumes")
            for u in c.units:
                for p_, (v_, ref_) in u.widened.items():
                    c.invs.append((f"widened:{p_}_upper_bits_zero", z3.Extract(v_.size() - 1, ref_, v_) == 0))
                    c.degraded.append(f"register {p_} is {v_.size()} bits wide, {ref_} on the reference tree (read through its low bits)")
            houdini(c, c.log)
            c._obs = c.obligations()
        except BindingError as e:
            problems.append(("binding", c.name, str(e)))
            continue
        except Unsupported as e:
            problems.append(("unsupported", c.name, str(e)))
            continue
        except Exception:
            # the contract itself could not be built for this configuration (e.g. a register it names has become
            # zero-width): this configuration is not decided; the others still are
            problems.append(("contract-error", c.name, traceback.format_exc()[-900:]))
            continue
        probes = {}
        regs = {}
        for u in c.units:
            probes.update(u.probes)
            for k_, v_ in u.state.items():
                if k_[0] == "ff":
                    regs[u._strip(str(v_))] = v_.size()
            for rb in u.rebound:
                c.degraded.append("followed a rename: " + rb)
        probes["__regs__"] = regs
        probes["__clocks__"] = {u.prefix: sorted(u.clock_inputs) for u in c.units}
        probes["__mods__"] = {u.prefix + m_: k_ for u in c.units for m_, k_ in u.module_classes().items()}
        probes["__ports__"] = {u.prefix + n: v.size() for u in c.units for d_ in (u.inputs, u.outputs)
                               for n, v in d_.items() if z3.is_bv(v)}
        for u in c.units:
            for d_ in (u.inputs, u.outputs):
                for n, (w_, r_) in d_.narrowed.items():
                    c.log.setdefault("narrowed_ports", []).append(f"{u.prefix}{n}: {r_} -> {w_} bits (read zero-extended)")
        record[c.name] = probes
        for name, ok in probes.items():
            if name not in ("__regs__", "__ports__", "__mods__", "__clocks__") and not ok and baseline.get(c.name, {}).get(name) is True:
                c.degraded.append(f"optional name {name} resolved on the reference tree but not on this one")
        ctxs.append(c)
    if os.environ.get("HWV_RECORD_PROBES") and not os.environ.get("HWV_REPO"):
        allb = _probe_baseline()
        allb.setdefault(prop, {}).update(record)
        json.dump(allb, open(os.path.join(ROOT, "probe_baseline.json"), "w"), indent=0, sort_keys=True)
    return ctxs, problems


def _target_formula(c, f):
    """The formula the failed obligation claims (to be evaluated on a concrete counterexample)."""
    name = f["name"].rsplit("/", 1)[1]
    if f["kind"] == "post":
        for n, e, _ in c.ensures:
            if n == name:
                return e
    if f["kind"] == "cons":
        for n, e in c.invs:
            if n == name:
                return c.nx(e)
    if f["kind"] == "comb":
        for n, impl, spec, method, _ in c.combs:
            if n == name:
                return impl == spec
    if f["kind"] in ("comb", "lemma"):
        for n, fm, _ in c.lemmas:
            if n == name:
                return fm
    return None


def triage(c, failed, prop, tier):
    """failed obligations of contract c -> (replay path, reproduced?)"""
    os.makedirs(os.path.join(ROOT, "replays"), exist_ok=True)
    targets = [("not:" + n, z3.Not(e)) for n, e, _ in c.ensures]
    # an inductive-step failure of an invariant conjunct also gets a direct reachability search
    for f in failed:
        if f["kind"] in ("cons", "init"):
            iname = f["name"].rsplit("/", 1)[1]
            for n, e in c.invs:
                if n == iname:
                    targets.append(("notinv:" + n, z3.Not(e)))
    out = []
    witness = None
    if targets and c.gnext.keys() >= c.ghosts.keys() and (any(u.state for u in c.units) or c.ghosts):   # ghosts alone (combinational unit) also make a history
        try:
            found, secs = prove.bmc(c, targets, c.bmc_depth, timeout_s=(45 if tier == 'quick' else 300))
        except Exception:
            found = {}
        best = None
        found = {n: (None if v == "timeout" else v) for n, v in found.items()}
        # the shared fallback witness: an ensures-level one ("not:") is preferred over an invariant-level one ("notinv:"),
        # then the shortest -- a degraded contract's refutation only counts with a replayed ensures-level witness
        rank = lambda n, v: (0 if n.startswith("not:") else 1, v[0])
        for n, v in found.items():
            if v is not None and (best is None or rank(n, v) < rank(*best)):
                best = (n, v)
        if best:
            witness = best
    else:
        found = {}
    for f in failed:
        safe = f["name"].replace("/", "_").replace(":", "_")
        path = os.path.join("replays", f"{safe}.json")
        doc = {"property": prop, "contract": c.name, "unit": c.unit_name, "cfg": c.cfg_name, "tier": tier,
               "failed_obligation": f["name"], "kind": f["kind"], "clause": f["meta"].get("clause", ""),
               "solver": {"result": f["result"], "backend": f["backend"], "seconds": f["seconds"]},
               "counter_model": f["model"], "bmc_depth": c.bmc_depth}
        reproduced = False
        mine = None                       # a witness for this obligation's own clause, if the search found one
        own = f["name"].rsplit("/", 1)[1]
        for key in ("not:" + own, "notinv:" + own):
            if found.get(key) is not None:
                mine = (key, found[key])
        if mine or witness:
            n, (t, trace) = mine or witness
            doc["witness"] = {"target": n, "violation_cycle": t, "trace": trace}
            try:
                rep = sim.replay(c, trace)
                doc["replay"] = {"simulator_agrees_with_extraction": rep["agree"], "mismatch": rep["mismatch"],
                                 "violated": rep["violated"], "cycles": rep["cycles"][-12:]}
                reproduced = rep["agree"] and (bool(rep["violated"]) or n.startswith("notinv:"))
                if not rep["agree"]:
                    doc["replay"]["note"] = "simulator disagrees with the extracted system: translator defect"
            except Exception:
                doc["replay"] = {"error": traceback.format_exc()}
        if not reproduced and isinstance(f.get("model"), dict):
            try:
                target = _target_formula(c, f)
                asg = dict(f["model"])
                if f["kind"] == "comb":
                    for k_, v_ in c.comb_at.get(f["name"].rsplit("/", 1)[1], {}).items():
                        asg[str(c.all_inputs().get(k_, k_))] = v_
                inj = sim.inject(c, asg, target)
                doc["state_injection_replay"] = inj
                if f["kind"] == "comb" and inj.get("supported") and inj.get("simulator_agrees_with_extraction") \
                        and inj.get("obligation_holds") == 0:
                    reproduced = True      # a combinational claim quantifies over all states: this state is a legitimate input
            except Exception:
                doc["state_injection_replay"] = {"error": traceback.format_exc()}
        if "/lemma/" in f["name"]:
            try:
                if z3.is_false(z3.simplify(_target_formula(c, f))):
                    reproduced = False
                    doc["structural"] = ("the failed obligation is a structural statement about the elaborated design (instances, "
                                         "parameters, clock domains): it fails for every input, there is no input history to replay")
            except Exception:
                pass
        if not witness:
            doc["witness"] = None
            doc["note"] = ("no input history from reset violating an ensures clause was found within the BMC depth; "
                           "the counter_model is the solver's counterexample to the failed obligation")
        json.dump(doc, open(os.path.join(ROOT, path), "w"), indent=1, default=str)
        out.append((f, path, reproduced))
    return out


_FAILED = {}


def _ensure_violated(path):
    try:
        d = json.load(open(os.path.join(ROOT, path)))
        return bool(d.get("replay", {}).get("violated"))
    except Exception:
        return False


def _triage_task(ci):
    fl, prop, tier = _FAILED[ci]
    try:
        return triage(_CTX[ci], fl, prop, tier)
    except Exception:
        traceback.print_exc()
        return [(f, "replays/none", False) for f in fl]


def main(prop, tier, seed):
    t_start = time.time()
    os.chdir(ROOT)
    for old in glob.glob(os.path.join(ROOT, "replays", f"{prop}_*.json")):
        os.unlink(old)
    mod = load(prop)
    ctxs, problems = build_contracts(mod, prop, tier, seed)
    global _CTX
    _CTX = ctxs
    obs, owner = [], []
    for ci, c in enumerate(ctxs):
        for o in c._obs:
            obs.append(o); owner.append(ci)
    timeout_s = max([c.timeout_s for c in ctxs] + [60])
    aux = [("cover", ci) for ci, c in enumerate(ctxs) if c.covers] + \
          [("cosim", ci) for ci, c in enumerate(ctxs) if any(u.state or u.outputs for u in c.units)]
    # run aux tasks and obligations concurrently on the same cores
    ctx = mp.get_context("fork")
    aux_res = []
    if os.environ.get("HWV_PROCS") == "1":
        aux_res = [_aux(t) for t in aux]
        results = prove.solve_all(obs, timeout_s=timeout_s, procs=1)
    else:
        with ctx.Pool(min(8 if prove.default_procs() >= 16 else 3, max(1, len(aux)))) as apool:
            ar = apool.map_async(_aux, aux)
            results = prove.solve_all(obs, timeout_s=timeout_s, xcheck=(48 if tier == 'thorough' else 0), seed=seed)
            try:
                aux_res = ar.get(timeout=timeout_s * 5 + 300 + 90 * len(aux))
            except mp.TimeoutError:
                aux_res = []
                problems.append(("aux-timeout", prop, "cover/cosim tasks did not finish"))
            apool.terminate()

    broken, undecided, cover_fail = [], [], []
    soft_broken = []
    for kind, name, msg in problems:
        if kind in ("binding", "unsupported"):
            undecided.append(f"{kind}: {name}: {msg}")
        elif kind == "contract-error":
            soft_broken.append(f"{kind}: {name}: {msg}")
        else:
            broken.append(f"{kind}: {name}: {msg}")
    covers_total = covers_hit = 0
    cosim_cycles = 0
    for r in aux_res:
        kind, ci, val, secs, err = r
        c = ctxs[ci]
        if err:
            broken.append(f"{kind} task of {c.name} raised:\n{err}")
            continue
        if kind == "cover":
            c.log["covers"] = val
            for n, t in val.items():
                covers_total += 1
                if t == "timeout":
                    undecided.append(f"cover {c.name}/cover/{n}: BMC time budget exhausted before depth {c.cover_depth or c.bmc_depth}")
                elif t is None:
                    cover_fail.append(f"cover {c.name}/cover/{n} not reachable within {c.cover_depth or c.bmc_depth} steps (vacuity guard)")
                else:
                    covers_hit += 1
        elif kind == "cosim":
            ok, n, msg = val
            c.log["cosim"] = {"cycles": n, "detail": msg, "seconds": round(secs, 2)}
            if not ok:
                broken.append(f"extractor self-check failed for {c.name}: {msg}")
            else:
                cosim_cycles += n

    failed, unknown = {}, []
    discharged = 0
    by_backend = {}
    solver_s = 0.0
    for r, ci in zip(results, owner):
        solver_s += r["seconds"]
        if r["result"] == "error":
            broken.append(f"{r['name']}: {r['note']}")
        elif r["result"] == "unknown":
            unknown.append(r)
        elif r["result"] == r["expect"]:
            discharged += 1
            by_backend[r["backend"]] = by_backend.get(r["backend"], 0) + 1
        elif r["expect"] == "sat":
            cover_fail.append(f"vacuity guard {r['name']} is unsatisfiable: invariant/requires contradictory")
        else:
            failed.setdefault(ci, []).append(r)
    if not obs:
        if undecided and not broken and not soft_broken:
            pass            # every configuration's contract failed to bind: undecided, not a checker failure
        else:
            broken.append("zero obligations generated")

    violations, known_lines = [], []
    kf = known_findings(prop)
    if failed and not broken:
        global _FAILED
        _FAILED = {ci: (fl, prop, tier) for ci, fl in failed.items()}
        if len(failed) > 1 and os.environ.get("HWV_PROCS") != "1":
            with ctx.Pool(min(8 if prove.default_procs() >= 16 else 3, len(failed))) as tpool:
                tres = tpool.map(_triage_task, list(failed))
        else:
            tres = [_triage_task(ci) for ci in failed]
        for tr in tres:
            for f, path, reproduced in tr:
                hit = [k for k in kf if any(fnmatch.fnmatch(f["name"], pat) for pat in k.get("obligations", []))]
                cdeg = next((c_ for c_ in ctxs if f["name"].startswith(c_.name + "/")), None)
                if cdeg is not None and cdeg.degraded and not (reproduced and _ensure_violated(path)):
                    undecided.append(f"{f['name']} refuted, but the contract lost invariant conjunct(s) about internal registers "
                                     f"that no longer exist ({'; '.join(cdeg.degraded)}) and no replayed ensures-level witness was found")
                    continue
                if hit:
                    known_lines.append(f"KNOWN-FINDING: property={prop} {hit[0]['what']} [{f['name']}]")
                else:
                    violations.append((f, path, reproduced))

    # ------------------------------------------------------------------ evidence
    wall = time.time() - t_start
    n_ob = len(obs) + covers_total
    n_dis = discharged + covers_hit
    samples = []
    for r in results[:]:
        if r["kind"] in ("post", "comb") and len(samples) < 6:
            samples.append({"obligation": r["name"], "kind": r["kind"], "clause": r["meta"].get("clause", ""),
                            "result": r["result"], "backend": r["backend"], "seconds": r["seconds"]})
    level = getattr(mod, "LEVEL", "proof")
    clean = not (broken or soft_broken or undecided or unknown or violations or known_lines or cover_fail)
    cov = {
        "obligations": n_ob, "discharged": n_dis,
        "checker_cmd": f"./check {prop} --tier {tier}",
        "trusted_base": TRUSTED,
        "functions_under_contract": sorted({f for c in ctxs for f in c.functions}),
        "contracts": [{"name": c.name, "units": [u.summary() for u in c.units], "ghosts": list(c.ghosts),
                       "requires": [n for n, _ in c.all_requires()], "invariant_conjuncts": [n for n, _ in c.invs],
                       "ensures": [{"name": n, "clause": cl} for n, _, cl in c.ensures],
                       "induction_k": c.induction_k, "skipped_conjuncts": c.degraded, **c.log} for c in ctxs],
        "by_backend": by_backend, "solver_seconds": round(solver_s, 2),
        "cvc5_crosscheck": {"sampled": sum(1 for r in results if "cvc5" in r["backend"] or "cross-check" in r["note"]),
                            "confirmed_unsat": sum(1 for r in results if r["backend"] == "z3+cvc5" and r["result"] == "unsat")},
        "obligation_kinds": {k: sum(1 for r in results if r["kind"] == k) for k in sorted({r["kind"] for r in results})},
        "covers": {"total": covers_total, "reached": covers_hit},
        "translation_validation_cycles": cosim_cycles,
        "undischarged": [r["name"] for r in unknown] + [r["name"] for fl in failed.values() for r in fl],
        "known_findings": known_lines,
        "samples": samples or [{"obligation": o.name} for o in obs[:3]],
        "explanation": getattr(mod, "EXPLANATION", "") or
        "Every obligation is a quantifier-free formula over the transition relation extracted from the real elaborate(); "
        "unsat = holds for all states, inputs and history lengths (1-induction over the clocked step).",
        "bounded_parts": getattr(mod, "BOUNDED", []),
    }
    if level == "proof" and not clean:
        level_out = "other"
    else:
        level_out = level
    ev = {"property_id": prop, "tier": tier, "seed": seed, "level": level_out, "coverage": cov,
          "assumptions": sorted({a for c in ctxs for a in c.assumptions} | set(getattr(mod, "ASSUMPTIONS", [])) |
                                {"domain synchronous reset input held low after power-on",
                                 "all clock domains of a unit tick together (one step = one edge)" }),
          "wall_s": round(wall, 2), "violations": len(violations)}
    evdir = "evidence_scratch" if os.environ.get("HWV_REPO") else "evidence"     # self-test runs never overwrite real evidence
    os.makedirs(os.path.join(ROOT, evdir), exist_ok=True)
    json.dump(ev, open(os.path.join(ROOT, evdir, f"{prop}.json"), "w"), indent=1, default=str)

    # ------------------------------------------------------------------ verdict
    print(f"[{prop}] tier={tier} contracts={len(ctxs)} obligations={n_ob} discharged={n_dis} "
          f"solver={solver_s:.1f}s wall={wall:.1f}s cosim_cycles={cosim_cycles}")
    if os.environ.get("HWV_VERBOSE"):
        for r in sorted(results, key=lambda r: -r["seconds"])[:8]:
            print(f"   slow: {r['seconds']:7.2f}s {r['result']:7s} {r['name']}")
    for l in known_lines:
        print(l)
    if broken:
        for b in broken:
            print("CHECKER-BROKEN:", b)
        return 3
    if not violations and (cover_fail or soft_broken):
        for b in cover_fail + soft_broken:
            print("CHECKER-BROKEN:", b)
        return 3
    if violations:
        for b in cover_fail + soft_broken:
            print("note:", b[:300])
        for f, path, reproduced in violations:
            m = f.get("model") or {}
            print(f"  failed obligation {f['name']} ({f['backend']}, {f['seconds']}s)")
            print(f"VIOLATION property={prop} replay={path}" + ("" if reproduced else " no-failing-input-found"))
        return 1
    if undecided or unknown:
        for u in undecided:
            print("UNDECIDED:", u)
        for r in unknown:
            print("UNDECIDED: obligation", r["name"], "->", r["note"])
        return 2
    return 0


def replay_file(path):
    os.chdir(ROOT)
    doc = json.load(open(path))
    prop = doc["property"]
    mod = load(prop)
    for entry in mod.contracts(doc.get("tier", "quick")):
        unit_name, cfg_name, fn = entry[:3]
        if unit_name == doc["unit"] and cfg_name == doc["cfg"]:
            c = Ctx(prop, unit_name, cfg_name, tier=doc.get("tier", "quick"))
            fn(c)
            break
    else:
        print("contract not found:", doc["contract"]); return 2
    print(f"replay of {doc['failed_obligation']} ({doc.get('clause','')})")
    if not doc.get("witness"):
        print("no input history recorded (no-failing-input-found); counter-model of the failed obligation:")
        print(json.dumps(doc.get("counter_model"), indent=1)[:4000])
        return 1
    rep = sim.replay(c, doc["witness"]["trace"])
    for row in rep["cycles"]:
        print(f"  t={row['t']:3d} in={row['inputs']} out={row['outputs']} ghosts={row['ghosts']} "
              f"requires_ok={row['requires_ok']} failed={row['failed_ensures']}")
    print("simulator agrees with extracted system:", rep["agree"], rep["mismatch"])
    if rep["violated"]:
        print(f"VIOLATION property={prop} replay={path}")
        return 1
    print("violation not reproduced")
    return 0


def cli(argv):
    if len(argv) >= 2 and argv[0] == "replay":
        return replay_file(argv[1])
    prop = argv[0]
    tier = os.environ.get("VERIF_TIER", "quick")
    if "--tier" in argv:
        tier = argv[argv.index("--tier") + 1]
    seed = int(os.environ.get("VERIF_SEED", "0") or 0)
    try:
        return main(prop, tier, seed)
    except SystemExit:
        raise
    except Exception:
        traceback.print_exc()
        print("CHECKER-BROKEN: exception in driver")
        return 3


if __name__ == "__main__":
    sys.exit(cli(sys.argv[1:]))
