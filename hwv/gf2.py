"""GF(2) affine normal form for XOR networks (CRCs, LFSRs).

Every bit of a term built from constants, variables, extract, concat, xor, not, and AND-with-constant is an affine
function over GF(2): (set of variable bits, constant).  Two such terms are equal for all inputs iff their normal forms
are identical.  Anything outside the fragment raises NonAffine (the obligation is then undecided, never 'proved').
If-then-else on a 1-bit selector is handled when both branches differ by a constant-free... no: it is handled by
Shannon expansion only when the selector is itself a variable bit and the branches are affine and equal up to the
selector (rare); otherwise NonAffine.
"""
import z3


class NonAffine(Exception):
    pass


def anf_bits(e, cache):
    key = e.get_id()
    if key in cache:
        return cache[key]
    k = e.decl().kind()
    ch = e.children()
    if z3.is_bool(e):
        raise NonAffine(f"bool term {e.decl().name()}")
    w = e.size()
    if z3.is_bv_value(e):
        v = e.as_long()
        r = [(frozenset(), (v >> i) & 1) for i in range(w)]
    elif z3.is_const(e) and k == z3.Z3_OP_UNINTERPRETED:
        r = [(frozenset([(str(e), i)]), 0) for i in range(w)]
    elif k == z3.Z3_OP_EXTRACT:
        hi, lo = e.params()
        r = anf_bits(ch[0], cache)[lo:hi + 1]
    elif k == z3.Z3_OP_CONCAT:
        r = []
        for c in reversed(ch):
            r = r + anf_bits(c, cache)
    elif k == z3.Z3_OP_BXOR:
        r = anf_bits(ch[0], cache)
        for c in ch[1:]:
            b = anf_bits(c, cache)
            r = [(x[0] ^ y[0], x[1] ^ y[1]) for x, y in zip(r, b)]
    elif k == z3.Z3_OP_BNOT:
        r = [(s, c ^ 1) for s, c in anf_bits(ch[0], cache)]
    elif k in (z3.Z3_OP_BAND, z3.Z3_OP_BOR) and any(z3.is_bv_value(c) for c in ch):
        consts = [c.as_long() for c in ch if z3.is_bv_value(c)]
        rest = [c for c in ch if not z3.is_bv_value(c)]
        if len(rest) != 1:
            raise NonAffine("and/or of two non-constants")
        a = anf_bits(rest[0], cache)
        if k == z3.Z3_OP_BAND:
            m = (1 << w) - 1
            for c in consts: m &= c
            r = [a[i] if (m >> i) & 1 else (frozenset(), 0) for i in range(w)]
        else:
            m = 0
            for c in consts: m |= c
            r = [(frozenset(), 1) if (m >> i) & 1 else a[i] for i in range(w)]
    elif k == z3.Z3_OP_ZERO_EXT:
        a = anf_bits(ch[0], cache)
        r = a + [(frozenset(), 0)] * (w - len(a))
    elif k == z3.Z3_OP_ITE and z3.is_bv(e) and w == 1 and z3.is_eq(ch[0]):
        # bv1(cond) patterns: If(x == 1, 1, 0) where x is a 1-bit affine term
        c0, a, b = ch
        l, rr = c0.children()
        if z3.is_bv_value(a) and z3.is_bv_value(b) and z3.is_bv(l) and l.size() == 1 and z3.is_bv_value(rr):
            x = anf_bits(l, cache)[0]
            pol = rr.as_long()
            if a.as_long() == 1 and b.as_long() == 0:
                r = [(x[0], x[1] ^ (pol ^ 1))]
            elif a.as_long() == 0 and b.as_long() == 1:
                r = [(x[0], x[1] ^ pol)]
            else:
                raise NonAffine("constant ite")
        else:
            raise NonAffine("ite")
    else:
        raise NonAffine(f"op {e.decl().name()}")
    cache[key] = r
    return r


def equal(impl, spec):
    """-> (True, '') if the two BV terms are the same affine function; (False, reason) if they differ.
    Raises NonAffine if either is outside the fragment."""
    cache = {}
    a, b = anf_bits(z3.simplify(impl) if False else impl, cache), anf_bits(spec, cache)
    if len(a) != len(b):
        return False, f"width {len(a)} != {len(b)}"
    for i, (x, y) in enumerate(zip(a, b)):
        if x != y:
            d = sorted(x[0] ^ y[0])
            return False, f"bit {i}: impl xor spec = {'1 ^ ' if x[1] != y[1] else ''}{d[:6]}{'...' if len(d) > 6 else ''}"
    return True, ""


def assignment(impl, spec):
    """A concrete assignment {var name: int} on which the two affine terms differ (all other variable bits 0)."""
    cache = {}
    a, b = anf_bits(impl, cache), anf_bits(spec, cache)
    for i, (x, y) in enumerate(zip(a, b)):
        if x != y:
            d = sorted(x[0] ^ y[0])
            out = {}
            if x[1] == y[1]:            # constants equal: flip exactly one variable of the symmetric difference
                n, bit = d[0]
                out[n] = 1 << bit
            return out
    return {}


def witness(impl, spec):
    """An input assignment on which impl != spec (both affine): set exactly one variable of the differing set."""
    cache = {}
    a, b = anf_bits(impl, cache), anf_bits(spec, cache)
    for i, (x, y) in enumerate(zip(a, b)):
        if x != y:
            d = sorted(x[0] ^ y[0])
            return {"bit": i, "set_bits": [d[0]] if (x[1] == y[1]) else []}
    return None
