#!/usr/bin/env python3
"""Regenerates MANIFEST.json from claims.json (one entry per claimed property) + properties.jsonl (for not_applicable)."""
import json, os
ROOT = os.path.dirname(os.path.abspath(__file__))
claims = json.load(open(os.path.join(ROOT, "claims.json")))
props = [json.loads(l) for l in open(os.path.join(ROOT, "properties.jsonl"))]
checks, na = [], []
for p in props:
    pid = p["id"]
    c = claims.get(pid)
    if c and c.get("claimed"):
        checks.append({
            "property_id": pid,
            "quick_cmd": f"./check {pid} --tier quick",
            "thorough_cmd": f"./check {pid} --tier thorough",
            "evidence_file": f"evidence/{pid}.json",
            "replay_cmd_template": "./check replay {path}",
            "engine": "hwv",
            "level_claimed": {"category": c.get("level", "proof"), "text": c["text"], "design_ref": c.get("design_ref", "DESIGN.md §6")},
            "level_note": c["note"],
            "technique": c.get("technique", "contract-based deductive verification: sidecar contracts (requires/ghost state/invariants/ensures) on the NIR netlist of the real elaborate(), obligations discharged by z3 (1-induction), GF(2) normaliser for XOR networks"),
        })
    else:
        na.append({"property_id": pid, "reason": (c or {}).get("reason", "not yet under contract in this session (work in progress); no claim is made")})
man = {
    "version": 1,
    "setup_cmd": "./setup.sh",
    "hooks": {"guard": "GREATSCOTTGADGETS_LUNA_VERIF", "enable": "no hooks are needed: contracts are sidecar files and read the netlist of the unmodified code",
              "baseline_off_cmd": "cd /repo && /venv/bin/python -m pytest -ra -q -p no:cacheprovider --timeout=900 --continue-on-collection-errors",
              "source_commits": [], "add_only": True},
    "engines": [{"name": "hwv", "path": "hwv/", "serves_properties": [c["property_id"] for c in checks],
                 "kind_free_text": "Amaranth NIR netlist of the real elaborate() -> z3 transition system; sidecar contracts; inductive obligations; BMC witness + pysim replay"}],
    "checks": checks,
    "not_applicable": na,
    "notes": "exit codes: 0 held, 1 violation (VIOLATION line), 2 undecided (solver unknown / binding error), 3 checker broken. known_findings.json lists fixed:/finding: entries.",
}
json.dump(man, open(os.path.join(ROOT, "MANIFEST.json"), "w"), indent=1)
print("claimed", len(checks), "not_applicable", len(na))
