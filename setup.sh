#!/bin/sh
# Builds /verif/.venv offline: python 3.12 venv (from /venv) + z3-solver, cvc5, jsonschema from the local wheelhouse,
# plus a .pth that exposes /venv's site-packages (amaranth, usb_protocol, editable luna -> /repo).
set -e
cd "$(dirname "$0")"
if [ ! -x .venv/bin/python ] || ! .venv/bin/python -c "import z3, jsonschema, amaranth, luna" 2>/dev/null; then
  rm -rf .venv
  /venv/bin/python -m venv .venv
  PIP_NO_INDEX=1 .venv/bin/pip install -q --no-index --find-links /opt/veriftools/wheels z3-solver jsonschema
  PIP_NO_INDEX=1 .venv/bin/pip install -q --no-index --find-links /opt/veriftools/wheels cvc5 || true
  echo "import site; site.addsitedir('/venv/lib/python3.12/site-packages')" > .venv/lib/python3.12/site-packages/_repo.pth
fi
.venv/bin/python -c "import z3, jsonschema, amaranth, luna; print('setup ok: z3', z3.get_version_string(), 'amaranth', amaranth.__version__, 'luna', luna.__file__)"
