"""C52 — The I2C initiator follows the I2C bus protocol (I2CInitiator + its I2CBusDriver, clk_stretch=True).

Statement: "SDA driven by the initiator changes while SCL is high only when generating a requested START or STOP
condition; a write clocks out the byte MSB first and reports the target's acknowledge bit, a read samples eight bits
while SCL is high and then drives the requested acknowledge, a target holding SCL low stretches the clock, and 'busy'
is low only when a new operation can be accepted."

Observables.  Pads are the open-drain record the class exposes (I2CBus): `scl.i`, `sda.i` are free inputs (the wired-AND
bus as the target / pull-ups make it), `scl.oe`, `sda.oe` (with `o` tied to 0) are what the initiator drives:
    scl_o := ~scl.oe   (1 = SCL released by the initiator, 0 = pulled low)        sda_o := ~sda.oe
"SCL is high" can only be true while the initiator releases it, so the SDA clause is stated with scl_o (stronger:
for any behaviour of the line).  What the initiator *sees* is the pad two clocks ago (its 2-FF synchroniser):
    scl_seen, sda_seen := pad input delayed by two cycles          (ghost pipelines of the pad inputs)

Spec ghosts (all defined from inputs/outputs):
    op        : NONE/START/STOP/WRITE/READ — the operation accepted (busy low and a strobe; priority start > stop > write >
                read if several are raised together, the statement is silent on that), kept while busy
    g_data, g_ack : data_i / ack_i in the accept cycle
    rise      : scl_o was 0 in the previous cycle and is 1 now (initiator released SCL)
    armed     : SCL was released by the initiator and it has not yet been seen high since (rise or still waiting)
    sample    : scl_o = 1 and scl_seen = 1 and armed — the cycle in which the initiator may take the bit of this SCL pulse
    nsamp     : number of SCL pulses sampled in this operation (0..9)
    g_rx      : shift register of sda_seen at the sample cycles of the first eight pulses of a read (MSB first)

Assumption (documented interface, "When busy is low, asserting X for one cycle ...; ignored when busy is high"):
strobes are only raised while busy is low.  [Remark, not a clause of C52: the class does accept a strobe in the single
cycle in which its FSM is back in IDLE but busy has not yet fallen, contrary to "ignored when busy is high".]

Not covered: liveness (an operation completes) — needs fairness of the target releasing SCL; clk_stretch=False (the
statement's clock-stretching clause presupposes the default clk_stretch=True); bus timing (period) — not in the statement;
that a `start` request results in a START condition when SDA is already held low by the initiator (not in the statement).
"""
import z3
from hwv.contract import B, bits, zx, bvc
from luna.gateware.interface.i2c import I2CBus, I2CInitiator

LEVEL = "proof"
EXPLANATION = ("Real I2CInitiator (with its I2CBusDriver and synchronisers) on an open I2CBus pad record, clk_stretch=True, "
               "several period_cyc. Ghosts from pads/strobes only (accepted operation, SCL pulses released/seen high, sample "
               "points, received bits). Invariant: each of the 25 FSM states <-> operation kind, pulse count, bit counter, "
               "shift registers, SCL/SDA drive values. Ensures: SDA changes with SCL released only in START (falling) / STOP "
               "(rising) operations; write bit k = data[7-k] at the sample point of pulse k, SDA released on pulse 9 and ack_o "
               "= ~SDA seen there; read releases SDA for 8 pulses, data_o = the 8 values of SDA seen at the sample points "
               "(SCL seen high), pulse 9 drives ~ack_i; after releasing SCL nothing advances until SCL is seen high; busy low "
               "=> a strobe is accepted in that cycle, busy falls only after pulse 9 / START / STOP done. Unbounded 1-induction.")
ASSUMPTIONS = ["strobes start/stop/write/read are raised only while busy is low (documented interface)",
               "the 'sync' domain reset is not asserted", "clk_stretch=True; period_cyc >= 4",
               "liveness (operations terminate) not claimed"]

NONE, START, STOP, WRITE, READ = range(5)
GROUP = {
    START: ["START-SCL-L", "START-SDA-H", "START-SCL-H", "START-SDA-L"],
    STOP: ["STOP-SCL-L", "STOP-SDA-L", "STOP-SCL-H", "STOP-SDA-H"],
    WRITE: ["WRITE-DATA-SCL-L", "WRITE-DATA-SDA-X", "WRITE-DATA-SCL-H", "WRITE-DATA-SDA-N",
            "WRITE-ACK-SCL-L", "WRITE-ACK-SDA-H", "WRITE-ACK-SCL-H", "WRITE-ACK-SDA-N"],
    READ: ["READ-DATA-SCL-L", "READ-DATA-SDA-H", "READ-DATA-SCL-H", "READ-DATA-SDA-N",
           "READ-ACK-SCL-L", "READ-ACK-SDA-X", "READ-ACK-SCL-H", "READ-ACK-SDA-N"],
}
SCL_H = ["START-SCL-H", "STOP-SCL-H", "WRITE-DATA-SCL-H", "WRITE-ACK-SCL-H", "READ-DATA-SCL-H", "READ-ACK-SCL-H"]
DATA_SCL_H = ["WRITE-DATA-SCL-H", "WRITE-ACK-SCL-H", "READ-DATA-SCL-H", "READ-ACK-SCL-H"]
# states that change SDA and must do so with SCL pulled low
SDA_WITH_SCL_LOW = ["START-SDA-H", "STOP-SDA-L", "WRITE-DATA-SDA-X", "WRITE-ACK-SDA-H", "READ-DATA-SDA-H", "READ-ACK-SDA-X"]


def make(period_cyc, deep=False):
    def contract(c):
        pads = I2CBus()
        d = I2CInitiator(pads, period_cyc=period_cyc, clk_stretch=True)
        P4 = period_cyc // 4
        assert P4 >= 1
        ts = c.unit(d, {"start": d.start, "stop": d.stop, "write": d.write, "read": d.read, "data_i": d.data_i,
                        "ack_i": d.ack_i, "busy": d.busy, "ack_o": d.ack_o, "data_o": d.data_o,
                        "scl_pad_i": pads.scl.i, "sda_pad_i": pads.sda.i, "scl_pad_o": pads.scl.o,
                        "scl_pad_oe": pads.scl.oe, "sda_pad_o": pads.sda.o, "sda_pad_oe": pads.sda.oe})
        I, O = ts.inputs, ts.outputs
        one, zero = bvc(1, 1), bvc(0, 1)
        scl_o, sda_o = ~O["scl_pad_oe"], ~O["sda_pad_oe"]
        busy = O["busy"] == 1

        # ---- what the initiator sees: pads two cycles ago
        scl_s1 = c.ghost("scl_pad_1_ago", 1, init=1); scl_seen = c.ghost("scl_seen", 1, init=1)
        sda_s1 = c.ghost("sda_pad_1_ago", 1, init=1); sda_seen = c.ghost("sda_seen", 1, init=1)
        c.set_next(scl_s1, I["scl_pad_i"]); c.set_next(scl_seen, scl_s1)
        c.set_next(sda_s1, I["sda_pad_i"]); c.set_next(sda_seen, sda_s1)
        sclH = scl_seen == 1

        # ---- accepted operation
        anyreq = z3.Or(I["start"] == 1, I["stop"] == 1, I["write"] == 1, I["read"] == 1)
        kind = z3.If(I["start"] == 1, bvc(START, 3), z3.If(I["stop"] == 1, bvc(STOP, 3),
               z3.If(I["write"] == 1, bvc(WRITE, 3), z3.If(I["read"] == 1, bvc(READ, 3), bvc(NONE, 3)))))
        accept = z3.And(z3.Not(busy), anyreq)
        op = c.ghost("op", 3, init=NONE)
        g_data = c.ghost("g_data", 8, init=0)
        g_ack = c.ghost("g_ack", 1, init=0)
        c.set_next(op, z3.If(z3.Not(busy), kind, op))
        c.set_next(g_data, z3.If(z3.And(accept, kind == WRITE), I["data_i"], g_data))
        c.set_next(g_ack, z3.If(z3.And(accept, kind == READ), I["ack_i"], g_ack))
        c.require("strobes_only_when_not_busy", z3.Implies(busy, z3.Not(anyreq)),
                  why="documented interface of I2CInitiator: strobes are asserted for one cycle when busy is low (ignored when high)")

        # ---- SCL pulses
        p_scl = c.ghost("scl_o_prev", 1, init=1)
        waiting = c.ghost("waiting_for_scl_high", 1, init=0)
        nsamp = c.ghost("pulses_sampled", 4, init=0)
        g_rx = c.ghost("g_rx", 8, init=0)
        rise = z3.And(p_scl == 0, scl_o == 1)
        armed = z3.Or(rise, waiting == 1)
        sample = z3.And(scl_o == 1, sclH, armed)
        c.set_next(p_scl, scl_o)
        c.set_next(waiting, z3.If(z3.And(scl_o == 1, armed, z3.Not(sclH)), one, zero))
        c.set_next(nsamp, z3.If(z3.Not(busy), bvc(0, 4), z3.If(z3.And(sample, nsamp != 15), nsamp + 1, nsamp)))
        c.set_next(g_rx, z3.If(z3.And(busy, op == READ, sample, z3.ULT(nsamp, 8)), z3.Concat(bits(g_rx, 6, 0), sda_seen), g_rx))

        # ---- refinement map
        fsm = ts.fsm("fsm_state")
        st = fsm.is_
        of = ts.of
        bitno, w_shreg, r_shreg, r_ack, timer = ts.sig("bitno"), ts.sig("w_shreg"), ts.sig("r_shreg"), ts.sig("r_ack"), ts.sig("timer")
        c.inv("fsm_legal", fsm.legal())
        c.inv("driver_scl_is_pad_enable", of(d.bus.scl_o) == scl_o)
        c.inv("driver_sda_is_pad_enable", of(d.bus.sda_o) == sda_o)
        c.inv("synchronised_scl", of(d.bus.scl_i) == scl_seen)
        c.inv("synchronised_sda", of(d.bus.sda_i) == sda_seen)
        for p in ts.find("stage0"):                     # first stage of each 2-FF synchroniser, identified by its sibling output
            pre = p[:-len("stage0")]
            if pre + "sda_i" in ts.paths:
                c.inv("synchroniser_stage0_sda", ts.sig(p) == sda_s1)
            elif pre + "scl_i" in ts.paths:
                c.inv("synchroniser_stage0_scl", ts.sig(p) == scl_s1)
        c.inv("not_busy_implies_idle", z3.Implies(z3.Not(busy), st("IDLE")))
        c.inv("op_legal", z3.ULE(op, READ))
        c.inv("pulses_at_most_9", z3.Implies(z3.Or(op == WRITE, op == READ), z3.ULE(nsamp, 9)))
        for k, states in GROUP.items():
            c.inv(f"op_of_{['', 'start', 'stop', 'write', 'read'][k]}_states", z3.Implies(st(*states), z3.And(op == k, busy)))
        c.inv("idle_scl_released", z3.Implies(st("IDLE"), scl_o == 1))
        c.inv("idle_bitno_zero", z3.Implies(st("IDLE", *GROUP[START], *GROUP[STOP]), bitno == 0))
        c.inv("idle_after_start", z3.Implies(z3.And(st("IDLE"), busy, op == START), sda_o == 0))
        c.inv("idle_after_stop", z3.Implies(z3.And(st("IDLE"), busy, op == STOP), z3.And(sda_o == 1, scl_o == 1)))
        c.inv("idle_after_byte", z3.Implies(z3.And(st("IDLE"), busy, z3.Or(op == WRITE, op == READ)), nsamp == 9))
        c.inv("idle_after_none", z3.Implies(z3.And(st("IDLE"), busy, op == NONE), z3.And(nsamp == 0, sda_o == 1)))
        non_scl_h = [s for s in fsm.states if s not in SCL_H]
        c.inv("armed_only_in_scl_high_states", z3.Implies(st(*non_scl_h), z3.Not(armed)))
        c.inv("data_scl_high_released_means_armed", z3.Implies(z3.And(st(*DATA_SCL_H), scl_o == 1), armed))
        c.inv("timer_reloaded_while_waiting", z3.Implies(z3.And(st(*SCL_H), scl_o == 1, armed), zx(timer, 16) == P4))
        c.inv("sda_changes_prepared_with_scl_low", z3.Implies(st(*SDA_WITH_SCL_LOW), scl_o == 0))
        c.inv("scl_high_after_sample_states", z3.Implies(st("START-SDA-L", "STOP-SDA-H", "WRITE-DATA-SDA-N", "WRITE-ACK-SDA-N",
                                                          "READ-DATA-SDA-N", "READ-ACK-SDA-N"), scl_o == 1))
        n3 = bits(nsamp, 2, 0)
        shifted = g_data << zx(nsamp, 8)
        # write, data bits
        c.inv("write_data_pre", z3.Implies(st("WRITE-DATA-SCL-L", "WRITE-DATA-SDA-X", "WRITE-DATA-SCL-H"),
                                           z3.And(z3.ULE(nsamp, 7), bitno == n3, w_shreg == shifted)))
        c.inv("write_data_bit_on_sda", z3.Implies(st("WRITE-DATA-SCL-H"), sda_o == bits(shifted, 7)))
        c.inv("write_data_post", z3.Implies(st("WRITE-DATA-SDA-N"), z3.And(z3.UGE(nsamp, 1), z3.ULE(nsamp, 8),
                                            zx(bitno, 4) + 1 == nsamp, w_shreg == shifted)))
        c.inv("write_ack_pre", z3.Implies(st("WRITE-ACK-SCL-L", "WRITE-ACK-SDA-H", "WRITE-ACK-SCL-H"), z3.And(nsamp == 8, bitno == 0)))
        c.inv("write_ack_sda_released", z3.Implies(st("WRITE-ACK-SCL-H"), sda_o == 1))
        c.inv("write_ack_post", z3.Implies(st("WRITE-ACK-SDA-N"), z3.And(nsamp == 9, bitno == 0)))
        # read
        c.inv("received_bits", r_shreg == g_rx)
        c.inv("read_ack_latched", z3.Implies(st(*GROUP[READ]), r_ack == g_ack))
        c.inv("read_data_pre", z3.Implies(st("READ-DATA-SCL-L", "READ-DATA-SDA-H", "READ-DATA-SCL-H"), z3.And(z3.ULE(nsamp, 7), bitno == n3)))
        c.inv("read_data_sda_released", z3.Implies(st("READ-DATA-SCL-H", "READ-DATA-SDA-N"), sda_o == 1))
        c.inv("read_data_post", z3.Implies(st("READ-DATA-SDA-N"), z3.And(z3.UGE(nsamp, 1), z3.ULE(nsamp, 8), zx(bitno, 4) + 1 == nsamp)))
        c.inv("read_ack_pre", z3.Implies(st("READ-ACK-SCL-L", "READ-ACK-SDA-X", "READ-ACK-SCL-H"), z3.And(nsamp == 8, bitno == 0)))
        c.inv("read_ack_on_sda", z3.Implies(st("READ-ACK-SCL-H"), sda_o == ~g_ack))
        c.inv("read_ack_post", z3.Implies(st("READ-ACK-SDA-N"), z3.And(nsamp == 9, bitno == 0)))

        # ---- ensures
        sda_changes = c.nx(sda_o) != sda_o
        c.comb("pads_are_open_drain", z3.Concat(O["scl_pad_o"], O["sda_pad_o"]), bvc(0, 2),
               clause="SDA (and SCL) driven by the initiator: open drain, the pads are only ever pulled low or released")
        c.ensure("sda_changes_with_scl_high_only_for_start_stop",
                 z3.Implies(z3.And(sda_changes, scl_o == 1), z3.And(busy, z3.Or(op == START, op == STOP))),
                 clause="SDA driven by the initiator changes while SCL is high only when generating a requested START or STOP condition")
        c.ensure("start_is_falling_stop_is_rising", z3.Implies(z3.And(sda_changes, scl_o == 1),
                 z3.And(z3.Implies(op == START, c.nx(sda_o) == 0), z3.Implies(op == STOP, c.nx(sda_o) == 1), c.nx(scl_o) == 1)),
                 clause="... a START (SDA falling) for a requested start, a STOP (SDA rising) for a requested stop, SCL kept released")
        c.ensure("bus_quiet_when_not_busy", z3.Implies(z3.Not(busy), z3.And(c.nx(sda_o) == sda_o, c.nx(scl_o) == scl_o, scl_o == 1)),
                 clause="no bus activity without a requested operation")
        wr = z3.And(busy, op == WRITE, sample)
        rd = z3.And(busy, op == READ, sample)
        c.ensure("write_bit_k_is_data_bit_7_minus_k", z3.Implies(z3.And(wr, z3.ULT(nsamp, 8)), sda_o == bits(g_data << zx(nsamp, 8), 7)),
                 clause="a write clocks out the byte MSB first: on the k-th SCL pulse (k = 0..7), when SCL is seen high, SDA carries bit 7-k of the byte given with the request")
        c.ensure("write_data_stable_while_scl_released", z3.Implies(z3.And(busy, op == WRITE, scl_o == 1), c.nx(sda_o) == sda_o),
                 clause="a write clocks out the byte: the bit is held for the whole SCL-high time")
        c.ensure("write_reports_target_acknowledge", z3.Implies(z3.And(wr, nsamp == 8), z3.And(sda_o == 1, c.nx(O["ack_o"]) == ~sda_seen)),
                 clause="... and reports the target's acknowledge bit: on the ninth pulse SDA is released and ack_o := not SDA as seen while SCL is high")
        c.ensure("ack_o_changes_only_at_write_acknowledge", z3.Implies(c.nx(O["ack_o"]) != O["ack_o"], z3.And(wr, nsamp == 8)),
                 clause="ack_o is the acknowledge bit of the last write (unchanged otherwise)")
        c.ensure("write_has_exactly_nine_pulses", z3.Implies(z3.And(busy, z3.Or(op == WRITE, op == READ)), z3.And(
                 z3.ULE(nsamp, 9), z3.Implies(c.nx(O["busy"]) == 0, nsamp == 9), z3.Implies(nsamp == 9, c.nx(scl_o) == scl_o))),
                 clause="a byte transfer is eight data pulses and one acknowledge pulse; busy falls only after the ninth")
        c.ensure("read_releases_sda_while_sampling", z3.Implies(z3.And(rd, z3.ULT(nsamp, 8)), sda_o == 1),
                 clause="a read samples eight bits (SDA released by the initiator) ...")
        c.ensure("read_samples_only_while_scl_seen_high", z3.Implies(c.nx(g_rx) != g_rx, z3.And(rd, sclH, scl_o == 1, z3.ULT(nsamp, 8))),
                 clause="... while SCL is high (each bit is SDA as seen in a cycle where SCL is released and seen high, once per pulse)")
        c.ensure("read_then_drives_requested_acknowledge", z3.Implies(z3.And(rd, nsamp == 8), z3.And(sda_o == ~g_ack, c.nx(O["data_o"]) == g_rx)),
                 clause="... and then drives the requested acknowledge (SDA low iff ack_i was high at the request) on the ninth pulse; data_o := the eight sampled bits, first bit = MSB")
        c.ensure("read_ack_stable_while_scl_released", z3.Implies(z3.And(busy, op == READ, scl_o == 1), c.nx(sda_o) == sda_o),
                 clause="the acknowledge is held for the whole SCL-high time")
        c.ensure("data_o_changes_only_at_read_acknowledge", z3.Implies(c.nx(O["data_o"]) != O["data_o"], z3.And(rd, nsamp == 8)),
                 clause="data_o is the octet of the last read (unchanged otherwise)")
        stretched = z3.And(busy, scl_o == 1, armed, z3.Not(sclH))
        c.ensure("stretching_target_holds_the_initiator", z3.Implies(stretched, z3.And(
                 c.nx(scl_o) == 1, c.nx(sda_o) == sda_o, c.nx(O["busy"]) == 1, c.nx(O["ack_o"]) == O["ack_o"],
                 c.nx(O["data_o"]) == O["data_o"], c.nx(nsamp) == nsamp, c.nx(g_rx) == g_rx, c.nx(waiting) == 1)),
                 clause="a target holding SCL low stretches the clock: after releasing SCL the initiator does nothing until it sees SCL high")
        c.ensure("scl_not_pulled_low_before_seen_high", z3.Implies(z3.And(busy, scl_o == 1, armed, z3.Not(sample)), c.nx(scl_o) == 1),
                 clause="a target holding SCL low stretches the clock: the pulse is not ended before SCL was seen high")
        c.ensure("busy_low_means_request_accepted_now", z3.Implies(z3.Not(busy), z3.And(
                 (c.nx(O["busy"]) == 1) == anyreq, c.nx(nsamp) == 0,
                 z3.Implies(I["write"] == 1, z3.Implies(kind == WRITE, c.nx(g_data) == I["data_i"])))),
                 clause="'busy' is low only when a new operation can be accepted: a strobe raised while busy is low starts that operation in this very cycle")
        c.ensure("busy_falls_only_when_operation_done", z3.Implies(z3.And(busy, c.nx(O["busy"]) == 0), z3.And(
                 scl_o == 1, z3.Not(armed),
                 z3.Implies(op == START, sda_o == 0), z3.Implies(op == STOP, sda_o == 1),
                 z3.Implies(z3.Or(op == WRITE, op == READ), nsamp == 9))),
                 clause="busy stays high until the operation (START/STOP generated, nine pulses of a byte) is finished")

        # ---- covers
        c.cover_depth = 40        # the ninth pulse of a byte is > 70 cycles from reset even at period_cyc=4: BMC to that depth exceeded
                                  # the time budget, so the two acknowledge-pulse covers are Inv-and-Req satisfiability guards only
        near = P4 <= 4                                  # BMC-reachable within the cover depth only for short quarter periods
        c.cover("start_condition", z3.And(sda_changes, scl_o == 1, op == START), reach=near)
        c.cover("stretch_happens", z3.And(stretched, op == START), reach=near)
        c.cover("write_first_bit_sampled", z3.And(wr, nsamp == 0, g_data == 0xA5), reach=(P4 == 1))
        c.cover("write_ack_sampled", z3.And(wr, nsamp == 8, sda_seen == 0), reach=deep)
        c.cover("read_ack_pulse", z3.And(rd, nsamp == 8, g_ack == 1, g_rx == 0x3C), reach=deep)
        c.cover("stop_condition", z3.And(sda_changes, scl_o == 1, op == STOP), reach=near)
        c.cover("stretch_in_write", z3.And(stretched, op == WRITE, nsamp == 3), reach=(deep or P4 == 1))
    return contract


def contracts(tier):
    periods = [4, 8] if tier == "quick" else [4, 5, 8, 16, 100]
    for p in periods:
        yield ("I2CInitiator", f"period{p}_stretch", make(p))
    # caller-side: the tree's one user of the initiator (I2CRegisterInterface) raises strobes only while busy is low, which is
    # the leaf contract's one `require`: contracts/w6_util_wrappers.py
    from contracts.w6_util_wrappers import i2c_wrapper_contracts
    yield from i2c_wrapper_contracts(tier)
