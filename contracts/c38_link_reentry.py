"""C38 — link re-entry always re-advertises sequence number and credits (HeaderPacketReceiver).

Same model as C37 (contracts/c37_header_receive.py: the real HeaderPacketReceiver with its real LinkCommandGenerator, the raw
header receiver used through its contract), but with `enable` and `usb_reset` free: a *link-down event* is a falling edge of
enable or a cycle with usb_reset = 1, at any time — in particular while an LGOOD, LCRD, LBAD, LRTY or keep-alive is being sent.

Spec side (all ghosts are driven by port-level events and by the link-command call interface): `advertisement_owed` is set by a
link-down event (and at power-on) and cleared when the next link command is handed to the generator; the session counters
(headers accepted / delivered, LGOODs, LCRDs) restart at a link-down event; `last_received_seq` is the sequence number of the
last accepted header (7, i.e. -1, after a USB reset).

Ensures (statement): the command that clears `advertisement_owed` is an LGOOD whose subtype is the last received sequence
number, and at that moment the receive state is fresh (one LGOOD pending, all four credits to issue starting with A, no buffered
header, pointers zero, nothing ignored, no LBAD/LRTY pending); LCRDs are numbered A,B,C,D from the advertisement on and are never
sent before it; no header of the previous session is offered once the unit has re-initialised.

Environment: outside U0 (enable low / usb_reset high) no header packets or link commands arrive; the partner respects credits.
"""
import z3
from hwv.contract import B, bvc, bits, bv1, zx
from .c37_header_receive import HPRModel, LGOOD, LCRD, LBAD, LRTY, LXU, LUP, G_IDLE, N


def reentry(c):
    m = HPRModel(c, u0_only=False)
    I, O, ts = m.I, m.O, m.ts
    S = ts.sig
    fresh = z3.And(m.acks == 1, m.creds == N, m.filled == 0, S("read_pointer") == 0, S("write_pointer") == 0,
                   S("next_credit_to_issue") == 0, S("ignore_packets") == 0, S("lbad_pending") == 0, S("lrty_pending") == 0,
                   S("expected_sequence_number") == m.last_seq + 1, O["queue_valid"] == 0)
    c.ensure("first_command_after_reentry_is_lgood_with_last_received_sequence_number",
             z3.Implies(m.adv_good, z3.And(m.gcmd == LGOOD, m.gsub == zx(m.last_seq, 4))),
             clause="Every time the link layer is re-enabled after leaving U0, or after a USB reset, the header receiver begins by "
                    "sending one LGOOD advertising the last received sequence number ... regardless of which link command it was "
                    "sending when the link went down or the reset arrived")
    c.ensure("receive_state_is_fresh_at_the_advertisement", z3.Implies(m.adv_good, fresh),
             clause="... and its receive state is fresh (one LGOOD pending, credits for all buffers to issue from A, buffers empty, "
                    "pointers zero, not ignoring, no LBAD / LRTY pending)")
    c.ensure("exactly_one_advertisement_lgood", z3.Implies(m.adv_good, z3.And(c.nx(m.owed) == z3.If(m.down, bvc(1, 1), bvc(0, 1)),
                                                                             c.nx(m.n_good) == 0)),
             clause="one LGOOD [advertisement; every later LGOOD acknowledges a header]")
    c.ensure("followed_by_credits_for_all_buffers_in_order", z3.And(
        z3.Implies(m.lcrd_start, z3.And(m.owed == 0, m.gsub == zx(bits(m.n_lcrd, 1, 0), 4))),
        z3.Implies(z3.And(m.settled, m.owed == 0, m.n_acc == 0, m.n_out == 0), zx(m.creds, 16) + m.n_lcrd -
                   z3.If(z3.And(m.gph != G_IDLE, m.cur_cmd == LCRD), bvc(1, 16), bvc(0, 16)) == N)),
        clause="... followed by LCRD credits for all of its buffers (never before the LGOOD; numbered A,B,C,D from A; issued plus "
               "still-to-issue credits = buffer count)")
    c.ensure("nothing_else_is_started_before_the_advertisement", z3.Implies(z3.And(m.cmd_start, m.gcmd != LGOOD), m.owed == 0),
             clause="begins by sending one LGOOD (no LCRD, LBAD, LRTY, keep-alive or LXU is started first)")
    c.ensure("advertisement_is_dispatched_only_while_enabled", z3.Implies(z3.And(m.cmd_start, m.owed == 1), m.prev_en == 1),
             clause="Every time the link layer is re-enabled ... begins by sending (the advertisement is dispatched only in a cycle in "
                    "which the unit is enabled; it is handed to the generator in the next cycle)")
    c.ensure("no_stale_header_after_reinitialisation", z3.Implies(z3.And(m.settled, m.owed == 1), O["queue_valid"] == 0),
             clause="its receive state is fresh (no header of the previous link session is offered any more)")
    for st, cmd in (("SEND_ACKS", "lgood"), ("ISSUE_CREDITS", "lcrd"), ("SEND_LBAD", "lbad"), ("SEND_LRTY", "lrty"), ("SEND_KEEPALIVE", "keepalive")):
        c.cover(f"link_goes_down_while_sending_{cmd}", z3.And(m.fsm.is_(st), m.gph != G_IDLE, m.down))
    c.cover("usb_reset_while_sending", z3.And(m.fsm.is_("ISSUE_CREDITS"), I["usb_reset"] == 1, m.gph != G_IDLE))
    c.cover("readvertisement", z3.And(m.adv_good, m.last_seq == 1))
    c.cover_depth = 30
    c.timeout_s = max(c.timeout_s, 240)


def link_layer_reentry_wiring(c):
    """Caller side (real USB3LinkLayer): 'leaving U0' / 're-enabled' / 'USB reset' of the statement are what the receiver's enable and
    usb_reset inputs carry, the link commands of the re-advertisement go to the physical layer, and the receiver (and the link
    command detector whose LRTY / LBAD reports it uses) keep looking at the receive stream."""
    from .c37_header_receive import LinkLayerUnits, lemmas_enable_and_reset, lemmas_link_commands_reach_the_phy, lemmas_receive_stream
    U = LinkLayerUnits(c)
    lemmas_enable_and_reset(c, U, U.hrx, "header_receiver", "Every time the link layer is re-enabled after leaving U0, or after a USB reset")
    lemmas_enable_and_reset(c, U, U.ptx, "packet_transmitter", "the transmitter (which hosts the link command detector) follows the same link state")
    lemmas_link_commands_reach_the_phy(c, U)
    lemmas_receive_stream(c, U, [("header_receiver", U.hrx.sink), ("raw_header_receiver", U.raw.sink), ("link_command_detector", U.det.sink)],
                          clause="receive side of the header receiver")


def contracts(tier):
    yield ("HeaderPacketReceiver", "reentry", reentry)
    yield ("USB3LinkLayer", "wiring_enable_reset", link_layer_reentry_wiring)


LEVEL = "proof"
EXPLANATION = ("Unbounded inductive proof on the real HeaderPacketReceiver with enable / usb_reset free. On the unchanged tree the check "
               "reports a genuine defect (the re-initialisation block is only evaluated in DISPATCH_COMMAND; the advertised number is "
               "next_header_to_ack-1 rather than the last received number); proposed_fixes/C38_restart_advertisement_from_any_state.diff "
               "makes every obligation pass.")
ASSUMPTIONS = ["no header packets / link commands are received while the link is down", "partner respects credits (as C37)"]
