"""C11 — bulk/interrupt IN endpoints deliver the stream exactly once, in order.

Units: the real USBStreamInEndpoint (with its USBInTransferManager inside; `active` = token endpoint == N, ZLPs on) and
the bare USBInTransferManager (`active`, `generate_zlps` free inputs), max packet sizes by enumeration; and the real
USBMultibyteStreamInEndpoint (byte_width 2, 4; 3 in thorough) at the boundary between its wide stream and the byte stream of
the USBStreamInEndpoint inside it (see multibyte()).

Observer-level ghosts (functions of the unit's inputs/outputs only)
    n_in     input bytes accepted so far (transfer_stream valid & ready), 16-bit modular
    n_ack    bytes contained in packets the host has ACKed so far, 16-bit modular
    ph       IDLE: no transmission in progress / SENDING: a data packet is being transmitted / AWAIT: a complete packet
             (or ZLP) was sent and the handshake is outstanding
    retry    the outstanding packet was not ACKed before the host's next token: the next IN token must repeat it
    gpos     bytes of the packet attempt in progress taken by the transmitter
    plen     length of the outstanding packet (fixed by its first complete transmission)
    exp_pid  the DATAx toggle the next *new* packet must carry (DATA0 after reset; flips with every ACKed packet)
    fresh    first cycle of a packet attempt
    tail_last, zlp_due   was the most recently accepted byte marked `last`; a ZLP is due although nothing is unacknowledged
  symbolic witness (data-independence argument; k is arbitrary but fixed):
    k        a stream position (mod 2^16);  v, vl: payload and `last` flag of the input byte accepted at position k
    zlp_owed the packet ending in byte k was full-size, ended its transfer and was ACKed: a ZLP must follow

How the clauses give the statement.  Every packet attempt carries PID exp_pid; exp_pid flips exactly when a completely
sent packet is ACKed; so a retry has the same PID and the host (taking each toggled packet once) takes the packets in the
order the device completes them.  The j-th byte of every attempt is the input byte at position n_ack + j (witness clause,
k arbitrary), attempts are complete (`last` exactly at byte plen-1, same plen on retries) and n_ack advances by plen on
ACK: the concatenation of the ACKed packets is a gap-free prefix of the input stream and retries repeat the payload.

Environment assumptions (each listed in the evidence):
  * no PID-sequence reset (clear-halt): reset_sequence is C14's subject.
  * `discard`: a FREE input for every USBInTransferManager configuration and for the USBStreamInEndpoint configurations
    with max packet size <= 8 (held 0 for the larger endpoint sizes and in C14).  Spec side: a discard cycle forgets
    everything accepted up to and including that cycle (n_ack := n_in, no attempt outstanding, no retry, zlp_due / zlp_owed
    cleared, lal := 0); exp_pid flips only when the discard hits a completely sent packet whose handshake is outstanding
    (the code leaves the PID advanced there and undoes the toggle of a merely prepared packet).  Ensures under discard:
    nothing driven in a discard cycle; in the next cycle transfer_stream.ready is high, nothing is valid and an IN token
    without newly offered data is NAKed; no ZLP until a packet of new data was ACKed (ghost dz); data bytes sent later are
    input bytes at positions >= the discard position (position clause); PID after discard.
    NOT specified (two code defects, excluded by requires marked FINDING): a byte marked `last` offered in a discard cycle
    (ready is not gated by discard: the emptied write buffer stays 'ended' -> ready stuck low / spurious ZLP), and discard
    while a data packet is being transmitted (SEND_PACKET ignores discard, fill count zeroed: `last` never comes).
    A non-`last` byte accepted in a discard cycle is specified: it is dropped.
  * an ACK strobe and a token strobe never coincide (C01/C04 ensures, same receive path).
  * the transmitter does not take a byte in the very first cycle a packet is offered: USBDataPacketGenerator keeps
    stream.ready low in IDLE and SEND_PID, i.e. for at least two cycles after valid&first appears.  (Without it the
    synchronous read port may still show the byte addressed one cycle earlier: an IN token answered in the first cycle
    of WAIT_TO_SEND starts SEND_PACKET before send_position=0 has been read.)
"""
import re
import z3
from hwv.contract import B, bvc, bits, zx
from luna.gateware.usb.usb2.transfer import USBInTransferManager
from luna.gateware.usb.usb2.endpoints.stream import USBStreamInEndpoint

LEVEL = "proof"
EXPLANATION = ("1-induction on the netlists of the real USBStreamInEndpoint / USBInTransferManager: FSM, double-buffer fill "
               "counters, PID register, read port and both buffer memories are related to observer-level ghosts (bytes in, "
               "bytes ACKed, attempt phase, expected toggle) and to a symbolic witness byte (position k, value v).")
ASSUMPTIONS = [
    "C11: reset_sequence / clear_endpoint_halt=0 (C14 covers the reset); discard=0 only for USBStreamInEndpoint sizes > 8",
    "C11 (discard free): no byte marked `last` is offered in a discard cycle -- FINDING, the code mishandles it (ready not gated by discard)",
    "C11 (discard free): discard is not raised while a data packet is being transmitted -- FINDING, SEND_PACKET ignores discard",
    "C11: ACK strobe and token strobe never coincide (C01/C04)",
    "C11: packet_stream.ready is low in the first cycle of a packet attempt (USBDataPacketGenerator: ready=0 in IDLE/SEND_PID)",
]

IDLE, SENDING, AWAIT = 0, 1, 2
NW = 16


class View:
    """The real unit + all terms the C11/C14 contracts talk about."""

    def __init__(self, c, kind, MAX, epnum=2):
        self.MAX, self.kind = MAX, kind
        if kind == "endpoint":
            d = USBStreamInEndpoint(endpoint_number=epnum, max_packet_size=MAX)
            itf = d.interface
            ports = {
                "i_valid": d.stream.valid, "i_payload": d.stream.payload, "i_last": d.stream.last, "o_ready": d.stream.ready,
                "i_flush": d.flush, "i_discard": d.discard,
                "i_tok_endpoint": itf.tokenizer.endpoint, "i_tok_is_in": itf.tokenizer.is_in,
                "i_tok_rfr": itf.tokenizer.ready_for_response, "i_tok_new": itf.tokenizer.new_token,
                "i_ack": itf.handshakes_in.ack, "o_nak": itf.handshakes_out.nak,
                "i_tx_ready": itf.tx.ready, "o_tx_valid": itf.tx.valid, "o_tx_first": itf.tx.first, "o_tx_last": itf.tx.last,
                "o_tx_payload": itf.tx.payload, "o_pid": itf.tx_pid_toggle, "i_clear_halt": itf.clear_endpoint_halt_in.as_value()}
            ts = c.unit(d, ports)
            mgr = ts.instance(USBInTransferManager)
            pre = "tx_manager."
        else:
            d = mgr = USBInTransferManager(MAX)
            ports = {
                "i_valid": d.transfer_stream.valid, "i_payload": d.transfer_stream.payload, "i_last": d.transfer_stream.last,
                "o_ready": d.transfer_stream.ready, "i_flush": d.flush, "i_discard": d.discard, "i_active": d.active,
                "i_tok_is_in": d.tokenizer.is_in, "i_tok_rfr": d.tokenizer.ready_for_response, "i_tok_new": d.tokenizer.new_token,
                "i_ack": d.handshakes_in.ack, "o_nak": d.handshakes_out.nak,
                "i_tx_ready": d.packet_stream.ready, "o_tx_valid": d.packet_stream.valid, "o_tx_first": d.packet_stream.first,
                "o_tx_last": d.packet_stream.last, "o_tx_payload": d.packet_stream.payload, "o_pid": d.data_pid,
                "i_gen_zlps": d.generate_zlps, "i_start_d1": d.start_with_data1, "i_reset_seq": d.reset_sequence}
            ts = c.unit(d, ports)
            pre = ""
        self.d, self.ts, self.mgr, self.pre = d, ts, mgr, pre
        I, O = ts.inputs, ts.outputs
        self.I, self.O = I, O
        T = z3.BoolVal(True)
        if kind == "endpoint":
            self.addressed = I["i_tok_endpoint"] == epnum
            self.gen_zlps = T
            ch = I["i_clear_halt"]           # struct: enable (bit 0), direction (bit 1), number (bits 5..2)
            self.reset_seq = z3.And(bits(ch, 0) == 1, bits(ch, 1) == 1, bits(ch, 5, 2) == epnum)
            self.start_d1 = z3.BoolVal(False)
        else:
            self.addressed = I["i_active"] == 1
            self.gen_zlps = I["i_gen_zlps"] == 1
            self.reset_seq = I["i_reset_seq"] == 1
            self.start_d1 = I["i_start_d1"] == 1
        self.in_token = z3.And(self.addressed, I["i_tok_is_in"] == 1, I["i_tok_rfr"] == 1)
        self.new_token = I["i_tok_new"] == 1
        self.ack = I["i_ack"] == 1
        self.accept = z3.And(I["i_valid"] == 1, O["o_ready"] == 1)
        self.valid, self.first, self.last = O["o_tx_valid"] == 1, O["o_tx_first"] == 1, O["o_tx_last"] == 1
        self.tx_ready = I["i_tx_ready"] == 1
        self.nak = O["o_nak"] == 1
        self.pid = O["o_pid"]

        # ---- internal registers
        self.fsm = ts.fsm(pre + "fsm_state")
        self.tog = ts.of(mgr.buffer_toggle)
        self.pos = ts.sig(pre + "send_position")
        self.first_r = ts.of(mgr.packet_stream.first)
        e0, e1 = ts.sig(pre + "stream_ended_in_buffer0"), ts.sig(pre + "stream_ended_in_buffer1")
        self.FW = self.pos.size()
        # the two per-buffer fill counters are anonymous (`Array(Signal(...))` -> "$signal"): find the two flip-flops with
        # that stripped name, and decide which is buffer 0 with the combinational definition of transfer_stream.ready
        strip = lambda p: '.'.join(re.sub(r'\$\d+$', '', x) for x in p.split('.'))
        ffs = {id(s) for s in ts.ff_signal.values()}
        cands = [p for p in ts.paths if strip(p) == pre + "$signal" and id(ts.paths[p]) in ffs and len(ts.paths[p]) == self.FW]
        if len(cands) != 2:
            from hwv.contract import BindingError
            raise BindingError(f"expected two anonymous fill counters in the transfer manager, found {cands}")
        ffidx = {id(sg): key[1] for key, sg in ts.ff_signal.items()}
        cands.sort(key=lambda p_: ffidx[id(ts.paths[p_])])         # creation order: buffer 0 first
        a, b = ts.of(ts.paths[cands[0]]), ts.of(ts.paths[cands[1]])
        chosen = None
        for f0, f1 in ((a, b), (b, a)):
            wf = z3.If(self.tog == 1, f1, f0)
            we = z3.If(self.tog == 1, e1, e0)
            s = z3.Solver(); s.set("timeout", 20000)
            s.add((O["o_ready"] == 1) != z3.And(wf != MAX, we == 0))
            if s.check() == z3.unsat:
                chosen = (f0, f1)
                break
        if chosen is None:
            chosen = (a, b)      # `ready` is not defined as expected: keep creation order, the proof obligations will tell
        f0, f1 = chosen
        self.f0, self.f1, self.e0, self.e1 = f0, f1, e0, e1
        rb0 = self.tog == 1                                   # read buffer is buffer 0 (read_buffer_number = ~buffer_toggle)
        self.rfill, self.wfill = z3.If(rb0, f0, f1), z3.If(rb0, f1, f0)
        self.rended, self.wended = z3.If(rb0, e0, e1) == 1, z3.If(rb0, e1, e0) == 1
        m0, _ = ts.mem(pre + "transmit_buffer_0")
        m1, _ = ts.mem(pre + "transmit_buffer_1")
        aw = m0.sort().domain().size()
        sel = lambda m, i: z3.Select(m, z3.Extract(aw - 1, 0, i)) if i.size() > aw else z3.Select(m, zx(i, aw))
        self.mem_r = lambda i: z3.If(rb0, sel(m0, i), sel(m1, i))
        self.mem_w = lambda i: z3.If(rb0, sel(m1, i), sel(m0, i))
        self.st = self.fsm.is_


def make(kind, MAX, with_reset=False, allow_discard=False):
    def contract(c):
        V = View(c, kind, MAX)
        build(c, V, allow_discard=allow_discard)
    return contract


def build(c, V, allow_reset=False, only=None, allow_discard=False):
    """Declares ghosts, invariants and the C11 ensures on view V.  With allow_reset (used by C14) the PID-sequence reset
    input stays free and the toggle bookkeeping follows the statement of C14 (`only`: subset of ensures/covers to emit);
    returns the ghost dictionary."""
    if only is not None:
        _ens, _cov = c.ensure, c.cover
        c.ensure = lambda name, e, clause="": _ens(name, e, clause=clause) if name in only else None
        c.cover = lambda name, e, reach=True: _cov(name, e, reach=reach) if name in only else None
    ts, I, O, MAX, st = V.ts, V.I, V.O, V.MAX, V.st
    n = c.nx
    FW = V.FW
    z16 = lambda e: zx(e, NW)
    in_token, new_token, ack, accept = V.in_token, V.new_token, V.ack, V.accept
    valid, first, last, tx_ready, nak = V.valid, V.first, V.last, V.tx_ready, V.nak

    # ------------------------------------------------------------------ requires
    if not allow_discard:
        disc = None
        c.require("no_discard", I["i_discard"] == 0,
                  why="the statement quantifies over streams, flush, tokens, ACKs and PHY ready patterns, not over `discard`")
    else:
        disc = I["i_discard"] == 1
        c.require("no_transfer_end_offered_while_discarding", z3.Not(z3.And(disc, I["i_valid"] == 1, I["i_last"] == 1)),
                  why="FINDING (code does not handle it): transfer_stream.ready is not gated by discard; a byte marked `last` accepted "
                      "in a discard cycle leaves the emptied write buffer marked 'ended' (spurious ZLP later)")
    nd = (lambda e: z3.And(e, z3.Not(disc))) if allow_discard else (lambda e: e)          # ... and no discard in this cycle
    onD = (lambda dv, e: z3.If(disc, dv, e)) if allow_discard else (lambda dv, e: e)      # value forced by a discard
    if not allow_reset:
        c.require("no_pid_sequence_reset", z3.Not(V.reset_seq),
                  why="PID-sequence reset (CLEAR_FEATURE(ENDPOINT_HALT)) is the subject of C14, not of this property")
    else:
        c.require("no_response_slot_during_pid_reset", z3.Not(z3.And(V.reset_seq, V.in_token)),
                  why="the clear-halt strobe is raised in the cycle of the ACK handshake that completes the control transfer; a "
                      "response slot (inter-packet delay after a token) cannot fall in the cycle after a handshake packet ended")
    c.require("ack_and_token_strobes_exclusive", z3.Not(z3.And(ack, new_token)),
              why="ACK strobes follow a one-byte packet, token strobes a three-byte packet on the same receive path (C04/C01 ensures)")

    # ------------------------------------------------------------------ ghosts
    n_in, n_ack = c.ghost("n_in", NW), c.ghost("n_ack", NW)
    ph, retry = c.ghost("ph", 2, init=IDLE), c.ghost("retry", 1)
    gpos, plen = c.ghost("gpos", FW), c.ghost("plen", FW)
    exp_pid = c.ghost("exp_pid", 1, init=0)
    fresh = c.ghost("fresh", 1)
    tail_last, zlp_due = c.ghost("tail_last", 1), c.ghost("zlp_due", 1)
    k = c.rigid("k", NW)
    v, vl, zlp_owed = c.ghost("v", 8), c.ghost("vl", 1), c.ghost("zlp_owed", 1)
    idle, sending, await_ = ph == IDLE, ph == SENDING, ph == AWAIT

    if allow_reset:
        c.require("pid_reset_only_between_transactions", z3.Implies(V.reset_seq, idle),
                  why="the clear-halt strobe coincides with the ACK of the control transfer's status stage; the SETUP/IN tokens of "
                      "that control transfer precede it, and any token ends this endpoint's wait for an ACK; the endpoint is not "
                      "transmitting while the host sends a handshake (half-duplex bus)")
    if allow_discard:
        c.require("no_discard_while_a_packet_is_being_transmitted", z3.Not(z3.And(disc, sending)),
                  why="FINDING (code does not handle it): SEND_PACKET ignores discard while the fill count is zeroed under it; "
                      "`last` (send_position+1 == fill count) then never comes and the packet does not end")
    c.require("transmitter_not_ready_in_first_cycle_of_a_packet", z3.Implies(z3.And(sending, fresh == 1), z3.Not(tx_ready)),
              why="USBDataPacketGenerator holds stream.ready low in IDLE and SEND_PID: the first payload byte is taken at "
                  "least two cycles after valid&first is first presented")

    zlp_now = z3.And(idle, in_token, valid)                      # a token answered in the same cycle: zero-length packet
    start_data = nd(z3.And(idle, in_token, z3.Not(nak), z3.Not(valid)))   # a token answered with neither NAK nor ZLP: data follows
    xfer = z3.And(sending, valid, tx_ready)                      # a payload byte is taken by the transmitter
    done = z3.And(xfer, last)                                    # ... and it is the packet's final byte
    acked = z3.And(await_, ack)                                  # the host ACKs a completely transmitted packet
    one = lambda w: bvc(1, w)

    c.set_next(n_in, z3.If(accept, n_in + 1, n_in))
    # discard (spec): everything accepted up to and including this cycle is forgotten -- the ACK frontier jumps to the input
    # position, no attempt is outstanding, no retry, no ZLP obligation; a completely sent packet whose handshake is outstanding
    # counts as delivered for the toggle (the code leaves the PID advanced), otherwise the toggle is kept ("undo the toggle")
    c.set_next(n_ack, onD(z3.If(accept, n_in + 1, n_in), z3.If(acked, n_ack + z16(plen), n_ack)))
    c.set_next(ph, onD(bvc(IDLE, 2), z3.If(idle, z3.If(zlp_now, bvc(AWAIT, 2), z3.If(start_data, bvc(SENDING, 2), bvc(IDLE, 2))),
                    z3.If(sending, z3.If(done, bvc(AWAIT, 2), bvc(SENDING, 2)),
                          z3.If(z3.Or(acked, new_token), bvc(IDLE, 2), bvc(AWAIT, 2))))))
    c.set_next(retry, onD(bvc(0, 1), z3.If(acked, bvc(0, 1), z3.If(z3.And(await_, new_token), bvc(1, 1), retry))))
    c.set_next(gpos, z3.If(z3.And(sending, z3.Not(done)), z3.If(xfer, gpos + 1, gpos), bvc(0, FW)))
    c.set_next(plen, z3.If(z3.And(zlp_now, retry == 0), bvc(0, FW), z3.If(z3.And(done, retry == 0), gpos + 1, plen)))
    pid_reset = V.reset_seq if allow_reset else z3.BoolVal(False)
    flip = z3.Or(acked, z3.And(disc, await_)) if allow_discard else acked
    c.set_next(exp_pid, z3.If(pid_reset, z3.If(V.start_d1, one(1), bvc(0, 1)), z3.If(flip, ~exp_pid, exp_pid)))
    c.set_next(fresh, z3.If(start_data, one(1), bvc(0, 1)))
    c.set_next(tail_last, z3.If(accept, I["i_last"], tail_last))
    all_acked_after = z3.And(n_ack + z16(plen) == n_in, z3.Not(accept))
    c.set_next(zlp_due, onD(bvc(0, 1), z3.If(acked, z3.If(z3.And(plen == MAX, V.gen_zlps, all_acked_after, tail_last == 1), one(1), bvc(0, 1)),
                         z3.If(accept, bvc(0, 1), zlp_due))))
    hit = z3.And(accept, n_in == k)
    c.set_next(v, z3.If(hit, I["i_payload"], v))
    c.set_next(vl, z3.If(hit, I["i_last"], vl))
    lal = c.ghost("lal", FW)                                      # length of the most recently ACKed packet
    c.set_next(lal, onD(bvc(0, FW), z3.If(acked, plen, lal)))   # ... since the last discard (0: none)
    fk = c.ghost("fk", 1)                                        # `flush` was asserted in or after the cycle byte k was accepted
    c.set_next(fk, z3.If(hit, I["i_flush"], fk | I["i_flush"]))
    final_is_k = n_ack + z16(plen) - 1 == k                      # byte k is the final byte of the outstanding packet
    c.set_next(zlp_owed, onD(bvc(0, 1), z3.If(acked, z3.If(z3.And(plen == MAX, V.gen_zlps, final_is_k, vl == 1, plen != 0), one(1), bvc(0, 1)),
                          zlp_owed)))

    # ------------------------------------------------------------------ abstraction (representation invariant)
    rfill, wfill, pos = V.rfill, V.wfill, V.pos
    d_k = k - n_ack                                              # distance of the witness position from the ACK frontier
    unacked = n_in - n_ack
    in_r = z3.ULT(d_k, z16(rfill))                               # witness byte sits in the read buffer (outstanding packet)
    in_w = z3.And(z3.UGE(d_k, z16(rfill)), z3.ULT(d_k, z16(rfill) + z16(wfill)))   # ... in the write buffer
    pend = st("WAIT_TO_SEND", "SEND_PACKET", "WAIT_FOR_ACK")

    c.inv("fsm_legal", V.fsm.legal())
    c.inv("send_iff_sending", st("SEND_PACKET") == sending)
    c.inv("wait_ack_iff_await", st("WAIT_FOR_ACK") == await_)
    c.inv("retry_only_with_packet", z3.Implies(retry == 1, pend))
    c.inv("ph_legal", z3.ULE(ph, 2))
    c.inv("fill_bounds", z3.And(z3.ULE(V.f0, MAX), z3.ULE(V.f1, MAX)))
    c.inv("wait_for_data_has_no_packet", z3.Implies(st("WAIT_FOR_DATA"), z3.And(rfill == 0, z3.ULT(wfill, MAX), z3.Not(V.wended))))
    c.inv("empty_write_buffer_not_ended", z3.Implies(wfill == 0, z3.Not(V.wended)))
    c.inv("sending_position", z3.Implies(sending, z3.And(pos == gpos, z3.ULT(gpos, rfill))))
    c.inv("gpos_zero_unless_sending", z3.Implies(z3.Not(sending), gpos == 0))
    c.inv("fresh_only_when_sending_byte0", z3.Implies(fresh == 1, z3.And(sending, gpos == 0)))
    c.inv("first_register", (V.first_r == 1) == z3.And(sending, gpos == 0))
    c.inv("outstanding_length", z3.Implies(z3.Or(await_, retry == 1), plen == rfill))
    c.inv("conservation", n_in == n_ack + z16(rfill) + z16(wfill))
    c.inv("pid_when_packet_pending", z3.Implies(pend, V.pid == zx(exp_pid, 2)))
    c.inv("pid_when_no_packet", z3.Implies(st("WAIT_FOR_DATA"), V.pid == zx(~exp_pid, 2)))
    c.inv("witness_in_read_buffer", z3.Implies(in_r, V.mem_r(d_k) == v))
    c.inv("witness_in_write_buffer", z3.Implies(in_w, V.mem_w(d_k - z16(rfill)) == v))
    c.inv("read_port_shows_current_byte", z3.Implies(z3.And(sending, fresh == 0), O["o_tx_payload"] == V.mem_r(pos)))
    c.inv("transfer_end_in_read_buffer", z3.Implies(z3.And(in_r, vl == 1), z3.And(d_k == z16(rfill) - 1, V.rended)))
    c.inv("transfer_end_in_write_buffer", z3.Implies(z3.And(in_w, vl == 1), z3.And(d_k - z16(rfill) == z16(wfill) - 1, V.wended)))
    c.inv("ended_write_buffer_ends_with_marked_byte",
          z3.Implies(z3.And(in_w, d_k - z16(rfill) == z16(wfill) - 1, V.wended), vl == 1))
    c.inv("ended_read_buffer_ends_with_marked_byte",
          z3.Implies(z3.And(in_r, d_k == z16(rfill) - 1, V.rended), vl == 1))
    c.inv("empty_packet_pending_only_after_full_final_packet",
          z3.Implies(z3.And(pend, rfill == 0, k == n_ack - 1), z3.And(vl == 1, lal == MAX)))
    c.inv("short_packet_without_transfer_end_was_flushed",
          z3.Implies(z3.And(in_r, d_k == z16(rfill) - 1, z3.ULT(rfill, MAX), vl == 0), fk == 1))
    c.inv("tail_flag_write_buffer", z3.Implies(wfill != 0, V.wended == (tail_last == 1)))
    c.inv("tail_flag_read_buffer", z3.Implies(z3.And(wfill == 0, rfill != 0), V.rended == (tail_last == 1)))
    c.inv("zlp_owed_means_empty_packet_pending", z3.Implies(zlp_owed == 1, z3.And(rfill == 0, st("WAIT_TO_SEND", "WAIT_FOR_ACK"))))
    c.inv("zlp_due_means_empty_packet_pending",
          z3.Implies(zlp_due == 1, z3.And(n_in == n_ack, st("WAIT_TO_SEND", "WAIT_FOR_ACK"))))
    c.inv("nothing_unacked_and_no_zlp_due_means_waiting_for_data",
          z3.Implies(z3.And(idle, retry == 0, n_in == n_ack, zlp_due == 0), st("WAIT_FOR_DATA")))

    # ------------------------------------------------------------------ ensures
    c.ensure("accepted_stream_is_input_stream_in_order",
             z3.Implies(z3.And(xfer, n_ack + z16(gpos) == k), O["o_tx_payload"] == v),
             clause="the data the host accepts is exactly the input stream in order: byte j of every packet attempt is the input "
                    "byte at stream position (bytes ACKed so far)+j — for an arbitrary position k")
    c.ensure("retry_repeats_payload_length",
             z3.Implies(z3.And(sending, retry == 1), last == (gpos + 1 == plen)),
             clause="a retried packet repeats the same payload (same length; bytes by the position clause)")
    c.ensure("retry_of_zlp_is_zlp", z3.Implies(nd(z3.And(idle, retry == 1, in_token)), z3.If(plen == 0, zlp_now, start_data)),
             clause="a retried packet repeats the same payload: an un-ACKed packet is re-sent at the next IN token (ZLP stays ZLP), never NAKed")
    c.ensure("every_attempt_carries_expected_pid", z3.Implies(z3.Or(sending, zlp_now, start_data), V.pid == zx(exp_pid, 2)),
             clause="each new packet carries the DATA0/DATA1 toggle following the last ACKed one (DATA0 first); a retried packet repeats the same PID")
    c.ensure("pid_stable_during_packet", z3.Implies(z3.And(z3.Or(sending, await_, start_data, zlp_now), z3.Not(acked), z3.Not(pid_reset)), n(V.pid) == V.pid),
             clause="a retried packet repeats the same PID: the PID does not change between the start of an attempt and its ACK")
    c.ensure("packets_never_exceed_max_packet_size", z3.Implies(sending, z3.And(z3.ULT(gpos, MAX), z3.Implies(gpos == MAX - 1, last))),
             clause="packets never exceed the max packet size")
    c.ensure("packet_stream_framing",
             z3.And(z3.Implies(sending, z3.And(valid, first == (gpos == 0))),
                    z3.Implies(valid, z3.Or(sending, zlp_now)),
                    z3.Implies(zlp_now, z3.And(last, z3.Not(first)))),
             clause="data is driven only as a response to an IN token for this endpoint: a packet is valid from first to last byte; a "
                    "zero-length packet is `last` without `first`")
    c.ensure("transfer_ends_its_packet", z3.Implies(z3.And(xfer, n_ack + z16(gpos) == k, vl == 1), last),
             clause="every transfer ends with a short packet or a ZLP: the byte marked `last` is the final byte of its packet")
    c.ensure("short_packet_only_at_transfer_end_or_flush",
             z3.Implies(z3.And(done, n_ack + z16(gpos) == k, z3.ULT(gpos + 1, MAX), vl == 0), fk == 1),
             clause="transfer boundaries are preserved: a packet shorter than the max packet size ends with the byte marked `last`, unless "
                    "`flush` was requested while its bytes were buffered (then it is sent as soon as possible, by definition of flush)")
    c.ensure("full_final_packet_is_followed_by_zlp",
             z3.Implies(zlp_owed == 1, z3.And(z3.Not(sending), z3.Implies(nd(z3.And(idle, in_token)), zlp_now),
                                              z3.Implies(nd(z3.Not(acked)), n(zlp_owed) == 1))),
             clause="every transfer ends with a short packet or a zero-length packet: after a full-size final packet is ACKed the next IN token gets a ZLP")
    c.ensure("zlp_only_after_full_final_packet",
             z3.Implies(z3.And(zlp_now, k == n_ack - 1), z3.And(vl == 1, lal == MAX)),
             clause="transfer boundaries are preserved: a zero-length packet is sent only when the last ACKed packet was full-size and its final byte ended a transfer")
    c.ensure("nak_only_without_data",
             z3.Implies(nak, z3.And(in_token, idle, retry == 0, z3.ULT(unacked, MAX), zlp_owed == 0, zlp_due == 0,
                                    z3.Implies(z3.ULT(d_k, unacked), vl == 0), z3.Not(valid), z3.Not(start_data))),
             clause="NAK only for an IN token that finds no data: nothing outstanding, less than a packet buffered, no transfer end buffered, no ZLP due")
    c.ensure("in_token_without_data_is_naked",
             z3.Implies(z3.And(in_token, idle, retry == 0, n_in == n_ack, zlp_due == 0), nak),
             clause="an IN token finding no data is NAKed")
    c.ensure("in_token_is_answered", z3.Implies(nd(z3.And(in_token, idle)), z3.Or(nak, zlp_now, start_data)),
             clause="each IN token (no transmission in progress) is answered by a NAK, a ZLP or a data packet")
    c.ensure("data_follows_accepted_token", z3.Implies(start_data, z3.And(n(valid), n(first))),
             clause="an IN token that is not NAKed is answered with the packet, starting in the next cycle")
    c.ensure("ack_frontier_moves_by_packets", z3.Implies(nd(z3.Not(acked)), n(n_ack) == n_ack),
             clause="taking each toggled packet once: only an ACK of a completely sent packet advances the stream position")
    c.ensure("buffering_bounded", z3.ULE(unacked, 2 * MAX),
             clause="input is accepted only while one of the two packet buffers has room (transfer_stream.ready)")
    c.ensure("ready_iff_room", z3.Implies(O["o_ready"] == 1, z3.ULT(unacked, 2 * MAX)),
             clause="transfer_stream.ready only while there is room")

    if allow_discard:
        dz = c.ghost("dz", 1)                                     # a discard happened and no packet has been ACKed since
        c.set_next(dz, z3.If(disc, one(1), z3.If(acked, bvc(0, 1), dz)))
        c.inv("no_empty_packet_pending_after_discard", z3.Implies(dz == 1, z3.Not(z3.And(pend, rfill == 0))))
        c.inv("no_zlp_obligation_after_discard", z3.Implies(dz == 1, z3.And(zlp_due == 0, zlp_owed == 0, lal == 0)))
        c.ensure("nothing_driven_while_discarding", z3.Implies(disc, z3.And(z3.Not(valid), z3.Not(start_data), z3.Not(zlp_now))),
                 clause="(discard) no packet is started or driven in a cycle `discard` is high (no transmission is in progress: assumption)")
        c.ensure("discard_empties_both_buffers",
                 z3.Implies(disc, z3.And(n(O["o_ready"] == 1), n(z3.Not(valid)),
                                         z3.Implies(z3.And(n(in_token), z3.Not(n(I["i_valid"] == 1))), n(nak)))),
                 clause="(discard) after a discard cycle both buffers are empty: the input stream is ready again (no full or ended buffer "
                        "left over) and an IN token arriving before new data is offered is NAKed -- neither data nor a ZLP accepted/owed "
                        "before the discard is sent")
        c.ensure("no_zlp_after_discard_until_a_packet_is_acked", z3.Implies(dz == 1, z3.Not(zlp_now)),
                 clause="(discard) pending end-of-transfer / ZLP obligations are forgotten: no zero-length packet is sent after a discard "
                        "until a packet made of newly accepted data has been ACKed")
        c.ensure("nothing_accepted_before_discard_is_sent",
                 z3.Implies(disc, z3.And(n(n_ack) == n(n_in), n(idle), n(retry) == 0)),
                 clause="(discard, spec machine) the ACK frontier jumps to the input position: by the position clause every byte sent later "
                        "is an input byte accepted after the discard; nothing is outstanding or to be retried")
        c.ensure("pid_after_discard",
                 z3.Implies(disc, n(V.pid) == z3.If(await_, V.pid, z3.If(st("WAIT_FOR_DATA"), V.pid, V.pid ^ 1))),
                 clause="(discard) data PID as the code documents: the toggle made for a prepared but not completely sent packet is undone; "
                        "after a completely sent packet (handshake outstanding) the PID stays advanced")
        c.cover("discard_with_ended_background_buffer", z3.And(disc, V.wended, V.rfill != 0))
        c.cover("discard_while_waiting_for_ack", z3.And(disc, await_))
        c.cover("packet_sent_after_discard", z3.And(dz == 1, xfer, n_ack != 0))

    # ------------------------------------------------------------------ vacuity
    c.cover("witness_byte_sent", z3.And(xfer, n_ack + z16(gpos) == k, k == 1, v == 0xA5))
    c.cover("retry_attempt", z3.And(sending, retry == 1, tx_ready))
    c.cover("nak", nak)
    c.cover("ack_after_retry", z3.And(acked, retry == 1))
    deep = MAX <= 4                                           # BMC through whole MAX-byte packets + ZLP + retry: small sizes only
    c.cover("full_packet_acked", z3.And(acked, plen == MAX), reach=deep)
    c.cover("zlp_sent", z3.And(zlp_now, zlp_owed == 1), reach=deep)
    c.cover("zlp_retried", z3.And(zlp_now, retry == 1), reach=deep)
    c.cover("second_packet_pid1", z3.And(sending, V.pid == 1, n_ack != 0))
    c.cover("flush_short_packet", z3.And(sending, last, vl == 0, n_ack + z16(gpos) == k, z3.ULT(gpos, MAX - 1)))
    c.cover_depth = 2 * MAX + 22 if deep else 16
    c.timeout_s = max(c.timeout_s, 180)      # covers share one BMC budget per contract; generous so that a loaded machine does not turn them into "unreachable"
    if only is not None:
        c.ensure, c.cover = _ens, _cov
    return dict(n_in=n_in, n_ack=n_ack, ph=ph, retry=retry, gpos=gpos, plen=plen, exp_pid=exp_pid, acked=acked,
                zlp_now=zlp_now, start_data=start_data, pend=pend, pid_reset=pid_reset, idle=idle, sending=sending, await_=await_)


def generator_support(c):
    """Discharges (for a generator that is idle when the endpoint starts a packet) the assumption
    `transmitter_not_ready_in_first_cycle_of_a_packet` on the real consumer of packet_stream, USBDataPacketGenerator."""
    from luna.gateware.usb.usb2.packet import USBDataPacketGenerator
    d = USBDataPacketGenerator()
    ts = c.unit(d, {"i_valid": d.stream.valid, "i_first": d.stream.first, "i_last": d.stream.last, "i_payload": d.stream.payload,
                    "o_ready": d.stream.ready, "i_phy_ready": d.tx.ready, "o_phy_valid": d.tx.valid, "i_pid": d.data_pid,
                    "i_crc": d.crc.crc})
    I, O = ts.inputs, ts.outputs
    fsm = ts.fsm("fsm_state")
    c.inv("fsm_legal", fsm.legal())
    c.ensure("no_payload_taken_while_idle_or_sending_pid", z3.Implies(fsm.is_("IDLE", "SEND_PID"), O["o_ready"] == 0),
             clause="(support for the C11 assumption) stream.ready is low in IDLE and SEND_PID")
    c.ensure("two_cycles_before_first_byte_is_taken",
             z3.Implies(z3.And(fsm.is_("IDLE"), I["i_valid"] == 1, I["i_first"] == 1), z3.And(O["o_ready"] == 0, c.nx(O["o_ready"]) == 0)),
             clause="(support for the C11 assumption) after valid&first is presented to an idle generator, ready stays low in that cycle and the next")
    c.cover("payload_byte_taken", z3.And(O["o_ready"] == 1, I["i_valid"] == 1))


def multibyte(W, MAX=8, epnum=2):
    """USBMultibyteStreamInEndpoint(byte_width=W) at the boundary between its W-byte-wide input stream and the byte stream
    of the inner (real) USBStreamInEndpoint.  The inner endpoint is part of the unit; its stream.ready is a function of its
    own (here unconstrained) state, so the clauses hold for every back-pressure pattern.

    Spec-side ghost machine (functions of the word stream and of the byte-stream handshake only):
        busy   a word has been accepted whose bytes have not all been taken by the inner endpoint
        idx    number of bytes of that word already taken (0..W-1)
        cur, cf, cl   payload / first / last of the accepted word
        nw, nb 16-bit modular counts of words accepted / bytes taken
      symbolic witness: k a word position, wv/wf/wl payload, first and last flags of the word accepted at position k."""
    from luna.gateware.usb.usb2.endpoints.stream import USBMultibyteStreamInEndpoint

    def contract(c):
        d = USBMultibyteStreamInEndpoint(byte_width=W, endpoint_number=epnum, max_packet_size=MAX)
        itf = d.interface
        ports = {
            "i_valid": d.stream.valid, "i_payload": d.stream.payload, "i_first": d.stream.first, "i_last": d.stream.last,
            "o_ready": d.stream.ready,
            "i_tok_endpoint": itf.tokenizer.endpoint, "i_tok_is_in": itf.tokenizer.is_in,
            "i_tok_rfr": itf.tokenizer.ready_for_response, "i_tok_new": itf.tokenizer.new_token,
            "i_ack": itf.handshakes_in.ack, "o_nak": itf.handshakes_out.nak,
            "i_tx_ready": itf.tx.ready, "o_tx_valid": itf.tx.valid, "o_tx_first": itf.tx.first, "o_tx_last": itf.tx.last,
            "o_tx_payload": itf.tx.payload, "o_pid": itf.tx_pid_toggle, "i_clear_halt": itf.clear_endpoint_halt_in.as_value()}
        ts = c.unit(d, ports)
        I, O = ts.inputs, ts.outputs
        inner = ts.instance(USBStreamInEndpoint)
        bs = inner.stream
        bvalid, bready = ts.of(bs.valid) == 1, ts.of(bs.ready) == 1
        bpayload, bfirst, blast = ts.of(bs.payload), ts.of(bs.first) == 1, ts.of(bs.last) == 1
        n = c.nx
        IW = max(2, (W).bit_length())
        WW = 8 * W

        busy, idx = c.ghost("busy", 1), c.ghost("idx", IW)
        cur, cf, cl = c.ghost("cur", WW), c.ghost("cf", 1), c.ghost("cl", 1)
        nw, nb = c.ghost("nw", NW), c.ghost("nb", NW)
        k = c.rigid("k", NW)
        wv, wf, wl = c.ghost("wv", WW), c.ghost("wf", 1), c.ghost("wl", 1)
        accept = z3.And(I["i_valid"] == 1, O["o_ready"] == 1)          # a word is taken from the wide stream
        take = z3.And(bvalid, bready)                                  # a byte is taken by the inner endpoint
        final = idx == W - 1
        word_done = z3.And(busy == 1, take, final)
        c.set_next(busy, z3.If(accept, bvc(1, 1), z3.If(word_done, bvc(0, 1), busy)))
        c.set_next(idx, z3.If(accept, bvc(0, IW), z3.If(z3.And(busy == 1, take, z3.Not(final)), idx + 1, idx)))
        c.set_next(cur, z3.If(accept, I["i_payload"], cur))
        c.set_next(cf, z3.If(accept, I["i_first"], cf))
        c.set_next(cl, z3.If(accept, I["i_last"], cl))
        c.set_next(nw, z3.If(accept, nw + 1, nw))
        c.set_next(nb, z3.If(take, nb + 1, nb))
        hit = z3.And(accept, nw == k)
        c.set_next(wv, z3.If(hit, I["i_payload"], wv))
        c.set_next(wf, z3.If(hit, I["i_first"], wf))
        c.set_next(wl, z3.If(hit, I["i_last"], wl))
        lane = lambda word, i: z3.Extract(7, 0, z3.LShR(word, zx(i, WW) * 8))   # little-endian lane order: byte i = bits 8i+7..8i

        # ---- representation invariant (the class's own temporaries: try_inv)
        fsm = ts.fsm("fsm_state")
        c.inv("fsm_legal", fsm.legal())
        c.inv("transmit_iff_word_in_flight", fsm.is_("TRANSMIT") == (busy == 1))
        c.inv("idx_range", z3.ULE(idx, W - 1))
        c.inv("byte_count", nb + zx(z3.If(busy == 1, bvc(W, IW + 1) - zx(idx, IW + 1), bvc(0, IW + 1)), NW) == nw * W)
        c.inv("witness_is_current_word", z3.Implies(z3.And(busy == 1, nw - 1 == k), z3.And(wv == cur, wf == cf, wl == cl)))
        c.try_inv("bytes_to_send", lambda: z3.Implies(busy == 1, zx(ts.sig("bytes_to_send"), IW + 1) == bvc(W - 1, IW + 1) - zx(idx, IW + 1)))
        # only the lanes still to be sent matter (what the upper lanes hold after shifting is the implementation's business)
        c.try_inv("data_shift", lambda: z3.And(*[
            z3.Implies(z3.And(busy == 1, z3.ULE(zx(idx, IW + 1) + j, W - 1)),
                       z3.Extract(8 * j + 7, 8 * j, ts.sig("data_shift")) == lane(cur, zx(idx, IW + 1) + j)) for j in range(W)]))
        c.try_inv("first_latched", lambda: z3.Implies(busy == 1, ts.sig("first_latched") == cf))
        c.try_inv("last_latched", lambda: z3.Implies(busy == 1, ts.sig("last_latched") == cl))

        # ---- ensures
        c.ensure("byte_offered_iff_word_in_flight", bvalid == (busy == 1),
                 clause="a byte is offered to the inner endpoint exactly while an accepted word still has bytes not taken (nothing is "
                        "offered twice or invented)")
        c.ensure("bytes_are_the_words_bytes_little_endian_in_order",
                 z3.Implies(bvalid, bpayload == lane(cur, idx)),
                 clause="the byte offered is byte number (bytes of this word already taken) of the accepted word, least significant lane first")
        c.ensure("witness_word_bytes_exactly_once_in_order",
                 z3.Implies(z3.And(take, nw - 1 == k),
                            z3.And(bpayload == lane(wv, idx), nb == k * W + zx(idx, NW),
                                   blast == z3.And(wl == 1, final), bfirst == z3.And(wf == 1, idx == 0))),
                 clause="while the word accepted at word position k (arbitrary) is the most recently accepted one, the byte taken at byte "
                        "position W*k+i (0 <= i < W, counts modulo 2^16) is lane i of that word: each byte of each accepted word exactly "
                        "once and in order; `last` exactly on the final byte of a word accepted with `last`, `first` exactly on the "
                        "first byte of a word accepted with `first`")
        c.ensure("last_exactly_on_final_byte_of_last_word", z3.Implies(take, blast == z3.And(cl == 1, final)),
                 clause="`last` is raised on exactly the final byte of a word that was accepted with `last`")
        c.ensure("first_exactly_on_first_byte_of_first_word", z3.Implies(take, bfirst == z3.And(cf == 1, idx == 0)),
                 clause="`first` is raised on exactly the first byte of a word that was accepted with `first`")
        c.ensure("markers_of_a_word_taken_back_to_back",
                 z3.Implies(z3.And(accept, busy == 1),
                            n(z3.Implies(z3.And(take, final), blast == (cl == 1)), W)),
                 clause="(same clause, looking W cycles ahead of a word taken in the very cycle the previous word's final byte is taken) "
                        "a final byte taken W cycles later carries the `last` of the word in flight then")
        c.ensure("no_marker_without_byte_taken", z3.Implies(z3.Not(take), z3.And(z3.Not(blast), z3.Not(bfirst))),
                 clause="no first/last marker while no byte is taken")
        c.ensure("word_ready_iff_word_really_taken", (O["o_ready"] == 1) == z3.Or(busy == 0, word_done),
                 clause="the wide stream's ready is raised only when the word is really taken: no word is in flight, or the final byte of "
                        "the word in flight is taken by the inner endpoint in this very cycle")

        c.cover("back_to_back_word_with_last", z3.And(accept, busy == 1, I["i_last"] == 1, nw == 1))
        c.cover("last_byte_taken", z3.And(take, blast))
        c.cover("witness_last_lane", z3.And(take, nw - 1 == k, final, k == 1, wl == 1))
        c.cover("inner_back_pressure", z3.And(bvalid, z3.Not(bready)), reach=False)
        c.cover_depth = 2 * W + 6
    return contract


# Caller side (w1_usb2_glue): what the endpoint contract treats as free inputs / observed outputs at its EndpointInterface is
# connected, in the real USBEndpointMultiplexer and the real USBDevice, to the token detector, the handshake detector and
# generator, the data packet generator (stream, ready, data PID) and from there to the UTMI transmit lines.
WIRING = ("tokenizer", "handshakes_in", "handshakes_out", "tx", "utmi_tx")


def contracts(tier):
    from .w1_usb2_glue import mux_wiring, device_wiring
    yield ("USBDataPacketGenerator", "ready_low_at_packet_start", generator_support)
    yield ("USBEndpointMultiplexer", "wiring_3_interfaces", mux_wiring(3, WIRING))
    yield ("USBDevice", "wiring_utmi", device_wiring("utmi", WIRING))
    if tier != "quick":
        yield ("USBEndpointMultiplexer", "wiring_1_interface", mux_wiring(1, WIRING))
        yield ("USBEndpointMultiplexer", "wiring_2_interfaces", mux_wiring(2, WIRING))
        yield ("USBDevice", "wiring_ulpi", device_wiring("ulpi", WIRING))
    if tier == "quick":
        cfgs = [("endpoint", 4), ("endpoint", 8), ("manager", 8)]
    else:
        cfgs = [("endpoint", m) for m in (2, 4, 8, 16, 32, 64, 512)] + [("manager", m) for m in (4, 8, 16, 64)]
    for w in ((2, 4) if tier == "quick" else (2, 3, 4)):
        yield ("USBMultibyteStreamInEndpoint", f"byte_width{w}", multibyte(w))
    for kind, m in cfgs:
        name = "USBStreamInEndpoint" if kind == "endpoint" else "USBInTransferManager"
        yield (name, f"max{m}", make(kind, m, allow_discard=(kind == "manager" or m <= 8)))     # `discard` free: all manager sizes, endpoints up to 8
