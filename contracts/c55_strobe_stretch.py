"""C55 — stretch_strobe_signal: the stretched output is high exactly within `to_cycles` cycles after a strobe.

Unit: the real function luna.gateware.utils.cdc.stretch_strobe_signal, called from a three-line wrapper Elaboratable
(the wrapper owns the Module and the two port signals; it contains no logic of its own).

Spec (from the statement).  Number the clock cycles; let S be the set of cycles in which `strobe` is high.
    allow_delay=False :  output(t) = 1  <=>  some s in S with  t-N+1 <= s <= t         (N = to_cycles)
    allow_delay=True  :  output(t) = 1  <=>  some s in S with  t-N   <= s <= t-1       (window starts one cycle later)
Ghost `since` = number of cycles between the most recent strobe strictly before now and now, minus one
(0 = strobe in the previous cycle), saturating, "never" at power-on.  Then the windows are
    no delay :  strobe(t) or since <= N-2          delay :  since <= N-1.

The statement's "(starting one cycle later when delay is allowed)" is taken literally for every length, including
to_cycles=1.

Finding on the unchanged tree: to_cycles=1 with allow_delay=True passes the strobe straight through (no one-cycle delay,
combinational output) -> clause output_iff_strobe_in_window fails with a 1-cycle witness replayed on the simulator.
Proposed fix: proposed_fixes/C55_stretch_len1_delay.diff (take the pass-through shortcut only when no delay is allowed).
"""
import z3
from amaranth import Elaboratable, Module, Signal
from hwv.contract import B, zx, bvc, bits
from luna.gateware.utils.cdc import stretch_strobe_signal

LEVEL = "proof"
EXPLANATION = ("stretch_strobe_signal wrapped in a logic-free Elaboratable; ghost = age of the most recent strobe; "
               "invariant = the shift register holds exactly the strobe history (lowest set bit = age); "
               "ensure = output iff a strobe lies in the statement's window; unbounded 1-induction per configuration.")


class StretchWrapper(Elaboratable):
    """Only calls the real function (allowed by the task: the function needs a Module to add its logic to)."""
    def __init__(self, to_cycles, allow_delay):
        self.to_cycles, self.allow_delay = to_cycles, allow_delay
        self.strobe = Signal()
        self.output = Signal()

    def elaborate(self, platform):
        m = Module()
        stretch_strobe_signal(m, self.strobe, to_cycles=self.to_cycles, output=self.output, allow_delay=self.allow_delay)
        return m


def make(N, delay):
    def contract(c):
        d = StretchWrapper(N, delay)
        ts = c.unit(d, {"strobe": d.strobe, "output": d.output},
                    under_contract="luna.gateware.utils.cdc.stretch_strobe_signal")
        I, O = ts.inputs, ts.outputs
        GW = 8
        NEVER = (1 << GW) - 1
        assert N + 2 < NEVER
        since = c.ghost("since", GW, init=NEVER)      # age of the most recent strobe before this cycle; NEVER = none / long ago
        strobe = I["strobe"] == 1
        c.set_next(since, z3.If(strobe, bvc(0, GW), z3.If(since == NEVER, since, since + 1)))
        # second, independent spec ghost: explicit history "strobe was high j+1 cycles ago" for the last N cycles
        hist = [c.ghost(f"h{j}", 1, init=0) for j in range(N)]
        for j in range(N):
            c.set_next(hist[j], I["strobe"] if j == 0 else hist[j - 1])
        for j in range(N):
            c.inv(f"history_{j}_vs_age", z3.Implies(hist[j] == 1, z3.ULE(since, j)))
            c.inv(f"age_{j}_in_history", z3.Implies(since == j, hist[j] == 1))

        regs = ts.find("delayed_strobe")
        if regs:
            ds = ts.sig(regs[0])
            W = ds.size()
            # abstraction: the lowest set bit of the shift register is the age of the most recent strobe
            for i in range(W):
                c.inv(f"age_{i}_is_lowest_set_bit", z3.Implies(since == i, bits(ds, i, 0) == (1 << i)))
            c.inv("older_than_register_means_empty", z3.Implies(z3.UGE(since, W), ds == 0))

        if delay:
            window = z3.ULE(since, N - 1)
            window_hist = z3.Or(*[hist[j] == 1 for j in range(N)])
            txt = "high in every cycle within to_cycles cycles after a strobe, starting one cycle later (delay allowed), low otherwise"
        else:
            window = z3.Or(strobe, z3.ULE(since, N - 2)) if N >= 2 else strobe
            window_hist = z3.Or(strobe, *[hist[j] == 1 for j in range(N - 1)])
            txt = "high in every cycle within to_cycles cycles after a strobe (starting in the strobe's own cycle), low otherwise"
        c.ensure("output_iff_strobe_in_window", (O["output"] == 1) == window, clause=txt)
        c.ensure("output_iff_strobe_in_window_history_form", (O["output"] == 1) == window_hist, clause=txt)

        c.cover("output_high_without_current_strobe", z3.And(O["output"] == 1, z3.Not(strobe))) if (N > 1 or delay) else None
        c.cover("output_low_after_a_strobe", z3.And(O["output"] == 0, since != NEVER, z3.Not(strobe)))
        c.cover("last_cycle_of_window", z3.And(O["output"] == 1, z3.Not(strobe), c.nx(O["output"]) == 0)) if (N > 1 or delay) else None
        c.cover("retriggered", z3.And(O["output"] == 1, strobe, since == (N - 1 if N > 1 else 0)))
        c.cover_depth = N + 6
    return contract


def contracts(tier):
    lengths = (1, 2, 3, 4, 8, 17) if tier == "quick" else (1, 2, 3, 4, 5, 6, 7, 8, 15, 16, 17, 32, 33)
    for n in lengths:
        for delay in (False, True):
            yield ("stretch_strobe_signal", f"to{n}_{'delay' if delay else 'nodelay'}", make(n, delay))
