"""C53 — HyperRAM transactions use the correct command and never contend the bus (HyperRAMInterface, HyperRAMDQSInterface).

Statement: "Each transaction drives the 48-bit command-address word (read/write, memory/register space, burst type,
address) on DQ during the command phase, keeps chip select asserted until the transaction ends, waits the latency count
before memory data, and drives DQ/RWDS only during command and write phases, never while the memory drives them."

Spec side
---------
HyperBus command-address word (HyperBus specification, table "Command-Address bit assignment"):
    CA[47] R/W# (1 = read)   CA[46] address space (1 = register)   CA[45] burst type (1 = linear, 0 = wrapped)
    CA[44:16] = A[31:3]      CA[15:3] reserved = 0                  CA[2:0] = A[2:0]
sent most significant 16-bit word first (the PHY is 16 bit wide: one CA word per clock).

Spec machine (ghosts; driven only by the controller-side inputs start_transfer / perform_write / register_space /
single_page / address / final_word and by the observable read_ready strobe):
    ph    : controller phase in this cycle   IDLE, SELECT, CA0, CA1, CA2, LAT, RD, WR, REC
    n     : cycles already spent in LAT
    g_*   : operation type, space, burst type, address sampled in the cycle the request was accepted (idle & start)
    bus   : ph of the previous cycle = what is on the (registered) PHY outputs in this cycle
    IDLE --start--> SELECT -> CA0 -> CA1 -> CA2 --register write--> WR --> IDLE
                                          CA2 --otherwise--> LAT (L-1 cycles) --> RD | WR (memory / register read, memory write)
    RD --word received & final_word--> REC -> IDLE        WR(memory) --final_word--> REC -> IDLE
L = HyperRAMInterface.HIGH_LATENCY_CLOCKS (the class always waits the doubled latency, "extra_latency | 1").
"Latency count" is measured on the bus from the clock carrying the last command word CA[15:0] to the clock carrying the
first write data word: exactly L clocks; the controller accepts read data no earlier than L-1 clocks after the last
command word.  (The reference point of the count is the implementation's; the HyperBus document is not available here to
cross-check it - the contract pins the number, it does not certify it against the memory's data sheet.)

Bus-level clauses are stated on the registered PHY outputs as functions of `bus`.
The memory drives RWDS during the command phase (latency indication) and during read data, and DQ during read data; so
"never while the memory drives them" = RWDS is never enabled outside the data phase of a memory write, and DQ is never
enabled in a read transaction after its command phase.

Remark (not a clause of C53): after a register write the controller is back in IDLE one clock later; if start_transfer is
still high then (the class allows a 1-8 cycle strobe, a register write takes 6), the next transaction starts with CS never
released in between (cover `back_to_back_after_register_write` shows it is reachable).
"""
import z3
from hwv.contract import B, bits, zx, bvc
from luna.gateware.interface.psram import HyperBusPHY, HyperRAMInterface, HyperBusDQSPHY, HyperRAMDQSInterface

LEVEL = "proof"
EXPLANATION = ("Real HyperRAMInterface with an open HyperBusPHY record. Ghost = transaction phase machine + latched "
               "operation/address from the request inputs + previous-cycle phase (what the registered PHY outputs show). "
               "Invariant: FSM state = phase, latency counter = L-2-n, latched registers = sampled request, every PHY "
               "output register = function of the previous phase. Ensures: CA words on DQ in the three command clocks, "
               "CS asserted exactly from the cycle after the request through the last data word, first write data exactly "
               "L clocks after the last command word / no read data accepted earlier than L-1, DQ enabled iff command or "
               "write phase, RWDS enabled iff memory-write data phase, nothing driven in read transactions after the "
               "command. Unbounded 1-induction. "
               "Second unit: real HyperRAMDQSInterface (32-bit DQS-group variant) with an open HyperBusDQSPHY record "
               "(HyperRAMDQSPHY and its ECP5 primitives are not elaborated; dq.i / rwds.i / datavalid are free inputs). Same "
               "ghost machine with a two-clock command phase (CA[47:16], then CA[15:0] + 16 zero bits) and the read phase "
               "driven by the PHY's datavalid; ensures: command words and their fields on dq.o with dq.e, CS from the clock "
               "after the request through the recovery clock, L+1 latency clocks for every transaction except a register "
               "write (which has none) irrespective of the sampled RWDS, dq.e iff command or write-data phase, rwds.e iff "
               "memory-write data phase, phy.read iff read phase, read_ready iff datavalid in the read phase, read_data = dq.i.")
ASSUMPTIONS = ["the 'sync' domain reset is not asserted",
               "latency count = class constant HIGH_LATENCY_CLOCKS (14), counted from the last command word; not "
               "cross-checked against the memory data sheet",
               "HyperRAMDQSInterface: latency count = class constant HIGH_LATENCY_CLOCKS (5 sync clocks of two bus clocks "
               "each; the unit waits L+1 clocks after the last command word); the unit samples RWDS but always applies the "
               "doubled count ('extra_latency | 1', fixed-latency part) - the contract pins that, it does not require the "
               "undoubled count when RWDS was sampled low",
               "HyperRAMDQSInterface: the PHY (HyperRAMDQSPHY, vendor primitives) is opened; its dq.i / rwds.i / datavalid "
               "outputs are unconstrained inputs of the unit"]

IDLE, SELECT, CA0, CA1, CA2, LAT, RD, WR, REC = range(9)
STATE = {IDLE: "IDLE", SELECT: "LATCH_RWDS", CA0: "SHIFT_COMMAND0", CA1: "SHIFT_COMMAND1", CA2: "SHIFT_COMMAND2",
         LAT: "HANDLE_LATENCY", RD: "READ_DATA", WR: "WRITE_DATA", REC: "RECOVERY"}


def interface(c):
    phy = HyperBusPHY()
    d = HyperRAMInterface(phy=phy)
    L = d.HIGH_LATENCY_CLOCKS
    ts = c.unit(d, {"start": d.start_transfer, "address": d.address, "register_space": d.register_space,
                    "perform_write": d.perform_write, "single_page": d.single_page, "final_word": d.final_word,
                    "write_data": d.write_data, "dq_i": phy.dq.i, "rwds_i": phy.rwds.i,
                    "cs": phy.cs, "clk_en": phy.clk_en, "dq_o": phy.dq.o, "dq_e": phy.dq.e, "rwds_o": phy.rwds.o,
                    "rwds_e": phy.rwds.e, "idle": d.idle, "read_ready": d.read_ready, "write_ready": d.write_ready,
                    "read_data": d.read_data})
    I, O = ts.inputs, ts.outputs
    P = lambda v: bvc(v, 4)

    ph = c.ghost("ph", 4, init=IDLE)
    bus = c.ghost("bus", 4, init=IDLE)            # phase of the previous cycle
    n = c.ghost("lat_cycles", 5, init=0)
    g_write = c.ghost("g_write", 1, init=0)
    g_reg = c.ghost("g_reg", 1, init=0)
    g_single = c.ghost("g_single", 1, init=0)
    g_addr = c.ghost("g_addr", 32, init=0)
    p_wdata = c.ghost("prev_write_data", 16, init=0)      # write_data input one cycle ago
    first_wr = c.ghost("ca_to_write", 6, init=0)          # bus clocks since the last command word was on DQ (saturating)

    start = z3.And(ph == IDLE, I["start"] == 1)
    word_in = O["read_ready"] == 1
    fin = I["final_word"] == 1
    is_ph = lambda *ps: z3.Or(*[ph == p for p in ps])
    is_bus = lambda *ps: z3.Or(*[bus == p for p in ps])
    nxt = z3.If(ph == IDLE, z3.If(start, P(SELECT), P(IDLE)),
          z3.If(ph == SELECT, P(CA0), z3.If(ph == CA0, P(CA1), z3.If(ph == CA1, P(CA2),
          z3.If(ph == CA2, z3.If(z3.And(g_reg == 1, g_write == 1), P(WR), P(LAT)),
          z3.If(ph == LAT, z3.If(n == L - 2, z3.If(g_write == 1, P(WR), P(RD)), P(LAT)),
          z3.If(ph == RD, z3.If(z3.And(word_in, fin), P(REC), P(RD)),
          z3.If(ph == WR, z3.If(g_reg == 1, P(IDLE), z3.If(fin, P(REC), P(WR))),
          P(IDLE)))))))))
    c.set_next(ph, nxt)
    c.set_next(bus, ph)
    c.set_next(n, z3.If(ph == LAT, n + 1, bvc(0, 5)))
    c.set_next(g_write, z3.If(start, I["perform_write"], g_write))
    c.set_next(g_reg, z3.If(start, I["register_space"], g_reg))
    c.set_next(g_single, z3.If(start, I["single_page"], g_single))
    c.set_next(g_addr, z3.If(start, I["address"], g_addr))
    c.set_next(p_wdata, I["write_data"])
    c.set_next(first_wr, z3.If(ph == CA2, bvc(0, 6), z3.If(first_wr == 63, first_wr, first_wr + 1)))

    # the command-address word of the transaction, from the request as sampled (HyperBus bit assignment)
    ca = z3.Concat(~g_write, g_reg, ~g_single, bits(g_addr, 31, 3), bvc(0, 13), bits(g_addr, 2, 0))
    assert ca.size() == 48

    # ---- refinement map
    fsm = ts.fsm("fsm_state")
    c.inv("fsm_legal", fsm.legal())
    c.inv("phase_legal", z3.ULE(ph, REC))
    for p, st in STATE.items():
        c.inv(f"{st.lower()}_iff_phase", fsm.is_(st) == (ph == p))
    c.inv("latency_counter", z3.Implies(ph == LAT, z3.And(z3.ULE(n, L - 2), zx(ts.sig("latency_clocks_remaining"), 5) == (L - 2) - n)))
    c.inv("latency_bus_clock", z3.Implies(ph == LAT, first_wr == zx(n, 6)))
    c.inv("data_phase_not_before_latency", z3.Implies(z3.Or(ph == RD, z3.And(ph == WR, g_reg == 0)), z3.UGE(first_wr, L - 1)))
    c.inv("data_word_on_bus_not_before_latency", z3.Implies(z3.And(is_bus(WR, RD), g_reg == 0), z3.UGE(first_wr, L)))
    c.inv("first_data_phase_cycle_time", z3.Implies(z3.And(bus == LAT, is_ph(RD, WR)), first_wr == L - 1))
    c.inv("last_command_word_time", z3.Implies(bus == CA2, first_wr == 0))
    c.inv("register_write_data_follows_command", z3.Implies(z3.And(ph == WR, g_reg == 1), bus == CA2))
    c.inv("register_write_data_time", z3.Implies(z3.And(bus == WR, g_reg == 1), first_wr == 1))
    in_txn = z3.Not(is_ph(IDLE))
    c.inv("latched_is_read", z3.Implies(in_txn, ts.sig("is_read") == ~g_write))
    c.inv("latched_is_register", z3.Implies(in_txn, ts.sig("is_register") == g_reg))
    c.inv("latched_is_multipage", z3.Implies(in_txn, ts.sig("is_multipage") == ~g_single))
    c.inv("latched_address", z3.Implies(in_txn, ts.sig("current_address") == g_addr))
    c.inv("write_phase_only_in_write_transactions", z3.Implies(is_ph(WR), g_write == 1))
    c.inv("write_word_on_bus_only_in_write_transactions", z3.Implies(bus == WR, g_write == 1))
    c.inv("read_phase_only_in_read_transactions", z3.Implies(is_ph(RD), g_write == 0))
    c.inv("register_write_skips_latency", z3.Implies(z3.And(is_ph(LAT)), z3.Not(z3.And(g_reg == 1, g_write == 1))))
    # previous phase / phase consistency (the successor relation of the spec machine)
    succ = {IDLE: (IDLE, SELECT), SELECT: (CA0,), CA0: (CA1,), CA1: (CA2,), CA2: (LAT, WR), LAT: (LAT, RD, WR), RD: (RD, REC),
            WR: (WR, REC, IDLE), REC: (IDLE,)}
    c.inv("bus_legal", z3.ULE(bus, REC))
    for p, ss in succ.items():
        c.inv(f"after_{STATE[p].lower()}", z3.Implies(bus == p, is_ph(*ss)))
    c.inv("ca2_to_write_only_for_register_write", z3.Implies(z3.And(bus == CA2, ph == WR), g_reg == 1))
    c.inv("latency_to_write_only_for_memory_write", z3.Implies(z3.And(bus == LAT, ph == WR), g_reg == 0))
    c.inv("write_after_write_is_memory", z3.Implies(z3.And(bus == WR, is_ph(WR, REC)), g_reg == 0))
    c.inv("register_write_is_one_word", z3.Implies(z3.And(bus == WR, g_reg == 1), ph == IDLE))
    # registered PHY outputs as functions of the previous phase
    driving_dq = is_bus(CA0, CA1, CA2, WR)
    c.inv("dq_enable_reg", (O["dq_e"] == 1) == driving_dq)
    c.inv("rwds_enable_reg", (O["rwds_e"] == 1) == z3.And(bus == WR, g_reg == 0))
    c.inv("cs_reg", (O["cs"] == 1) == z3.Or(is_bus(SELECT, CA0, CA1, CA2, LAT, RD, WR), ph == SELECT))
    c.inv("clk_en_reg", (O["clk_en"] == 1) == is_bus(CA0, CA1, CA2, LAT, RD, WR))
    c.inv("dq_ca0_reg", z3.Implies(bus == CA0, O["dq_o"] == bits(ca, 47, 32)))
    c.inv("dq_ca1_reg", z3.Implies(bus == CA1, O["dq_o"] == bits(ca, 31, 16)))
    c.inv("dq_ca2_reg", z3.Implies(bus == CA2, O["dq_o"] == bits(ca, 15, 0)))
    c.inv("dq_write_reg", z3.Implies(bus == WR, O["dq_o"] == p_wdata))
    c.inv("rwds_out_reg", O["rwds_o"] == 0)

    # ---- ensures
    # (1) command-address word
    c.ensure("command_word_0_on_dq", z3.Implies(bus == CA0, z3.And(O["dq_e"] == 1, O["dq_o"] == bits(ca, 47, 32))),
             clause="drives the 48-bit command-address word on DQ during the command phase: first clock CA[47:32] = R/W#, "
                    "register/memory space, burst type (linear unless single_page), address[31:19]")
    c.ensure("command_word_1_on_dq", z3.Implies(bus == CA1, z3.And(O["dq_e"] == 1, O["dq_o"] == bits(ca, 31, 16))),
             clause="... second clock CA[31:16] = address[18:3]")
    c.ensure("command_word_2_on_dq", z3.Implies(bus == CA2, z3.And(O["dq_e"] == 1, O["dq_o"] == bits(ca, 15, 0))),
             clause="... third clock CA[15:0] = 13 reserved zero bits, address[2:0]")
    c.ensure("command_follows_request_in_fixed_time", z3.Implies(start, z3.And(
        c.nx(ph) == SELECT, c.nx(ph, 2) == CA0, c.nx(bus, 3) == CA0, c.nx(bus, 4) == CA1, c.nx(bus, 5) == CA2)),
        clause="each transaction: the command phase is the 3rd..5th clock after the accepted request")
    c.ensure("command_uses_request_as_sampled", z3.Implies(start, z3.And(
        c.nx(g_write) == I["perform_write"], c.nx(g_reg) == I["register_space"], c.nx(g_single) == I["single_page"],
        c.nx(g_addr) == I["address"])),
        clause="(read/write, memory/register space, burst type, address) are those of the request")
    c.ensure("request_fields_stable_during_transaction", z3.Implies(z3.Not(start), z3.And(
        c.nx(g_write) == g_write, c.nx(g_reg) == g_reg, c.nx(g_single) == g_single, c.nx(g_addr) == g_addr)),
        clause="changes of the request inputs during a transaction do not alter its command")
    c.ensure("clock_enabled_with_command", z3.Implies(is_bus(CA0, CA1, CA2), z3.And(O["clk_en"] == 1, O["cs"] == 1)),
             clause="command words are clocked out with chip select asserted")
    # (2) chip select
    c.ensure("cs_asserted_throughout_transaction",
             (O["cs"] == 1) == z3.Or(is_bus(SELECT, CA0, CA1, CA2, LAT, RD, WR), ph == SELECT),
             clause="keeps chip select asserted until the transaction ends: CS is high exactly from the clock after the "
                    "request is accepted through the clock carrying the last data word (or, for reads, the clock after the "
                    "final word was received), and low otherwise")
    c.ensure("cs_not_dropped_mid_transaction", z3.Implies(z3.And(O["cs"] == 1, is_ph(SELECT, CA0, CA1, CA2, LAT, RD, WR)),
                                                        c.nx(O["cs"]) == 1),
             clause="keeps chip select asserted until the transaction ends")
    c.ensure("cs_released_after_transaction", z3.Implies(z3.Or(ph == REC, z3.And(ph == IDLE, I["start"] == 0)), c.nx(O["cs"]) == 0),
             clause="chip select is released when the transaction has ended and no new one is requested")
    # (3) latency
    c.ensure("first_write_data_exactly_L_clocks_after_command",
             z3.Implies(z3.And(O["write_ready"] == 1, bus != WR, g_reg == 0),
                        z3.And(first_wr == L - 1, c.nx(O["dq_e"]) == 1, c.nx(O["dq_o"]) == I["write_data"], c.nx(first_wr) == L)),
             clause="waits the latency count before memory data: in a memory write the first data word is taken when L-1 "
                    "clocks have passed since the last command word and is on DQ exactly L clocks after it")
    c.ensure("memory_write_data_not_before_latency",
             z3.Implies(z3.And(O["dq_e"] == 1, z3.Not(is_bus(CA0, CA1, CA2)), g_reg == 0), z3.And(bus == WR, z3.UGE(first_wr, L))),
             clause="waits the latency count before memory data (write): DQ carries no data word earlier than L clocks after the command")
    c.ensure("read_data_not_before_latency", z3.Implies(O["read_ready"] == 1, z3.And(ph == RD, g_write == 0, z3.UGE(first_wr, L - 1))),
             clause="waits the latency count before memory data (read): no word is accepted from the memory earlier than "
                    "L-1 clocks after the last command word, and only in read transactions")
    c.ensure("read_window_opens_exactly_after_latency",
             z3.Implies(z3.And(bus == CA2, g_write == 0), z3.And(*[c.nx(O["read_ready"], k) == 0 for k in range(0, 3)])),
             clause="waits the latency count before memory data (read)")
    c.ensure("latency_wait_is_exact", z3.Implies(z3.And(ph == LAT),
             z3.And(O["write_ready"] == 0, O["read_ready"] == 0, O["idle"] == 0, z3.ULE(n, L - 2),
                    z3.Implies(n == L - 2, z3.If(g_write == 1, c.nx(O["write_ready"]) == 1, c.nx(ph) == RD)),
                    z3.Implies(n != L - 2, z3.And(c.nx(O["write_ready"]) == 0, c.nx(ph) == LAT)))),
             clause="waits the latency count before memory data: exactly L-1 wait clocks, then the data phase")
    c.ensure("register_write_has_no_latency", z3.Implies(z3.And(bus == WR, g_reg == 1), first_wr == 1),
             clause="register writes: the data word directly follows the command (zero latency)")
    c.ensure("every_other_transaction_waits_latency",
             z3.Implies(z3.And(ph == CA2, z3.Not(z3.And(g_reg == 1, g_write == 1))),
                        z3.And(c.nx(O["write_ready"]) == 0, c.nx(O["read_ready"]) == 0, c.nx(ph) == LAT, c.nx(n) == 0)),
             clause="every read and every memory write goes through the latency wait")
    # (4) drive enables
    c.ensure("dq_driven_iff_command_or_write_phase", (O["dq_e"] == 1) == driving_dq,
             clause="drives DQ only during command and write phases (and does drive it there)")
    c.ensure("rwds_driven_iff_memory_write_data_phase", (O["rwds_e"] == 1) == z3.And(bus == WR, g_reg == 0),
             clause="drives RWDS only during the write phase (of memory writes; register writes have no mask)")
    c.ensure("write_phase_only_in_write_transactions", z3.Implies(z3.Or(bus == WR, ph == WR), g_write == 1),
             clause="write phases occur only in transactions requested as writes")
    c.ensure("read_transaction_never_drives_after_command",
             z3.Implies(z3.And(g_write == 0, is_bus(LAT, RD, REC)), z3.And(O["dq_e"] == 0, O["rwds_e"] == 0)),
             clause="never while the memory drives them: in a read transaction nothing is driven after the command phase")
    c.ensure("rwds_never_driven_during_command_and_latency",
             z3.Implies(is_bus(IDLE, SELECT, CA0, CA1, CA2, LAT, RD, REC), O["rwds_e"] == 0),
             clause="never while the memory drives them: RWDS belongs to the memory during command (latency indication), "
                    "latency and read data")
    c.ensure("nothing_driven_when_idle", z3.Implies(is_bus(IDLE, SELECT, REC), z3.And(O["dq_e"] == 0, O["rwds_e"] == 0)),
             clause="drives DQ/RWDS only during command and write phases")
    c.ensure("turnaround_before_read_data", z3.Implies(z3.And(ph == RD), z3.And(O["dq_e"] == 0, O["rwds_e"] == 0)),
             clause="never while the memory drives them: DQ/RWDS are released whenever read data can be accepted")
    c.ensure("write_data_word_on_dq", z3.Implies(bus == WR, z3.And(O["dq_e"] == 1, O["dq_o"] == p_wdata, O["cs"] == 1, O["clk_en"] == 1)),
             clause="write phase: the word taken at write_ready is driven on DQ in the next clock, with CS asserted")
    # handshake outputs
    c.ensure("idle_iff_no_transaction", (O["idle"] == 1) == (ph == IDLE), clause="a transaction starts only from idle")
    c.ensure("write_ready_iff_write_phase", (O["write_ready"] == 1) == (ph == WR), clause="write data is taken only in the write phase")
    c.ensure("memory_write_ends_exactly_at_final_word", z3.Implies(z3.And(O["write_ready"] == 1, g_reg == 0), z3.And(
        (c.nx(O["write_ready"]) == 1) == z3.Not(fin), (c.nx(O["cs"], 2) == 0) == fin)),
        clause="all final-word timings: a memory write continues word by word and ends (CS released after the last word) exactly at the word flagged final")
    c.ensure("read_ends_exactly_at_final_word", z3.Implies(ph == RD, (c.nx(O["cs"], 2) == 0) == z3.And(word_in, fin)),
        clause="all final-word timings: a read ends exactly when a received word is flagged final")
    c.ensure("register_write_is_one_word", z3.Implies(z3.And(O["write_ready"] == 1, g_reg == 1), z3.And(c.nx(O["idle"]) == 1, c.nx(O["write_ready"]) == 0)),
        clause="register writes transfer exactly one word")
    c.ensure("clock_gated_outside_transfer", (O["clk_en"] == 1) == is_bus(CA0, CA1, CA2, LAT, RD, WR),
             clause="(beyond the statement) the bus clock runs exactly from the first command word to the end of the data phase")

    c.cover_depth = 26
    c.cover("register_write_done", z3.And(bus == WR, g_reg == 1, g_addr != 0, p_wdata == 0xBEEF))
    c.cover("memory_write_two_words", z3.And(bus == WR, ph == REC, g_reg == 0, c.nx(bus) == REC))
    c.cover("memory_read_final_word", z3.And(ph == RD, word_in, fin, g_reg == 0, g_single == 1))
    c.cover("register_read_final_word", z3.And(ph == RD, word_in, fin, g_reg == 1))
    c.cover("read_word_not_final", z3.And(ph == RD, word_in, z3.Not(fin)))
    c.cover("first_memory_write_word", z3.And(bus == WR, first_wr == L))
    c.cover("back_to_back_after_register_write", z3.And(bus == WR, g_reg == 1, start))


# ======================================================================================================================
# HyperRAMDQSInterface: the 32-bit, DQS-group (4:1 PHY) variant of the same controller.
#
# One 'sync' clock moves 32 bits = two HyperBus clocks, so the 48-bit command-address word takes two sync clocks:
#     CAW0: DQ = CA[47:16]         CAW1: DQ = CA[15:0] followed by 16 zero bits (the 4th bus clock is padding)
# Spec machine (ghosts; driven by the controller-side inputs start_transfer / perform_write / register_space /
# single_page / address / final_word and the PHY-side inputs datavalid / rwds.i only):
#     IDLE --start--> SELECT (RWDS sampled) -> CAW0 -> CAW1 --register write--> WR -> IDLE
#                                                    CAW1 --otherwise--> LAT (Ld+1 clocks) --> RD | WR
#     RD --datavalid & final_word--> REC -> IDLE         WR(memory) --final_word--> REC -> IDLE
# Ld = HyperRAMDQSInterface.HIGH_LATENCY_CLOCKS: the class always waits the doubled count ("extra_latency | 1", FIXME in
# the source: fixed-latency part), whatever RWDS showed when sampled in SELECT; the contract pins exactly that (ghost
# g_extra = RWDS bit 0 as sampled; the clauses hold for both values) and does not certify it against a data sheet.
# Opened: the PHY.  HyperRAMDQSInterface only takes a `phy` record; the contract passes a plain HyperBusDQSPHY() record
# (the class's own record type), so HyperRAMDQSPHY with its ECP5 primitives (DQSBUFM, DDRDLLA, ODDRX2DQA, ...) is not
# elaborated: phy.dq.i / rwds.i / datavalid are free inputs (all memory RWDS / data-valid behaviours), the other PHY
# fields are observed outputs.
# ======================================================================================================================
D_IDLE, D_SELECT, D_CA0, D_CA1, D_LAT, D_RD, D_WR, D_REC = range(8)
D_STATE = {D_IDLE: "IDLE", D_SELECT: "LATCH_RWDS", D_CA0: "SHIFT_COMMAND0", D_CA1: "SHIFT_COMMAND1",
           D_LAT: "HANDLE_LATENCY", D_RD: "READ_DATA", D_WR: "WRITE_DATA", D_REC: "RECOVERY"}


def dqs_interface(c):
    phy = HyperBusDQSPHY()
    d = HyperRAMDQSInterface(phy=phy)
    L = d.HIGH_LATENCY_CLOCKS
    ts = c.unit(d, {"start": d.start_transfer, "address": d.address, "register_space": d.register_space,
                    "perform_write": d.perform_write, "single_page": d.single_page, "final_word": d.final_word,
                    "write_data": d.write_data, "dq_i": phy.dq.i, "rwds_i": phy.rwds.i, "datavalid": phy.datavalid,
                    "cs": phy.cs, "clk_en": phy.clk_en, "dq_o": phy.dq.o, "dq_e": phy.dq.e, "rwds_o": phy.rwds.o,
                    "rwds_e": phy.rwds.e, "phy_read": phy.read, "idle": d.idle, "read_ready": d.read_ready,
                    "write_ready": d.write_ready, "read_data": d.read_data})
    I, O = ts.inputs, ts.outputs
    P = lambda v: bvc(v, 4)
    IDLE, SELECT, CA0, CA1, LAT, RD, WR, REC = D_IDLE, D_SELECT, D_CA0, D_CA1, D_LAT, D_RD, D_WR, D_REC
    STATE = D_STATE

    ph = c.ghost("ph", 4, init=IDLE)
    bus = c.ghost("bus", 4, init=IDLE)            # phase of the previous cycle
    n = c.ghost("lat_cycles", 5, init=0)
    g_write = c.ghost("g_write", 1, init=0)
    g_reg = c.ghost("g_reg", 1, init=0)
    g_single = c.ghost("g_single", 1, init=0)
    g_addr = c.ghost("g_addr", 32, init=0)
    g_extra = c.ghost("g_extra", 1, init=0)               # RWDS (bit 0) as sampled in the SELECT clock
    p_wdata = c.ghost("prev_write_data", 32, init=0)      # write_data input one cycle ago
    first_wr = c.ghost("ca_to_write", 6, init=0)          # sync clocks since the last command word was on DQ (saturating)

    start = z3.And(ph == IDLE, I["start"] == 1)
    word_in = z3.And(ph == RD, I["datavalid"] == 1)       # the PHY reports a received word
    fin = I["final_word"] == 1
    is_ph = lambda *ps: z3.Or(*[ph == p for p in ps])
    is_bus = lambda *ps: z3.Or(*[bus == p for p in ps])
    reg_write = z3.And(g_reg == 1, g_write == 1)
    nxt = z3.If(ph == IDLE, z3.If(start, P(SELECT), P(IDLE)),
          z3.If(ph == SELECT, P(CA0), z3.If(ph == CA0, P(CA1),
          z3.If(ph == CA1, z3.If(reg_write, P(WR), P(LAT)),
          z3.If(ph == LAT, z3.If(n == L, z3.If(g_write == 1, P(WR), P(RD)), P(LAT)),
          z3.If(ph == RD, z3.If(z3.And(word_in, fin), P(REC), P(RD)),
          z3.If(ph == WR, z3.If(g_reg == 1, P(IDLE), z3.If(fin, P(REC), P(WR))),
          P(IDLE))))))))
    c.set_next(ph, nxt)
    c.set_next(bus, ph)
    c.set_next(n, z3.If(ph == LAT, n + 1, bvc(0, 5)))
    c.set_next(g_write, z3.If(start, I["perform_write"], g_write))
    c.set_next(g_reg, z3.If(start, I["register_space"], g_reg))
    c.set_next(g_single, z3.If(start, I["single_page"], g_single))
    c.set_next(g_addr, z3.If(start, I["address"], g_addr))
    c.set_next(g_extra, z3.If(ph == SELECT, bits(I["rwds_i"], 0, 0), g_extra))
    c.set_next(p_wdata, I["write_data"])
    c.set_next(first_wr, z3.If(ph == CA1, bvc(0, 6), z3.If(first_wr == 63, first_wr, first_wr + 1)))

    # the command-address word of the transaction, from the request as sampled (HyperBus bit assignment)
    ca = z3.Concat(~g_write, g_reg, ~g_single, bits(g_addr, 31, 3), bvc(0, 13), bits(g_addr, 2, 0))
    assert ca.size() == 48
    caw0 = bits(ca, 47, 16)
    caw1 = z3.Concat(bits(ca, 15, 0), bvc(0, 16))

    # ---- refinement map
    fsm = ts.fsm("fsm_state")
    c.inv("fsm_legal", fsm.legal())
    c.inv("phase_legal", z3.ULE(ph, REC))
    for p, st in STATE.items():
        c.inv(f"{st.lower()}_iff_phase", fsm.is_(st) == (ph == p))
    c.try_inv("latency_counter", lambda: z3.Implies(ph == LAT, z3.And(z3.ULE(n, L), zx(ts.sig("latency_clocks_remaining"), 5) == L - n)))
    c.inv("latency_cycles_bounded", z3.Implies(ph == LAT, z3.ULE(n, L)))
    c.inv("latency_bus_clock", z3.Implies(ph == LAT, first_wr == zx(n, 6)))
    c.inv("data_phase_not_before_latency", z3.Implies(z3.Or(ph == RD, z3.And(ph == WR, g_reg == 0)), z3.UGE(first_wr, L + 1)))
    c.inv("data_word_on_bus_not_before_latency", z3.Implies(z3.And(is_bus(WR, RD), g_reg == 0), z3.UGE(first_wr, L + 2)))
    c.inv("read_phase_on_bus_not_before_latency", z3.Implies(bus == RD, z3.UGE(first_wr, L + 2)))
    c.inv("first_data_phase_cycle_time", z3.Implies(z3.And(bus == LAT, is_ph(RD, WR)), first_wr == L + 1))
    c.inv("last_command_word_time", z3.Implies(bus == CA1, first_wr == 0))
    c.inv("register_write_data_follows_command", z3.Implies(z3.And(ph == WR, g_reg == 1), bus == CA1))
    c.inv("register_write_data_time", z3.Implies(z3.And(bus == WR, g_reg == 1), first_wr == 1))
    in_txn = z3.Not(is_ph(IDLE))
    c.try_inv("latched_is_read", lambda: z3.Implies(in_txn, ts.sig("is_read") == ~g_write))
    c.try_inv("latched_is_register", lambda: z3.Implies(in_txn, ts.sig("is_register") == g_reg))
    c.try_inv("latched_is_multipage", lambda: z3.Implies(in_txn, ts.sig("is_multipage") == ~g_single))
    c.try_inv("latched_address", lambda: z3.Implies(in_txn, ts.sig("current_address") == g_addr))
    c.inv("write_phase_only_in_write_transactions", z3.Implies(is_ph(WR), g_write == 1))
    c.inv("write_word_on_bus_only_in_write_transactions", z3.Implies(bus == WR, g_write == 1))
    c.inv("read_phase_only_in_read_transactions", z3.Implies(is_ph(RD), g_write == 0))
    c.inv("read_on_bus_only_in_read_transactions", z3.Implies(bus == RD, g_write == 0))
    c.inv("register_write_skips_latency", z3.Implies(is_ph(LAT), z3.Not(reg_write)))
    succ = {IDLE: (IDLE, SELECT), SELECT: (CA0,), CA0: (CA1,), CA1: (LAT, WR), LAT: (LAT, RD, WR), RD: (RD, REC),
            WR: (WR, REC, IDLE), REC: (IDLE,)}
    c.inv("bus_legal", z3.ULE(bus, REC))
    for p, ss in succ.items():
        c.inv(f"after_{STATE[p].lower()}", z3.Implies(bus == p, is_ph(*ss)))
    c.inv("command_to_write_only_for_register_write", z3.Implies(z3.And(bus == CA1, ph == WR), g_reg == 1))
    c.inv("latency_to_write_only_for_memory_write", z3.Implies(z3.And(bus == LAT, ph == WR), g_reg == 0))
    c.inv("write_after_write_is_memory", z3.Implies(z3.And(bus == WR, is_ph(WR, REC)), g_reg == 0))
    c.inv("register_write_is_one_word", z3.Implies(z3.And(bus == WR, g_reg == 1), ph == IDLE))
    # registered PHY outputs as functions of the previous phase
    driving_dq = is_bus(CA0, CA1, WR)
    cs_on = z3.Or(bus != IDLE, ph == SELECT)
    clk_on = z3.Or(is_bus(SELECT, CA0, CA1, LAT, WR), z3.And(bus == RD, ph == RD))
    c.inv("dq_enable_reg", (O["dq_e"] == 1) == driving_dq)
    c.inv("rwds_enable_reg", (O["rwds_e"] == 1) == z3.And(bus == WR, g_reg == 0))
    c.inv("cs_reg", (O["cs"] == 1) == cs_on)
    c.inv("clk_en_reg", O["clk_en"] == z3.If(clk_on, bvc(3, 2), bvc(0, 2)))
    c.inv("phy_read_reg", O["phy_read"] == z3.If(bus == RD, bvc(3, 2), bvc(0, 2)))
    c.inv("dq_caw0_reg", z3.Implies(bus == CA0, O["dq_o"] == caw0))
    c.inv("dq_caw1_reg", z3.Implies(bus == CA1, O["dq_o"] == caw1))
    c.inv("dq_write_reg", z3.Implies(bus == WR, O["dq_o"] == p_wdata))
    c.inv("rwds_out_reg", O["rwds_o"] == 0)

    # ---- ensures
    # (1) command-address word
    c.ensure("command_word_0_to_phy", z3.Implies(bus == CA0, z3.And(O["dq_e"] == 1, O["dq_o"] == caw0)),
             clause="drives the 48-bit command-address word on DQ during the command phase: first clock CA[47:16] = R/W#, "
                    "register/memory space, burst type (linear unless single_page), address[31:3]")
    c.ensure("command_word_1_to_phy", z3.Implies(bus == CA1, z3.And(O["dq_e"] == 1, O["dq_o"] == caw1)),
             clause="... second clock CA[15:0] = 13 reserved zero bits, address[2:0], then 16 padding zero bits")
    c.ensure("command_fields", z3.Implies(bus == CA0, z3.And(
        bits(O["dq_o"], 31, 31) == ~g_write, bits(O["dq_o"], 30, 30) == g_reg, bits(O["dq_o"], 29, 29) == ~g_single,
        bits(O["dq_o"], 28, 0) == bits(g_addr, 31, 3))),
        clause="(read/write, memory/register space, burst type, address): R/W# bit, register-space bit, burst-type bit and "
               "upper address bits, field by field")
    c.ensure("command_follows_request_in_fixed_time", z3.Implies(start, z3.And(
        c.nx(ph) == SELECT, c.nx(ph, 2) == CA0, c.nx(bus, 3) == CA0, c.nx(bus, 4) == CA1)),
        clause="each transaction: the command phase is the 3rd..4th clock after the accepted request")
    c.ensure("command_uses_request_as_sampled", z3.Implies(start, z3.And(
        c.nx(g_write) == I["perform_write"], c.nx(g_reg) == I["register_space"], c.nx(g_single) == I["single_page"],
        c.nx(g_addr) == I["address"])),
        clause="(read/write, memory/register space, burst type, address) are those of the request")
    c.ensure("request_fields_stable_during_transaction", z3.Implies(z3.Not(start), z3.And(
        c.nx(g_write) == g_write, c.nx(g_reg) == g_reg, c.nx(g_single) == g_single, c.nx(g_addr) == g_addr)),
        clause="changes of the request inputs during a transaction do not alter its command")
    c.ensure("clock_enabled_with_command", z3.Implies(is_bus(CA0, CA1), z3.And(O["clk_en"] == 3, O["cs"] == 1)),
             clause="command words are clocked out with chip select asserted")
    # (2) chip select
    c.ensure("cs_asserted_throughout_transaction", (O["cs"] == 1) == cs_on,
             clause="keeps chip select asserted until the transaction ends: CS is high exactly from the clock after the "
                    "request is accepted through the last data word (register write) / the recovery clock after it "
                    "(memory accesses and register reads; bus clock already stopped), and low otherwise")
    c.ensure("cs_not_dropped_mid_transaction", z3.Implies(z3.And(O["cs"] == 1, is_ph(SELECT, CA0, CA1, LAT, RD, WR)),
                                                        c.nx(O["cs"]) == 1),
             clause="keeps chip select asserted until the transaction ends")
    c.ensure("cs_released_after_transaction", z3.Implies(z3.And(ph == IDLE, I["start"] == 0), c.nx(O["cs"]) == 0),
             clause="chip select is released when the transaction has ended and no new one is requested")
    # (3) latency
    c.ensure("first_write_data_exactly_after_latency",
             z3.Implies(z3.And(O["write_ready"] == 1, bus != WR, g_reg == 0),
                        z3.And(first_wr == L + 1, c.nx(O["dq_e"]) == 1, c.nx(O["dq_o"]) == I["write_data"], c.nx(first_wr) == L + 2)),
             clause="waits the latency count before memory data: in a memory write the first data word is taken after the "
                    "L+1 latency clocks that follow the last command word and is on DQ in the clock after")
    c.ensure("memory_write_data_not_before_latency",
             z3.Implies(z3.And(O["dq_e"] == 1, z3.Not(is_bus(CA0, CA1)), g_reg == 0), z3.And(bus == WR, z3.UGE(first_wr, L + 2))),
             clause="waits the latency count before memory data (write): DQ carries no data word earlier")
    c.ensure("read_data_not_before_latency", z3.Implies(O["read_ready"] == 1, z3.And(ph == RD, g_write == 0, z3.UGE(first_wr, L + 1))),
             clause="waits the latency count before memory data (read): no word is accepted from the PHY earlier than "
                    "L+1 clocks after the last command word, and only in read transactions")
    c.ensure("read_capture_not_before_latency", z3.Implies(O["phy_read"] != 0, z3.And(bus == RD, g_write == 0, z3.UGE(first_wr, L + 2))),
             clause="waits the latency count before memory data (read): the PHY read/capture enable is raised only after the latency wait")
    c.ensure("read_window_opens_exactly_after_latency",
             z3.Implies(z3.And(bus == CA1, g_write == 0), z3.And(*[z3.And(c.nx(O["read_ready"], k) == 0, c.nx(O["phy_read"], k) == 0) for k in range(0, 3)])),
             clause="waits the latency count before memory data (read)")
    c.ensure("latency_wait_is_exact", z3.Implies(ph == LAT,
             z3.And(O["write_ready"] == 0, O["read_ready"] == 0, O["idle"] == 0, z3.ULE(n, L),
                    z3.Implies(n == L, z3.If(g_write == 1, c.nx(O["write_ready"]) == 1, c.nx(ph) == RD)),
                    z3.Implies(n != L, z3.And(c.nx(O["write_ready"]) == 0, c.nx(ph) == LAT)))),
             clause="waits the latency count before memory data: exactly L+1 wait clocks (the doubled count, whatever RWDS "
                    "showed when it was sampled), then the data phase")
    c.ensure("register_write_has_no_latency", z3.Implies(z3.And(bus == WR, g_reg == 1), first_wr == 1),
             clause="register writes: the data word directly follows the command (zero latency)")
    c.ensure("every_other_transaction_waits_latency",
             z3.Implies(z3.And(ph == CA1, z3.Not(reg_write)),
                        z3.And(c.nx(O["write_ready"]) == 0, c.nx(O["read_ready"]) == 0, c.nx(ph) == LAT, c.nx(n) == 0,
                               c.nx(O["dq_e"], 2) == 0)),
             clause="every read (memory or register) and every memory write goes through the latency wait; only a register write has zero latency")
    # (4) drive enables
    c.ensure("dq_driven_iff_command_or_write_phase", (O["dq_e"] == 1) == driving_dq,
             clause="drives DQ only during command and write phases (and does drive it there)")
    c.ensure("rwds_driven_iff_memory_write_data_phase", (O["rwds_e"] == 1) == z3.And(bus == WR, g_reg == 0),
             clause="drives RWDS only during the write phase (of memory writes; register writes have no mask)")
    c.ensure("rwds_mask_zero", O["rwds_o"] == 0, clause="write phase: no byte is masked")
    c.ensure("write_phase_only_in_write_transactions", z3.Implies(z3.Or(bus == WR, ph == WR), g_write == 1),
             clause="write phases occur only in transactions requested as writes")
    c.ensure("read_transaction_never_drives_after_command",
             z3.Implies(z3.And(g_write == 0, is_bus(LAT, RD, REC)), z3.And(O["dq_e"] == 0, O["rwds_e"] == 0)),
             clause="never while the memory drives them: in a read transaction nothing is driven after the command phase")
    c.ensure("rwds_never_driven_during_command_and_latency",
             z3.Implies(is_bus(IDLE, SELECT, CA0, CA1, LAT, RD, REC), O["rwds_e"] == 0),
             clause="never while the memory drives them: RWDS belongs to the memory during command (latency indication), "
                    "latency and read data")
    c.ensure("nothing_driven_in_latency_or_idle", z3.Implies(is_bus(IDLE, SELECT, LAT, REC), z3.And(O["dq_e"] == 0, O["rwds_e"] == 0)),
             clause="drives DQ/RWDS only during command and write phases, never during latency")
    c.ensure("turnaround_before_read_data", z3.Implies(z3.Or(ph == RD, bus == RD), z3.And(O["dq_e"] == 0, O["rwds_e"] == 0)),
             clause="never while the memory drives them: DQ/RWDS are released whenever read data can be captured or accepted")
    c.ensure("write_data_word_on_dq", z3.Implies(bus == WR, z3.And(O["dq_e"] == 1, O["dq_o"] == p_wdata, O["cs"] == 1, O["clk_en"] == 3)),
             clause="write phase: the word taken at write_ready is driven on DQ in the next clock, with CS asserted")
    # (5) handshake outputs
    c.ensure("read_ready_only_for_read_data", (O["read_ready"] == 1) == word_in,
             clause="read_ready strobes exactly when the PHY reports a received word in the read phase")
    c.ensure("read_data_is_phy_data", O["read_data"] == z3.If(word_in, I["dq_i"], bvc(0, 32)),
             clause="the word reported with read_ready is the PHY's DQ input")
    c.ensure("phy_read_iff_read_phase", O["phy_read"] == z3.If(bus == RD, bvc(3, 2), bvc(0, 2)),
             clause="the PHY is told to capture exactly during the read phase")
    c.ensure("idle_iff_no_transaction", (O["idle"] == 1) == (ph == IDLE), clause="a transaction starts only from idle")
    c.ensure("write_ready_iff_write_phase", (O["write_ready"] == 1) == (ph == WR), clause="write data is taken only in the write phase")
    c.ensure("memory_write_ends_exactly_at_final_word", z3.Implies(z3.And(O["write_ready"] == 1, g_reg == 0), z3.And(
        (c.nx(O["write_ready"]) == 1) == z3.Not(fin), (c.nx(ph) == REC) == fin, (c.nx(O["clk_en"], 2) == 0) == fin)),
        clause="all final-word timings: a memory write continues word by word and ends (bus clock stopped after the last word) exactly at the word flagged final")
    c.ensure("read_ends_exactly_at_final_word", z3.Implies(ph == RD, z3.And((c.nx(ph) == REC) == z3.And(word_in, fin),
                                                                          (c.nx(O["clk_en"]) == 0) == z3.And(word_in, fin))),
        clause="all final-word timings: a read ends (bus clock stopped) exactly when a received word is flagged final")
    c.ensure("transaction_end_releases_cs", z3.Implies(z3.And(ph == REC, c.nx(I["start"]) == 0), c.nx(O["cs"], 2) == 0),
        clause="chip select is released after the recovery clock")
    c.ensure("register_write_is_one_word", z3.Implies(z3.And(O["write_ready"] == 1, g_reg == 1), z3.And(c.nx(O["idle"]) == 1, c.nx(O["write_ready"]) == 0)),
        clause="register writes transfer exactly one word")
    c.ensure("clock_gated_outside_transfer", O["clk_en"] == z3.If(clk_on, bvc(3, 2), bvc(0, 2)),
             clause="(beyond the statement) the bus clock runs from the select clock to the end of the data phase")

    c.cover_depth = 20
    c.cover("register_write_done", z3.And(bus == WR, g_reg == 1, g_addr != 0, p_wdata == 0xBEEF))
    c.cover("memory_write_two_words", z3.And(bus == WR, ph == REC, g_reg == 0, c.nx(bus) == REC))
    c.cover("memory_read_final_word", z3.And(word_in, fin, g_reg == 0, g_single == 1))
    c.cover("register_read_final_word", z3.And(word_in, fin, g_reg == 1))
    c.cover("read_word_not_final", z3.And(word_in, z3.Not(fin)))
    c.cover("first_memory_write_word_low_rwds", z3.And(bus == WR, first_wr == L + 2, g_extra == 0))
    c.cover("first_memory_write_word_high_rwds", z3.And(bus == WR, first_wr == L + 2, g_extra == 1))
    c.cover("back_to_back_after_register_write", z3.And(bus == WR, g_reg == 1, start))


def contracts(tier):
    yield ("HyperRAMInterface", "", interface)
    yield ("HyperRAMDQSInterface", "", dqs_interface)
