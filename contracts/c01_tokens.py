"""C01 — USB2 tokens are reported iff well-formed and addressed to the device (USBTokenDetector)."""
import z3
from hwv.contract import B, bvc, bits
from luna.gateware.usb.usb2.packet import USBTokenDetector
from luna.gateware.interface.utmi import UTMIInterface
from . import spec
from .common import UTMIRx


def make(clock, fs_only, filt):
    def contract(c):
        utmi = UTMIInterface()
        d = USBTokenDetector(utmi=utmi, filter_by_address=filt, domain_clock=clock, fs_only=fs_only)
        itf = d.interface
        ports = {"rx_data": utmi.rx_data, "rx_active": utmi.rx_active, "rx_valid": utmi.rx_valid, "speed": d.speed,
                 "new_token": itf.new_token, "pid": itf.pid, "tok_address": itf.address, "endpoint": itf.endpoint,
                 "new_frame": itf.new_frame, "frame": itf.frame, "ready_for_response": itf.ready_for_response,
                 "is_in": itf.is_in, "is_out": itf.is_out, "is_setup": itf.is_setup, "is_ping": itf.is_ping}
        if filt:
            ports["address"] = d.address
        ts = c.unit(d, ports)
        I, O = ts.inputs, ts.outputs
        rx = UTMIRx(c, I["rx_active"], I["rx_valid"], I["rx_data"], nbytes=3, cntw=3)
        b0, b1, b2 = rx.b
        fsm = ts.fsm("fsm_state")
        inpkt = rx.prev_active == 1
        pid4 = bits(b0, 3, 0)
        # --- from the statement: a token PID is IN, OUT, SETUP, PING or SOF with a valid check nibble
        is_tok = z3.And(spec.pid_valid(b0), z3.Or(*[pid4 == p for p in
                        (spec.PID_IN, spec.PID_OUT, spec.PID_SETUP, spec.PID_PING, spec.PID_SOF)]))
        data11 = z3.Concat(bits(b2, 2, 0), b1)
        crc_ok = bits(b2, 7, 3) == spec.usb2_crc5(data11)
        # --- abstraction: FSM state <-> bytes seen so far
        c.inv("fsm_legal", fsm.legal())
        c.inv("idle", fsm.is_("IDLE") == z3.Not(inpkt))
        c.inv("read_pid", fsm.is_("READ_PID") == z3.And(inpkt, rx.n == 0))
        c.inv("read_token_0", fsm.is_("READ_TOKEN_0") == z3.And(inpkt, rx.n == 1, is_tok))
        c.inv("read_token_1", fsm.is_("READ_TOKEN_1") == z3.And(inpkt, rx.n == 2, is_tok))
        c.inv("token_complete", fsm.is_("TOKEN_COMPLETE") == z3.And(inpkt, rx.n == 3, is_tok, crc_ok))
        c.inv("pid_captured", z3.Implies(z3.And(inpkt, z3.UGE(rx.n, 1), is_tok), ts.sig("current_pid") == pid4))
        c.inv("byte1_captured", z3.Implies(z3.And(inpkt, z3.UGE(rx.n, 2), is_tok), bits(ts.sig("token_data"), 7, 0) == b1))
        c.inv("byte2_captured", z3.Implies(fsm.is_("TOKEN_COMPLETE"), bits(ts.sig("token_data"), 10, 8) == bits(b2, 2, 0)))
        complete = z3.And(rx.ends_now, rx.n == 3, is_tok, crc_ok)       # a complete, well-formed 3-byte token ends now
        addr_ok = (bits(b1, 6, 0) == I["address"]) if filt else z3.BoolVal(True)
        tok_event = z3.And(complete, pid4 != spec.PID_SOF, addr_ok)
        sof_event = z3.And(complete, pid4 == spec.PID_SOF)
        n = c.nx
        c.ensure("token_event_iff_wellformed_and_addressed", (n(O["new_token"]) == 1) == tok_event,
                 clause="a token event is reported exactly when a complete 3-byte IN/OUT/SETUP/PING token with valid PID check, "
                        "valid CRC5 and matching address ends; truncated/over-long/corrupted/foreign tokens never produce one")
        c.ensure("token_fields_unchanged", z3.Implies(tok_event, z3.And(
            n(O["pid"]) == pid4, n(O["tok_address"]) == bits(b1, 6, 0),
            n(O["endpoint"]) == z3.Concat(bits(b2, 2, 0), bits(b1, 7)))),
            clause="endpoint and PID are reported unchanged")
        c.ensure("sof_iff_wellformed_regardless_of_address", (n(O["new_frame"]) == 1) == sof_event,
                 clause="a start-of-frame is reported iff it is a well-formed SOF, regardless of address")
        c.ensure("frame_number_updated_only_by_sof",
                 n(O["frame"]) == z3.If(sof_event, data11, O["frame"]),
                 clause="the frame number is updated iff a well-formed SOF is received, to its 11-bit number")
        c.ensure("token_fields_stable_without_event",
                 z3.Implies(z3.Not(z3.And(complete, pid4 != spec.PID_SOF)),
                            z3.And(n(O["pid"]) == O["pid"], n(O["endpoint"]) == O["endpoint"], n(O["tok_address"]) == O["tok_address"])),
                 clause="packets that are not complete well-formed tokens change nothing that is reported")
        for nm, p in (("is_in", spec.PID_IN), ("is_out", spec.PID_OUT), ("is_setup", spec.PID_SETUP), ("is_ping", spec.PID_PING)):
            c.ensure(nm, (O[nm] == 1) == (O["pid"] == p), clause="PID convenience flags decode the reported PID")
        c.cover("token_reported", O["new_token"] == 1)
        c.cover("sof_reported", O["new_frame"] == 1)
        c.cover("long_packet", z3.And(rx.n == 5, rx.ends_now))
        if filt:
            c.cover("foreign_token", z3.And(complete, pid4 == spec.PID_IN, z3.Not(addr_ok)))
    return contract


def contracts(tier):
    yield ("USBTokenDetector", "60MHz", make(60e6, False, True))
    yield ("USBTokenDetector", "12MHz_fs_only", make(12e6, True, True))
    yield ("USBTokenDetector", "60MHz_nofilter", make(60e6, False, False))
