"""C35 — link commands round-trip and corrupted commands are rejected.

Units: the real LinkCommandGenerator, the real LinkCommandDetector, and their product (generator.source -> detector.sink,
the detector seeing a word in exactly the cycles where it is transferred, i.e. valid & ready).

Spec side (USB 3.2 §7.2.2): a link command is the framing SLC SLC SLC EPF (K-symbols; first symbol in the low byte of the
little-endian word, ctrl = 1111) followed by one word made of two copies of the 16-bit link command word
{crc5[15:11], class/type[10:7], reserved 000 [6:4], subtype[3:0]}, all data symbols (ctrl = 0000); crc5 is the link CRC5
over bits [10:0] (bit-serial definition in spec.usb2_crc5; the implementation function is proved equal to it in C30 — here it
is re-used as a spec function on an 11-bit argument, which z3 decides directly).

Ghost state is defined from the ports only: for the generator the phase of the command being sent (idle / framing offered /
command word offered) and the command+subtype sampled when an idle generator saw `generate`; for the detector `armed` =
"the last valid word seen while not armed was the framing word, and no valid word followed it yet" (invalid, i.e. idle /
removed-SKP, words between framing and command word are skipped).
"""
import z3
from hwv.contract import B, bvc, bits, bv1, zx
from luna.gateware.usb.usb3.link.command import LinkCommandGenerator, LinkCommandDetector
from . import spec

# symbol values from USB 3.2 table 6-1 (K28.x / K23.7 / K30.7), not from the code
SLC, EPF = 0xFE, 0xF7
LCSTART_DATA = SLC | (SLC << 8) | (SLC << 16) | (EPF << 24)
LCSTART_CTRL = 0b1111

IDLE, HEADER, COMMAND = 0, 1, 2


def lc_word(cmd, sub):
    """The 16-bit link command word for a 4-bit class/type and 4-bit subtype (spec)."""
    low11 = z3.Concat(cmd, bvc(0, 3), sub)
    return z3.Concat(spec.usb2_crc5(low11), low11)


def word_ok(data, ctrl):
    """A received word is a well-formed link command word (spec): only data symbols, two equal copies, CRC5 correct."""
    lo, hi = bits(data, 15, 0), bits(data, 31, 16)
    return z3.And(ctrl == 0, lo == hi, bits(lo, 15, 11) == spec.usb2_crc5(bits(lo, 10, 0)))


def gen_ports(d):
    s = d.source
    return {"command": d.command, "subtype": d.subtype, "generate": d.generate, "done": d.done,
            "source_valid": s.valid, "source_data": s.data, "source_ctrl": s.ctrl, "source_ready": s.ready}


def det_ports(d, p=""):
    s = d.sink
    return {p + "sink_valid": s.valid, p + "sink_data": s.data, p + "sink_ctrl": s.ctrl,
            p + "command": d.command, p + "command_class": d.command_class, p + "command_type": d.command_type,
            p + "subtype": d.subtype, p + "new_command": d.new_command}


def gen_ghosts(c, ts):
    I, O = ts.inputs, ts.outputs
    ph = c.ghost("phase", 2, init=IDLE)
    gcmd = c.ghost("cmd", 4, init=0)
    gsub = c.ghost("sub", 4, init=0)
    rdy = I["source_ready"] == 1
    start = z3.And(ph == IDLE, I["generate"] == 1)
    c.set_next(ph, z3.If(ph == IDLE, z3.If(I["generate"] == 1, bvc(HEADER, 2), bvc(IDLE, 2)),
                   z3.If(ph == HEADER, z3.If(rdy, bvc(COMMAND, 2), bvc(HEADER, 2)),
                         z3.If(rdy, bvc(IDLE, 2), bvc(COMMAND, 2)))))
    c.set_next(gcmd, z3.If(start, I["command"], gcmd))
    c.set_next(gsub, z3.If(start, I["subtype"], gsub))
    fsm = ts.fsm("fsm_state")
    c.inv("fsm_legal", fsm.legal())
    c.inv("phase_legal", z3.ULE(ph, COMMAND))
    c.inv("idle_is_phase", fsm.is_("IDLE") == (ph == IDLE))
    c.inv("header_is_phase", fsm.is_("TRANSMIT_HEADER") == (ph == HEADER))
    c.inv("command_is_phase", fsm.is_("TRANSMIT_COMMAND") == (ph == COMMAND))
    c.inv("command_latched", z3.Implies(ph != IDLE, z3.And(ts.sig("latched_command") == gcmd, ts.sig("latched_subtype") == gsub)))
    return ph, gcmd, gsub, start


def generator(c):
    d = LinkCommandGenerator()
    ts = c.unit(d, gen_ports(d))
    I, O = ts.inputs, ts.outputs
    ph, gcmd, gsub, start = gen_ghosts(c, ts)
    w = lc_word(gcmd, gsub)
    c.ensure("idle_drives_nothing", z3.Implies(ph == IDLE, z3.And(O["source_valid"] == 0, O["done"] == 0)),
             clause="(nothing is put on the wire without a generate request)")
    c.ensure("start_word_is_slc_slc_slc_epf",
             z3.Implies(ph == HEADER, z3.And(O["source_valid"] == 1, O["source_data"] == LCSTART_DATA, O["source_ctrl"] == LCSTART_CTRL,
                                             O["done"] == 0)),
             clause="A generated link command appears on the wire as the SLC-SLC-SLC-EPF start word ...")
    c.ensure("command_word_is_two_copies_with_crc5",
             z3.Implies(ph == COMMAND, z3.And(O["source_valid"] == 1, O["source_ctrl"] == 0,
                                              bits(O["source_data"], 15, 0) == w, bits(O["source_data"], 31, 16) == w)),
             clause="... followed by two identical 16-bit command words with a valid CRC5 (class/type in [10:7], reserved bits zero, "
                    "subtype in [3:0], of the command requested when generate was seen)")
    c.ensure("command_word_passes_the_receive_check",
             z3.Implies(ph == COMMAND, word_ok(O["source_data"], O["source_ctrl"])),
             clause="... with a valid CRC5 (the word satisfies the receiver-side well-formedness predicate)")
    c.ensure("words_held_until_accepted_then_next_word",
             z3.And(z3.Implies(z3.And(ph == HEADER, I["source_ready"] == 0), c.nx(ph) == HEADER),
                    z3.Implies(z3.And(ph == HEADER, I["source_ready"] == 1), c.nx(ph) == COMMAND),
                    z3.Implies(z3.And(ph == COMMAND, I["source_ready"] == 0), c.nx(ph) == COMMAND),
                    z3.Implies(z3.And(ph == COMMAND, I["source_ready"] == 1), c.nx(ph) == IDLE)),
             clause="all ready/valid stalls: each of the two words is offered until accepted, exactly once, start word first")
    c.ensure("wire_stable_under_stall",
             z3.Implies(z3.And(ph != IDLE, I["source_ready"] == 0),
                        z3.And(c.nx(O["source_data"]) == O["source_data"], c.nx(O["source_ctrl"]) == O["source_ctrl"],
                               c.nx(O["source_valid"]) == 1)),
             clause="all ready/valid stalls: a stalled word does not change (command/subtype inputs changing mid-command are ignored)")
    c.ensure("done_iff_command_word_accepted", (O["done"] == 1) == z3.And(ph == COMMAND, I["source_ready"] == 1),
             clause="(done marks the cycle in which the command word is accepted)")
    c.ensure("valid_iff_sending", (O["source_valid"] == 1) == (ph != IDLE), clause="exactly two words per generated command")
    c.cover("command_sent_after_stall", z3.And(ph == COMMAND, I["source_ready"] == 1, gcmd == 0b1011, gsub == 0b0110))
    c.cover("header_stalled", z3.And(ph == HEADER, I["source_ready"] == 0))
    c.cover("generate_ignored_while_busy", z3.And(ph == COMMAND, I["generate"] == 1, I["command"] != gcmd))
    c.cover_depth = 6


def det_ghosts(c, I, p=""):
    armed = c.ghost("armed", 1, init=0)
    valid = I[p + "sink_valid"] == 1
    lcstart = z3.And(valid, I[p + "sink_data"] == LCSTART_DATA, I[p + "sink_ctrl"] == LCSTART_CTRL)
    c.set_next(armed, z3.If(armed == 1, z3.If(valid, bvc(0, 1), bvc(1, 1)), bv1(lcstart)))
    return armed, valid, lcstart


def detector(c):
    d = LinkCommandDetector()
    ts = c.unit(d, det_ports(d))
    I, O = ts.inputs, ts.outputs
    armed, valid, lcstart = det_ghosts(c, I)
    fsm = ts.fsm("fsm_state")
    c.inv("fsm_legal", fsm.legal())
    c.inv("parse_iff_armed", fsm.is_("PARSE_COMMAND") == (armed == 1))
    data, ctrl = I["sink_data"], I["sink_ctrl"]
    lo = bits(data, 15, 0)
    good = z3.And(armed == 1, valid, word_ok(data, ctrl))
    c.ensure("new_command_iff_wellformed_word_after_start", (c.nx(O["new_command"]) == 1) == good,
             clause="the detector reports [a command] exactly [for a word following the start word that has two identical copies, "
                    "a valid CRC5 and no control symbols] and reports nothing when the two copies differ, the CRC5 is wrong or "
                    "control symbols are present")
    c.ensure("reported_fields_are_those_of_the_word",
             z3.Implies(good, z3.And(c.nx(O["command"]) == bits(lo, 10, 7), c.nx(O["subtype"]) == bits(lo, 3, 0),
                                     c.nx(O["command_class"]) == bits(lo, 10, 9), c.nx(O["command_type"]) == bits(lo, 8, 7))),
             clause="the detector reports exactly the command class, type and subtype of such a word")
    c.ensure("fields_unchanged_without_report",
             z3.Implies(z3.Not(good), z3.And(c.nx(O["command"]) == O["command"], c.nx(O["subtype"]) == O["subtype"])),
             clause="reports nothing [else]: the reported fields only change together with a new_command strobe")
    c.ensure("class_and_type_are_slices_of_command",
             z3.And(O["command_class"] == bits(O["command"], 3, 2), O["command_type"] == bits(O["command"], 1, 0)),
             clause="command class, type")
    for nm, cond in (("copies_differ", z3.And(ctrl == 0, lo != bits(data, 31, 16), bits(lo, 15, 11) == spec.usb2_crc5(bits(lo, 10, 0)))),
                     ("crc5_wrong", z3.And(ctrl == 0, lo == bits(data, 31, 16), bits(lo, 15, 11) != spec.usb2_crc5(bits(lo, 10, 0)))),
                     ("control_symbol_present", z3.And(ctrl != 0, lo == bits(data, 31, 16), bits(lo, 15, 11) == spec.usb2_crc5(bits(lo, 10, 0))))):
        c.ensure(f"nothing_reported_when_{nm}", z3.Implies(z3.And(armed == 1, valid, cond), c.nx(O["new_command"]) == 0),
                 clause=f"reports nothing when ... ({nm.replace('_', ' ')})")
        c.cover(nm, z3.And(armed == 1, valid, cond))
    c.cover("command_reported", z3.And(O["new_command"] == 1, O["command"] == 0b0101, O["subtype"] == 0b1001))
    c.cover("idle_word_between_start_and_command", z3.And(armed == 1, z3.Not(valid)))
    c.cover("word_without_start_ignored", z3.And(armed == 0, valid, word_ok(data, ctrl)))
    c.cover_depth = 6


def roundtrip(c):
    g, d = LinkCommandGenerator(), LinkCommandDetector()
    tg = c.unit(g, gen_ports(g))
    td = c.unit(d, det_ports(d, "d_"), prefix="d.")
    GI, GO, DI, DO = tg.inputs, tg.outputs, td.inputs, td.outputs
    # the wire: the detector sees a word exactly in the cycle it is transferred (valid & ready); stalls are invisible to it
    c.bind(DI["d_sink_data"], GO["source_data"])
    c.bind(DI["d_sink_ctrl"], GO["source_ctrl"])
    c.bind(DI["d_sink_valid"], GO["source_valid"] & GI["source_ready"])
    ph, gcmd, gsub, start = gen_ghosts(c, tg)
    dfsm = td.fsm("d.fsm_state") if td.has("d.fsm_state") else td.fsm("fsm_state")
    c.inv("d.fsm_legal", dfsm.legal())
    c.inv("detector_parses_iff_generator_sends_command_word", dfsm.is_("PARSE_COMMAND") == (ph == COMMAND))
    sent = z3.And(ph == COMMAND, GI["source_ready"] == 1)
    c.ensure("every_generated_command_is_detected_once",
             (c.nx(DO["d_new_command"]) == 1) == sent,
             clause="round trip: the detector reports a command exactly once for each generated command (the cycle after its command "
                    "word is transferred), whatever the ready stalls")
    c.ensure("detected_command_is_the_generated_one",
             z3.Implies(sent, z3.And(c.nx(DO["d_command"]) == gcmd, c.nx(DO["d_subtype"]) == gsub,
                                     c.nx(DO["d_command_class"]) == bits(gcmd, 3, 2), c.nx(DO["d_command_type"]) == bits(gcmd, 1, 0))),
             clause="round trip: the detector reports exactly the command class, type and subtype of the generated command, for all "
                    "4-bit commands and subtypes")
    c.cover("roundtrip_done", z3.And(DO["d_new_command"] == 1, DO["d_command"] == 0b1110, DO["d_subtype"] == 0b0011))
    c.cover("roundtrip_with_stalls", z3.And(ph == COMMAND, GI["source_ready"] == 0))
    c.cover_depth = 7


def contracts(tier):
    yield ("LinkCommandGenerator", "", generator)
    yield ("LinkCommandDetector", "", detector)
    yield ("LinkCommandGenerator->LinkCommandDetector", "", roundtrip)


LEVEL = "proof"
EXPLANATION = ("Unbounded inductive proofs for the real LinkCommandGenerator, LinkCommandDetector and their product (round trip), for "
               "all 4-bit commands/subtypes, all 32+4-bit received words and all ready patterns; the link CRC5 is the bit-serial "
               "definition of contracts/spec.py (11-bit domain, decided by z3 directly).")
