"""C23 — ULPI transmit path: ULPITransmitTranslator + data/stp muxing and bus ownership in UTMITranslator.

Units
  1. the real `ULPITransmitTranslator` standalone: `bus_idle` and `ulpi_nxt` are free inputs, i.e. *every* NXT schedule and
     every bus-availability pattern; op_mode, tx_data free in every cycle.
  2. the real `UTMITranslator` (handle_clocking=False, with/without PHY rst pin): the call-site obligations — the
     transmit translator's ports are wired to the UTMI/ULPI pins, the data/stp mux gives the transmitter the bus whenever
     it requests it, the bus is only handed to the transmitter while DIR is low, the bus carries an idle byte in the one
     cycle in which the transmit command is computed but not yet driven, and data.oe == ~DIR.

Spec side (unit 1), ghosts from the unit's inputs only:
    T    "in the body of a transmission": set when a transmit command is accepted (tx_valid & bus_idle & nxt while not T),
         stays while tx_valid, cleared by the cycle in which tx_valid is low (that cycle is the STP cycle).
    cmd  = tx_valid & bus_idle & ~T   : the link presents the transmit command in this cycle.
    Rq   the link wants the bus: from the cycle after the first `cmd` cycle through the STP cycle.
    acc  a UTMI byte was accepted in the previous cycle.

Ensures (statement clause -> name)
    one transmit command, PID nibble in normal mode, NOPID otherwise     txcmd_byte
    followed by the remaining bytes in order                             body_is_passthrough (+ ready_iff_phy_accepts: byte
                                                                         consumed on the UTMI side iff NXT took it from the bus)
    STP in the cycle after the last accepted byte, 0xFF in non-encoding  stp_iff_transmission_ends, stop_byte,
                                                                         stp_follows_last_accepted_byte (needs UTMI rule U1)
    a UTMI byte is reported accepted exactly when the PHY accepted it    ready_iff_phy_accepts_utmi_byte, ready_only_with_nxt
    the link never drives the data bus while DIR is high                 (unit 2) oe_is_not_dir, bus_granted_only_dir_low
    frame: nothing is driven / accepted outside a transmission            quiet_outside_transmission, out_req_window, busy_iff_body

Not covered here (said plainly): the pin-level statement "the PHY sees exactly one TXCMD per UTMI transmission" for the
whole UTMITranslator additionally needs that the register window never puts a byte on the bus that the PHY could take for
a transmit command; that interplay (register write vs. transmit arbitration) is the subject of C24 and is violated by the
tree as it stands (see C24).  C23 proves the transmitter's own behaviour for all schedules plus the wiring/mux obligations;
the PHY aborting a transmission by raising DIR after it accepted the TXCMD is outside the statement (no abort path exists);
`tx_ready` in unit 1 is then still `nxt`, which is reported as an assumption for the UTMITranslator composition.
"""
import z3
from hwv.contract import B, bvc, bits, bv1
from luna.gateware.interface.ulpi import (UTMITranslator, ULPITransmitTranslator, ULPIRegisterWindow,
                                          ULPIControlTranslator)
from .c22_ulpi_receive import ulpi_record, CONTROL

LEVEL = "proof"
EXPLANATION = ("ULPITransmitTranslator standalone for all NXT/bus_idle schedules (ghost: in-transmission flag from inputs; "
               "FSM == ghost; every output pinned per cycle) + UTMITranslator call-site obligations (port wiring, data/stp "
               "mux, bus grant only with DIR low, idle byte before the command is driven, oe == ~dir). Unbounded 1-induction.")
ASSUMPTIONS = ["UTMI transmitter (U1): tx_valid, once asserted, is held until a byte has been accepted (tx_ready) — only used "
               "for 'STP comes in the cycle after the last accepted byte'",
               "Composition to the pins: the PHY does not raise DIR between accepting a TXCMD and the STP (no abort path), and "
               "does not assert NXT on an idle (0x00) bus outside a command"]

TXCMD = 0x40


def transmitter(c):
    d = ULPITransmitTranslator()
    ts = c.unit(d, {"tx_data": d.tx_data, "tx_valid": d.tx_valid, "tx_ready": d.tx_ready, "op_mode": d.op_mode,
                    "bus_idle": d.bus_idle, "out_req": d.ulpi_out_req, "data_out": d.ulpi_data_out, "nxt": d.ulpi_nxt,
                    "stp": d.ulpi_stp, "busy": d.busy})
    I, O = ts.inputs, ts.outputs
    txv, idle, nxt = B(I["tx_valid"]), B(I["bus_idle"]), B(I["nxt"])
    nopid = I["op_mode"] == 2
    T = c.ghost("T", 1, init=0)
    Rq = c.ghost("Rq", 1, init=0)
    acc = c.ghost("acc", 1, init=0)
    inT = T == 1
    cmd = z3.And(txv, idle, z3.Not(inT))
    c.set_next(T, z3.If(inT, bv1(txv), bv1(z3.And(cmd, nxt))))
    c.set_next(Rq, z3.If(inT, bv1(txv), z3.If(cmd, bvc(1, 1), Rq)))
    c.set_next(acc, bv1(z3.And(txv, O["tx_ready"] == 1)))
    hold = c.ghost("hold", 1, init=0)          # a byte was offered but not accepted in the previous cycle
    c.set_next(hold, bv1(z3.And(txv, O["tx_ready"] == 0)))
    c.require("utmi_tx_valid_held_until_accepted", z3.Implies(hold == 1, txv),
              why="UTMI: TXValid stays asserted until the byte on TXData has been accepted (TXReady); it is negated only after "
                  "the last byte was accepted")
    fsm = ts.fsm("fsm_state")
    c.inv("fsm_legal", fsm.legal())
    c.inv("transmit_state_iff_in_body", fsm.is_("TRANSMIT") == inT)
    c.inv("out_req_is_Rq", O["out_req"] == Rq)
    c.inv("body_implies_request", z3.Implies(inT, Rq == 1))
    c.inv("body_follows_an_offered_byte", z3.Implies(inT, z3.Or(acc == 1, hold == 1)))

    pid_cmd = z3.Concat(bvc(0b0100, 4), bits(I["tx_data"], 3, 0))
    c.ensure("txcmd_byte", z3.Implies(cmd, z3.And(O["data_out"] == z3.If(nopid, bvc(TXCMD, 8), pid_cmd), O["stp"] == 0)),
             clause="each UTMI transmission reaches the PHY as one transmit command carrying the PID nibble in normal mode, "
                    "NOPID (0x40) otherwise; it is held on the bus until NXT")
    c.ensure("body_is_passthrough", z3.Implies(z3.And(inT, txv), z3.And(O["data_out"] == I["tx_data"], O["stp"] == 0)),
             clause="followed by the remaining bytes in order (the byte on the ULPI bus is the current UTMI byte)")
    c.ensure("stp_iff_transmission_ends", (O["stp"] == 1) == z3.And(inT, z3.Not(txv)),
             clause="followed by STP (exactly one cycle, exactly when the transmission ends)")
    c.ensure("stop_byte", z3.Implies(z3.And(inT, z3.Not(txv)), O["data_out"] == z3.If(nopid, bvc(0xFF, 8), bvc(0, 8))),
             clause="STP drives 0xFF to force a bit-stuff error in non-encoding mode (0x00 otherwise)")
    c.ensure("stp_follows_last_accepted_byte", z3.Implies(O["stp"] == 1, acc == 1),
             clause="STP in the cycle after the last accepted byte")
    c.ensure("stp_right_after_last_byte", z3.Implies(z3.And(inT, txv, O["tx_ready"] == 1, c.nx(I["tx_valid"]) == 0),
                                                     c.nx(O["stp"]) == 1),
             clause="STP in the cycle after the last accepted byte")
    phy_takes_utmi_byte = z3.And(nxt, z3.Or(z3.And(cmd, z3.Not(nopid)), inT))
    c.ensure("ready_iff_phy_accepts_utmi_byte", z3.Implies(txv, (O["tx_ready"] == 1) == phy_takes_utmi_byte),
             clause="a UTMI byte is reported accepted exactly when the PHY accepted it (NXT while the byte — as PID nibble of "
                    "the TXCMD, or as data — is on the bus); the NOPID command itself consumes no UTMI byte")
    c.ensure("ready_only_with_nxt", z3.Implies(O["tx_ready"] == 1, z3.And(nxt, z3.Or(cmd, inT))),
             clause="a UTMI byte is reported accepted exactly when the PHY accepted it (never without NXT, never outside a transmission)")
    c.ensure("quiet_outside_transmission", z3.Implies(z3.And(z3.Not(inT), z3.Not(cmd)),
                                                      z3.And(O["data_out"] == 0, O["stp"] == 0, O["tx_ready"] == 0)),
             clause="frame: no command, data, STP or acceptance outside a transmission (e.g. while the bus is not available)")
    c.ensure("out_req_window", O["out_req"] == Rq,
             clause="the transmitter requests the bus from the cycle after it first presents the command through the STP cycle")
    c.ensure("out_req_during_body", z3.Implies(inT, O["out_req"] == 1), clause="the transmitter owns the bus for data bytes and STP")
    c.ensure("out_req_released_after_stp", z3.Implies(O["stp"] == 1, c.nx(O["out_req"]) == 0),
             clause="the bus is released in the cycle after STP")
    c.ensure("busy_iff_body", (O["busy"] == 1) == inT, clause="busy from TXCMD acceptance through STP")
    c.ensure("command_accepted_once", z3.Implies(z3.And(cmd, nxt), z3.Not(c.nx(cmd))),
             clause="one transmit command per transmission")

    c.cover("pid_cmd_accepted", z3.And(cmd, nxt, z3.Not(nopid), O["out_req"] == 1))
    c.cover("nopid_cmd_accepted", z3.And(cmd, nxt, nopid, O["out_req"] == 1))
    c.cover("cmd_waits_for_nxt", z3.And(cmd, z3.Not(nxt), O["out_req"] == 1))
    c.cover("body_byte_accepted", z3.And(inT, txv, nxt))
    c.cover("body_byte_throttled", z3.And(inT, txv, z3.Not(nxt)))
    c.cover("stp_normal", z3.And(O["stp"] == 1, O["data_out"] == 0))
    c.cover("stp_bitstuff_error", z3.And(O["stp"] == 1, O["data_out"] == 0xFF))
    c.cover("bus_lost_while_waiting", z3.And(Rq == 1, z3.Not(inT), txv, z3.Not(idle)))


def make_wiring(with_rst):
    def contract(c):
        u = ulpi_record(with_rst)
        d = UTMITranslator(ulpi=u, handle_clocking=False)
        ports = {"dir": u.dir.i, "nxt": u.nxt.i, "data_i": u.data.i, "data_o": u.data.o, "oe": u.data.oe, "stp": u.stp.o,
                 "tx_data": d.tx_data, "tx_valid": d.tx_valid, "tx_ready": d.tx_ready, "busy": d.busy}
        for n in CONTROL:
            ports[n] = getattr(d, n)
        ts = c.unit(d, ports)
        I, O = ts.inputs, ts.outputs
        tx = ts.instance(ULPITransmitTranslator)
        win = ts.instance(ULPIRegisterWindow)
        ctl = ts.instance(ULPIControlTranslator)
        of = ts.of
        # FSMs of the real child instances (found by class), whatever UTMITranslator.elaborate calls the submodules
        from .c10_unsupported_requests_stall import instance_fsm
        wfsm = instance_fsm(ts, win)
        tfsm = instance_fsm(ts, tx)
        dirb = B(I["dir"])
        req = of(tx.ulpi_out_req) == 1

        # facts about the register window needed for "idle byte before the command is driven"
        c.inv("window_fsm_legal", wfsm.legal())
        c.inv("tx_fsm_legal", tfsm.legal())
        c.inv("control_not_busy_implies_window_idle", z3.Implies(of(ctl.busy) == 0, wfsm.is_("IDLE")))
        c.inv("idle_window_drives_nop", z3.Implies(wfsm.is_("IDLE"), z3.And(of(win.ulpi_data_out) == 0, of(win.ulpi_stop) == 0)))
        c.inv("window_never_reads", z3.Not(wfsm.is_("START_READ", "SEND_READ_ADDRESS", "READ_TURNAROUND", "READ_COMPLETE")))
        c.inv("stopping_window_drives_nop", z3.Implies(wfsm.is_("STOPPING"), of(win.ulpi_data_out) == 0))
        c.inv("window_stop_only_when_stopping", z3.Implies(of(win.ulpi_stop) == 1, wfsm.is_("STOPPING")))
        c.inv("tx_idle_and_no_request", z3.Implies(tfsm.is_("TRANSMIT"), req))

        c.ensure("oe_is_not_dir", (O["oe"] == 1) == z3.Not(dirb),
                 clause="the link never drives the data bus while DIR is high (and drives it whenever DIR is low)")
        c.ensure("mux_gives_transmitter_the_bus", z3.Implies(req, z3.And(O["data_o"] == of(tx.ulpi_data_out), O["stp"] == of(tx.ulpi_stp))),
                 clause="data/stp muxing: a requesting transmitter's command, data and STP reach the PHY pins unchanged")
        c.ensure("mux_otherwise_register_window", z3.Implies(z3.Not(req), z3.And(O["data_o"] == of(win.ulpi_data_out),
                                                                                O["stp"] == of(win.ulpi_stop))),
                 clause="data/stp muxing: otherwise the register window (NOP when idle) drives the pins")
        c.ensure("transmitter_inputs_wired", z3.And(of(tx.ulpi_nxt) == I["nxt"], of(tx.op_mode) == I["op_mode"],
                                                    of(tx.tx_data) == I["tx_data"], of(tx.tx_valid) == I["tx_valid"]),
                 clause="for any PHY NXT schedule / all UTMI transmit requests: the transmitter sees the real NXT, op mode and UTMI data")
        c.ensure("tx_ready_wired", O["tx_ready"] == of(tx.tx_ready),
                 clause="a UTMI byte is reported accepted exactly when the PHY accepted it (tx_ready is the transmitter's)")
        c.ensure("bus_granted_only_dir_low", z3.Implies(of(tx.bus_idle) == 1, z3.And(z3.Not(dirb), of(ctl.busy) == 0)),
                 clause="the link never drives the data bus while DIR is high: a transmit command is only presented/accepted "
                        "while DIR is low and no register write is in progress")
        c.ensure("bus_grant_is_exact", (of(tx.bus_idle) == 1) == z3.And(z3.Not(dirb), of(ctl.busy) == 0, ts.sig("phy_ready") == 1),
                 clause="transmissions are not held back for any other reason (PHY ready, DIR low, no register write)")
        c.ensure("idle_byte_before_command_is_driven",
                 z3.Implies(z3.And(of(tx.bus_idle) == 1, z3.Not(req)), z3.And(O["data_o"] == 0, O["stp"] == 0)),
                 clause="one transmit command: in the cycle in which the command is computed but not yet driven the bus carries "
                        "the idle byte, so a protocol-abiding PHY cannot accept anything in it")
        c.ensure("busy_output", (O["busy"] == 1) == z3.Or(of(win.busy) == 1, of(tx.busy) == 1, of(ctl.busy) == 1, dirb),
                 clause="busy reports transmit / register activity / DIR")
        if not with_rst:       # (with an rst pin the bus is held for 60000 cycles: too deep for BMC; same logic as the other configuration)
            c.cover("transmitting_on_pins", z3.And(req, O["data_o"] == 0xA5, I["nxt"] == 1, O["tx_ready"] == 1))
            c.cover("stp_on_pins", z3.And(req, O["stp"] == 1, O["data_o"] == 0xFF))
            c.cover("window_drives", z3.And(z3.Not(req), O["data_o"] == 0x84))
        c.cover("dir_high", z3.And(dirb, O["oe"] == 0))
    return contract


def contracts(tier):
    yield ("ULPITransmitTranslator", "standalone", transmitter)
    yield ("UTMITranslator", "wiring_no_rst_pin", make_wiring(False))
    yield ("UTMITranslator", "wiring_with_rst_pin", make_wiring(True))
