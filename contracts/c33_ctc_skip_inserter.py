"""C33 — transmit CTC (CTCSkipInserter) inserts SKPs only in place of idle and often enough.

Observer's view (ghosts are functions of the sink/source handshakes and `can_send_skip` only):

    elapsed   symbols accepted from the link layer since the last multiple of 354            (0 .. 353)
    owed      SKP ordered sets (SKP SKP) that are due and not yet sent:
                 +1 each time the accepted-symbol count crosses a multiple of 354 (remainder kept, USB 3.2 6.4.3),
                 -2 for each SKP word (= two ordered sets) put on the source

A *transferred* word is one with valid & ready.  "Transmitted symbols" are counted at the sink handshake: with the
downstream always ready every accepted word is put on the wire in the next cycle, either as itself or (logical idle
filler) replaced by the SKP word, so accepted words == transmitted words.

Statement -> ensures
    S1 "equals the link layer's stream except that some logical-idle filler words are replaced by SKP words":
         E_forward   not replacing: source' is exactly the word transferred at the sink (valid' <=> a word was transferred)
         E_replace   replacing:     source' is the valid word SKP SKP SKP SKP
    S2 "packet and command data are never replaced, dropped or delayed out of order":
         E_only_idle a word is replaced only under can_send_skip (the link layer's "this is idle filler" qualifier);
         E_forward   fixed latency of one clock for everything else => never dropped, never reordered;
         E_ready     the link layer is never stalled
    S3 "the scrambler does not advance over inserted SKPs":
         E_hold      sending_skip (wired to Scrambler.hold; C31 proves hold => no advance) is raised exactly in the cycles
                     whose sink word is replaced;  + the wiring lemma in USB3PhysicalLayer (call obligation)
    S4 "scheduled at the rate of one SKP ordered set per 354 transmitted symbols whenever idle time permits":
         E_rate      a SKP word is inserted in exactly the cycles with can_send_skip and owed >= 2 (the unit only inserts
                     pairs); hence  sets_sent = floor(symbols/354) - owed  with 0 <= owed, and owed <= 7 as long as idle
                     time permits (assumption R3), and owed < 2 at the end of every cycle in which idle permitted.

FINDING on the unchanged tree (E_forward fails, witness replayed, 1 cycle): `sink.ready` is a *register* (source.ready
delayed by a clock, 0 after reset) while `source.valid <= sink.valid` ignores it.  A word presented in a cycle with
sink.ready = 0 (first cycle after reset; also the cycle in which source.ready rises when leaving electrical idle) is put
on the source although it was not accepted; the link layer keeps presenting it, it is accepted in the next cycle and sent
a second time.  Proposed fix: proposed_fixes/C33_ctc_forward_only_accepted_words.diff (forward only accepted words);
with it every obligation is discharged.

Also here: `call` obligations on the real parents — USB3PhysicalLayer wires Scrambler.hold = sending_skip, scrambler ->
inserter -> PHY and source.ready = not electrical idle; USB3LinkLayer raises can_send_skp exactly when its transmit arbiter
is idle (no packet / command / training stream valid) and then offers a valid IDL word.
"""
import z3
from hwv.contract import B, bvc, bits, zx
from luna.gateware.usb.usb3.physical.ctc import CTCSkipInserter

ASSUMPTIONS = ["C33: downstream of the inserter always ready (transmitter not in electrical idle)",
               "C33: an idle opportunity occurs before 8 SKP ordered sets are owed ('whenever idle time permits')"]

SKP_DATA, SKP_CTRL = 0x3C3C3C3C, 0b1111      # K28.1 x4 (USB 3.2 table 6-2)
LIMIT = 354                                  # USB 3.2 6.4.3


def contract(c):
    d = CTCSkipInserter()
    ts = c.unit(d, {"sink_data": d.sink.data, "sink_ctrl": d.sink.ctrl, "sink_valid": d.sink.valid,
                    "sink_ready": d.sink.ready, "source_data": d.source.data, "source_ctrl": d.source.ctrl,
                    "source_valid": d.source.valid, "source_ready": d.source.ready,
                    "can_send_skip": d.can_send_skip, "sending_skip": d.sending_skip})
    I, O = ts.inputs, ts.outputs
    can = I["can_send_skip"] == 1
    xfer_in = z3.And(I["sink_valid"] == 1, O["sink_ready"] == 1)

    c.require("R1_downstream_always_ready", I["source_ready"] == 1,
              why="as wired in USB3PhysicalLayer while transmitting: tx_ctc.source.ready = 1 outside electrical idle")
    c.require("R2_idle_filler_is_presented_when_skips_are_allowed", z3.Implies(can, I["sink_valid"] == 1),
              why="interface doc of can_send_skip ('asserted when we're transmitting logical idle'); link layer raises it "
                  "only together with a valid IDL word (link/layer.py, `with m.If(arbiter.idle)`)")

    EW, OW = 10, 8
    elapsed, owed = c.ghost("elapsed", EW), c.ghost("owed", OW)
    cross = z3.And(xfer_in, z3.UGE(elapsed + 4, LIMIT))
    replacing = z3.And(can, z3.UGE(owed, 2))                  # specification of when a SKP word goes out
    c.set_next(elapsed, z3.If(xfer_in, z3.If(cross, elapsed + 4 - LIMIT, elapsed + 4), elapsed))
    c.set_next(owed, owed + z3.If(cross, bvc(1, OW), bvc(0, OW)) - z3.If(replacing, bvc(2, OW), bvc(0, OW)))
    c.require("R3_idle_time_permits", z3.Implies(owed == 7, can),
              why="'whenever idle time permits': an idle opportunity comes before 8 ordered sets (2832 symbols) are owed "
                  "(the unit's 3-bit skips_to_send counter would wrap otherwise)")

    # ---- abstraction
    c.inv("byte_counter_is_elapsed", z3.And(zx(ts.sig("data_bytes_elapsed"), EW) == elapsed, z3.ULT(elapsed, LIMIT)))
    c.inv("skips_to_send_is_owed", z3.And(zx(ts.sig("skips_to_send"), OW) == owed, z3.ULE(owed, 7)))
    # sink.ready is a register (source.ready delayed by one clock); it is low in the first cycle after reset
    started = c.ghost("started", 1)                           # 0 only in the first cycle after reset
    c.set_next(started, bvc(1, 1))
    c.inv("link_layer_never_stalled_after_first_cycle", z3.Implies(started == 1, O["sink_ready"] == 1))
    c.inv("nothing_owed_in_first_cycle", z3.Implies(started == 0, z3.And(owed == 0, elapsed == 0)))

    # ---- ensures
    nv, nd, nc = c.nx(O["source_valid"]), c.nx(O["source_data"]), c.nx(O["source_ctrl"])
    c.ensure("E_rate_skp_word_exactly_when_idle_permits_and_two_sets_owed", (O["sending_skip"] == 1) == replacing,
             clause="SKP symbols are scheduled at the rate of one SKP ordered set per 354 transmitted symbols whenever idle "
                    "time permits (pairs: inserted in exactly the cycles with can_send_skip and >= 2 sets owed)")
    c.ensure("E_replace_skp_word_goes_out", z3.Implies(replacing, z3.And(nv == 1, nd == SKP_DATA, nc == SKP_CTRL)),
             clause="some logical-idle filler words are replaced by SKP words")
    c.ensure("E_only_idle_is_replaced", z3.Implies(O["sending_skip"] == 1, can),
             clause="packet and command data are never replaced (only words the link layer marks as idle filler)")
    c.ensure("E_forward_everything_else_unchanged_one_clock_later",
             z3.Implies(z3.Not(replacing), z3.And(nv == z3.If(xfer_in, bvc(1, 1), bvc(0, 1)),
                                                  z3.Implies(xfer_in, z3.And(nd == I["sink_data"], nc == I["sink_ctrl"])))),
             clause="the transmitted symbol stream equals the link layer's stream ...; never replaced, dropped or delayed out "
                    "of order (every transferred word appears on the source exactly once, one clock later)")
    c.ensure("E_ready_link_layer_never_stalled", z3.Implies(started == 1, O["sink_ready"] == 1),
             clause="never ... delayed (with the downstream always ready the link layer is never stalled, except in the "
                    "very first cycle after reset)")
    c.ensure("E_hold_scrambler_hold_is_exactly_the_replaced_cycles",
             (O["sending_skip"] == 1) == z3.And(nv == 1, nd == SKP_DATA, nc == SKP_CTRL, replacing),
             clause="the scrambler does not advance over inserted SKPs (sending_skip = Scrambler.hold marks exactly the replaced words)")
    c.ensure("E_rate_owed_is_bounded", z3.ULE(c.nx(owed), 7),
             clause="rate: sets sent = floor(symbols/354) - owed with 0 <= owed <= 7 (under R3; the unit's counter never wraps)")

    # 354 symbols need 89 cycles, two owed sets 177: too deep for the quick BMC budget -> checked against Inv & Req instead
    c.cover("skp_word_inserted", z3.And(replacing, I["sink_valid"] == 1), reach=False)
    c.cover("crossing_354", cross, reach=False)
    c.cover("owed_four", z3.And(owed == 4, z3.Not(can)), reach=False)
    c.cover("forwarding_data", z3.And(xfer_in, z3.Not(can), I["sink_ctrl"] == 0b0001))
    c.cover_depth = 6


# ------------------------------------------------------------------------------------------------ call obligations
def _recording(module, names):
    """Patch `module.<name>` so that instances the real elaborate() creates are remembered (the real classes are used)."""
    from unittest import mock
    made, patches = {}, []
    for nm in names:
        orig = getattr(module, nm)

        def factory(*a, _orig=orig, _nm=nm, **k):
            obj = _orig(*a, **k)
            made[_nm] = obj
            return obj
        patches.append(mock.patch.object(module, nm, side_effect=factory))
    return made, patches


def physical_layer_wiring(c):
    """USB3PhysicalLayer.elaborate() connects scrambler -> tx_ctc -> PHY the way the unit contracts (C31, C33) assume."""
    from luna.gateware.interface.pipe import PIPEInterface
    from luna.gateware.usb.usb3.physical import layer as L
    phy = PIPEInterface(width=4)                       # sidecar open PHY interface: supplies inputs, models nothing
    d = L.USB3PhysicalLayer(phy=phy, sync_frequency=1e6)
    made, patches = _recording(L, ["Scrambler", "CTCSkipInserter"])
    for p in patches: p.start()
    try:
        ts = c.unit(d, {"sink_data": d.sink.data, "sink_ctrl": d.sink.ctrl, "sink_valid": d.sink.valid, "sink_ready": d.sink.ready,
                        "can_send_skp": d.can_send_skp, "tx_electrical_idle": d.tx_electrical_idle,
                        "enable_scrambling": d.enable_scrambling, "tx_data": phy.tx_data, "tx_datak": phy.tx_datak})
    finally:
        for p in patches: p.stop()
    I, O = ts.inputs, ts.outputs
    scr, ctc = made["Scrambler"], made["CTCSkipInserter"]
    v = ts.of
    c.comb("scrambler_hold_is_ctc_sending_skip", v(scr.hold), v(ctc.sending_skip),
           clause="the scrambler does not advance over inserted SKPs (Scrambler.hold = CTCSkipInserter.sending_skip)")
    c.comb("ctc_can_send_skip_is_layer_input", v(ctc.can_send_skip), I["can_send_skp"], clause="SKPs only in place of idle: qualifier comes from the link layer")
    c.comb("ctc_sink_is_scrambler_source",
           z3.Concat(v(ctc.sink.valid), v(ctc.sink.ctrl), v(ctc.sink.data), v(scr.source.ready)),
           z3.Concat(v(scr.source.valid), v(scr.source.ctrl), v(scr.source.data), v(ctc.sink.ready)),
           clause="the inserter works on the scrambled link-layer stream")
    c.comb("scrambler_sink_is_link_layer_stream_always_valid",
           z3.Concat(v(scr.sink.valid), v(scr.sink.ctrl), v(scr.sink.data), O["sink_ready"], v(scr.enable)),
           z3.Concat(bvc(1, 1), I["sink_ctrl"], I["sink_data"], v(scr.sink.ready), I["enable_scrambling"]),
           clause="the scrambler input is the link layer's stream")
    idle = I["tx_electrical_idle"] == 1
    c.comb("downstream_ready_outside_electrical_idle", v(ctc.source.ready), z3.If(idle, bvc(0, 1), bvc(1, 1)),
           clause="(requires R1) tx_ctc.source.ready = 1 whenever the transmitter is not in electrical idle")
    c.comb("phy_transmits_ctc_source",
           z3.Concat(O["tx_datak"], O["tx_data"]),
           z3.If(idle, bvc(0, 36), z3.Concat(v(ctc.source.ctrl), v(ctc.source.data))),
           clause="the transmitted symbol stream is the inserter's source")
    c.cosim_cycles = 16


def link_layer_wiring(c):
    """USB3LinkLayer.elaborate(): can_send_skp is raised exactly when the transmit arbiter is idle, and then the word given
    to the physical layer is a valid logical-idle word (IDL = D0.0 x4)."""
    from luna.gateware.interface.pipe import PIPEInterface
    from luna.gateware.usb.usb3.physical.layer import USB3PhysicalLayer
    from luna.gateware.usb.usb3.link import layer as LL
    phy = PIPEInterface(width=4)
    p = USB3PhysicalLayer(phy=phy, sync_frequency=1e6)
    d = LL.USB3LinkLayer(physical_layer=p, ss_clock_frequency=1e6)
    made, patches = _recording(LL, ["SuperSpeedStreamArbiter"])
    for q in patches: q.start()
    try:
        ts = c.unit(d, {"psink_data": p.sink.data, "psink_ctrl": p.sink.ctrl, "psink_valid": p.sink.valid,
                        "can_send_skp": p.can_send_skp})
    finally:
        for q in patches: q.stop()
    O = ts.outputs
    arb = made["SuperSpeedStreamArbiter"]
    c.comb("can_send_skp_iff_arbiter_idle", O["can_send_skp"], ts.of(arb.idle),
           clause="SKPs are inserted only in place of idle: can_send_skp only when the arbiter is idle")
    c.lemma("idle_filler_is_a_valid_IDL_word_when_skips_are_allowed",
            z3.Implies(O["can_send_skp"] == 1, z3.And(O["psink_valid"] == 1, O["psink_data"] == 0, O["psink_ctrl"] == 0)),
            clause="(requires R2) some logical-idle filler words are replaced: the word offered under can_send_skp is logical idle")
    c.lemma("arbiter_idle_means_no_packet_or_command_stream_is_valid",
            z3.Implies(ts.of(arb.idle) == 1, z3.And(*[ts.of(s.valid) == 0 for s in arb._sinks])),
            clause="packet and command data are never replaced: idle means none of the arbiter's input streams has a word")
    c.cosim_cycles = 8


def link_layer_tx_stream_wiring(c):
    """USB3LinkLayer.elaborate() with every interface signal a free input: "the link layer's stream" handed to the physical layer is
    the transmit arbiter's output whenever the arbiter is not idle, the arbiter's inputs are - in priority order - the compliance
    pattern emitter, the training set transceiver, the link command generator (HeaderPacketReceiver.source) and the packet
    transmitter, and a word any of them is told was taken is the word the physical layer took."""
    from .c37_header_receive import LinkLayerUnits
    from .c46_ss_in_endpoint import stream_same, raw_stream_to_phy, RAW_WORD
    U = LinkLayerUnits(c)
    of, S, ts, phy, arb = U.of, U.S, U.ts, U.phy, U.arb
    c.lemma("transmit_arbiter_has_exactly_four_inputs", z3.BoolVal(len(arb._sinks) == 4))
    c.lemma("phy_sink_is_arbiter_output_unless_idle",
            z3.Implies(of(arb.idle) == 0, z3.And(stream_same(ts, phy.sink, arb.source, RAW_WORD), S(arb.source.ready, phy.sink.ready),
                                                 of(phy.can_send_skp) == 0)),
            clause="packet and command data are never replaced, dropped or delayed out of order: outside idle the word given to the physical "
                   "layer is the arbiter's (valid, data, ctrl; ready back) and no SKP may replace it")
    c.lemma("arbiter_is_never_told_ready_while_idle_filler_is_sent", z3.Implies(of(arb.idle) == 1, of(arb.source.ready) == 0),
            clause="never dropped: no producer is told its word was taken in a cycle in which logical idle was sent instead")
    if len(arb._sinks) == 4:
        for index, (name, producer) in enumerate([("compliance_emitter", U.compliance.source), ("training_set_transceiver", U.tsx.source),
                                                  ("link_command_generator", U.gen.source), ("packet_transmitter", U.raw_tx.source)]):
            raw_stream_to_phy(c, ts, arb, index, arb._sinks[index], producer, name, phy, "tx")


def contracts(tier):
    yield ("USB3LinkLayer(wiring)", "tx_stream", link_layer_tx_stream_wiring)
    yield ("CTCSkipInserter", "", contract)
    yield ("USB3PhysicalLayer(wiring)", "", physical_layer_wiring)
    yield ("USB3LinkLayer(wiring)", "", link_layer_wiring)
    # callee contract this property leans on ("the scrambler does not advance over inserted SKPs", "never replaced, dropped or
    # delayed"): the Scrambler as the physical layer instantiates it scrambles the word it is given in the SAME cycle and holds its
    # keystream under `hold` (C31's leaf contract, re-checked here so that a scrambler that falls out of step with the inserter's
    # same-cycle `sending_skip` / `can_send_skp` fails this check too, not only C31's)
    from .c31_scrambling import make_scrambler
    from luna.gateware.usb.usb3.physical.scrambling import Scrambler
    yield ("Scrambler", "callee_contract_C31_init_ffff", make_scrambler(Scrambler, 0xFFFF))
