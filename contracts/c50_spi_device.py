"""C50 — SPIDeviceInterface: every word_size consecutive sample edges of a transaction are assembled into one word and
reported once; in the modes where data changes on the leading edge the presented word is returned MSB first.

Vocabulary (all ghosts are functions of the bus inputs sck/sdi/cs and word_out only):
    serial     = sck xor clock_polarity;   prev = serial in the previous cycle (power-on: 0, i.e. the idle level)
    leading    = not prev and serial;      trailing = prev and not serial
    sample edge = selected and (trailing if clock_phase else leading);   output edge = selected and the other one
    selected   = cs (or not cs when cs_idles_high)
Receive spec:
    cnt  : sample edges seen so far in the current word (0 .. word_size-1); 0 whenever the chip is not selected
    asm  : the last word_size sampled bits assembled in the configured bit order
           (msb_first: first sampled bit ends up in the MSB;  lsb first: first sampled bit ends up in the LSB)
    a word is complete in the cycle of a sample edge with cnt == word_size-1: the completed word is asm after that edge.
    It is reported two clock cycles later: word_complete is a one-cycle strobe and word_in then carries that word;
    word_in changes at no other time.
Transmit spec (clock_phase = 1: data changes on the leading edge, is sampled on the trailing edge):
    txw : the word presented for transmission = word_out, latched while the chip is not selected and at each completed word
    oe  : output edges since txw was latched;  after the j-th output edge (1 <= j <= word_size) sdo == bit (word_size-j)
          of txw when msb_first (the statement's clause).  For msb_first=False the tree sends LSB first; that order is
          checked too, but it is the tree's documented option, not a clause of the statement (reported as such).

Finding on the unchanged tree: bit_count is only cleared when CS deasserts and otherwise relies on natural wrap-around, so
for word sizes that are not a power of two the second and later words of a transaction are not reported after word_size
sample edges (w=3: second word_complete missing; replays/C50_SPIDeviceInterface_w3_property_level_witness.json, replayed
on the simulator).  Proposed fix: proposed_fixes/C50_spi_bit_count_wrap.diff (clear bit_count when a word completes).
"""
import z3
from hwv.contract import B, zx, bvc, bits
from luna.gateware.interface.spi import SPIDeviceInterface

LEVEL = "proof"
EXPLANATION = ("Real SPIDeviceInterface per (word_size, polarity, phase, bit order, cs polarity); ghosts = edge detector, "
               "sample-edge counter modulo word_size, assembled word, 2-stage report pipeline, presented word and output-edge "
               "counter, all from bus inputs; invariant maps bit_count/current_rx/current_tx/word_accepted to the ghosts; "
               "ensures: word_complete iff a word was completed two cycles earlier, word_in is that word and otherwise "
               "unchanged, sdo is the announced bit after every output edge (phase 1). Unbounded 1-induction.")
ASSUMPTIONS = ["transmit clause is stated for clock_phase=1 only (the statement's 'modes where data changes on the leading edge')"]


def make(ws, pol, pha, msb, cs_high=False):
    def contract(c):
        d = SPIDeviceInterface(word_size=ws, clock_polarity=pol, clock_phase=pha, msb_first=msb, cs_idles_high=cs_high)
        ts = c.unit(d, {"i_sck": d.spi.sck, "i_sdi": d.spi.sdi, "i_cs": d.spi.cs, "i_word_out": d.word_out,
                        "o_sdo": d.spi.sdo, "o_word_in": d.word_in, "o_word_complete": d.word_complete})
        I, O = ts.inputs, ts.outputs
        CW = 8
        assert ws + 2 < (1 << CW)
        serial = (I["i_sck"] == 1) != bool(pol)
        prev = c.ghost("prev_serial", 1, init=0)
        c.set_next(prev, z3.If(serial, bvc(1, 1), bvc(0, 1)))
        leading = z3.And(prev == 0, serial)
        trailing = z3.And(prev == 1, z3.Not(serial))
        selected = (I["i_cs"] == 1) != bool(cs_high)
        sample = z3.And(selected, trailing if pha else leading)
        output = z3.And(selected, leading if pha else trailing)
        sdi = I["i_sdi"]

        cnt = c.ghost("cnt", CW, init=0)
        asm = c.ghost("asm", ws, init=0)
        if ws == 1:
            asm_shift = sdi
        elif msb:
            asm_shift = z3.Concat(bits(asm, ws - 2, 0), sdi)
        else:
            asm_shift = z3.Concat(sdi, bits(asm, ws - 1, 1))
        done = z3.And(sample, cnt == ws - 1)
        c.set_next(cnt, z3.If(z3.Not(selected), bvc(0, CW), z3.If(sample, z3.If(cnt == ws - 1, bvc(0, CW), cnt + 1), cnt)))
        c.set_next(asm, z3.If(sample, asm_shift, asm))
        # report pipeline: p1 = a word was completed one cycle ago (w1 = that word), p2 = two cycles ago; wrep = last reported word
        p1, p2 = c.ghost("p1", 1, init=0), c.ghost("p2", 1, init=0)
        w1, wrep = c.ghost("w1", ws, init=0), c.ghost("wrep", ws, init=0)
        c.set_next(p1, z3.If(done, bvc(1, 1), bvc(0, 1)))
        c.set_next(p2, p1)
        c.set_next(w1, z3.If(done, asm_shift, w1))
        c.set_next(wrep, z3.If(p1 == 1, w1, wrep))
        words = c.ghost("words", 2, init=0)          # words completed in the current transaction (saturating; for covers only)
        c.set_next(words, z3.If(z3.Not(selected), bvc(0, 2), z3.If(z3.And(done, words != 3), words + 1, words)))

        # ---- invariant (abstraction map)
        c.inv("count_in_range", z3.ULT(cnt, ws))
        c.inv("edge_detector_register", ts.sig("past_clk") == prev)
        if ws > 1:
            c.inv("bit_count_is_edges_in_word", zx(ts.sig("bit_count"), CW) == cnt)
        c.inv("rx_shift_register_is_assembled_bits", ts.sig("current_rx") == asm)
        c.inv("word_accepted_is_completion_one_cycle_ago", (ts.sig("word_accepted") == 1) == (p1 == 1))
        c.inv("completed_word_still_in_shift_register", z3.Implies(p1 == 1, asm == w1))
        c.inv("word_complete_register", (ts.sig("word_complete") == 1) == (p2 == 1))
        c.inv("word_in_is_last_reported_word", ts.sig("word_in") == wrep)

        # ---- receive clauses
        c.ensure("word_complete_iff_word_finished_two_cycles_ago", (O["o_word_complete"] == 1) == (p2 == 1),
                 clause="assembles every word_size consecutive sample edges into one received word and reports it once, for every word of the transaction")
        c.ensure("completion_reported_in_two_cycles", (c.nx(O["o_word_complete"], 2) == 1) == done,
                 clause="every word_size consecutive sample edges ... reports it once (strobe exactly two cycles after the word's last sample edge, never otherwise)")
        c.ensure("reported_word_is_assembled_word", z3.Implies(done, c.nx(O["o_word_in"], 2) == asm_shift),
                 clause="one received word (in the configured bit order)")
        c.ensure("word_in_changes_only_when_reported", c.nx(O["o_word_in"]) == z3.If(p1 == 1, w1, O["o_word_in"]),
                 clause="reports it once (word_in holds the last reported word)")
        # ---- transmit clause (data changes on the leading edge: clock_phase = 1)
        if pha == 1:
            txw = c.ghost("txw", ws, init=0)
            oe = c.ghost("oe", CW, init=0)
            relatch = z3.Or(z3.Not(selected), done)
            c.set_next(txw, z3.If(relatch, I["i_word_out"], txw))
            c.set_next(oe, z3.If(relatch, bvc(0, CW), z3.If(output, oe + 1, oe)))
            # edges alternate, so there is at most one more output edge than sample edges since the last latch
            pz = zx(prev, CW)
            c.inv("output_edges_in_range", z3.ULE(oe, ws))
            c.inv("edges_alternate", z3.Or(oe == cnt + pz, oe + 1 == cnt + pz))
            tx = ts.sig("current_tx")
            for j in range(ws + 1):
                if j < ws:
                    rel = (bits(tx, ws - 1, j) == bits(txw, ws - 1 - j, 0)) if msb else (bits(tx, ws - 1 - j, 0) == bits(txw, ws - 1, j))
                    c.inv(f"tx_shift_register_after_{j}_output_edges", z3.Implies(oe == j, rel))
                if j >= 1:
                    bit = bits(txw, ws - j) if msb else bits(txw, j - 1)
                    c.inv(f"sdo_register_after_{j}_output_edges", z3.Implies(oe == j, O["o_sdo"] == bit))
                    c.ensure(f"sdo_after_output_edge_{j}", z3.Implies(oe == j, O["o_sdo"] == bit),
                             clause="in modes where data changes on the leading edge it returns the bits of the word presented for "
                                    "transmission, most significant bit first" + ("" if msb else " [tree option msb_first=False: LSB first]"))
            c.ensure("sdo_changes_only_on_output_edges", z3.Implies(z3.Not(output), c.nx(O["o_sdo"]) == O["o_sdo"]),
                     clause="data changes on the leading edge (only)")
            c.cover("all_bits_returned", oe == ws, reach=ws <= 9)
            c.cover("second_word_bit_returned", z3.And(oe == 1, words == 1, O["o_sdo"] == 1), reach=ws <= 9)

        # (deep situations -- two whole words of a wide word size -- are guarded as satisfiable-with-invariant only)
        c.cover("word_reported", O["o_word_complete"] == 1, reach=ws <= 17)
        c.cover("second_word_of_transaction_reported", z3.And(words == 2, O["o_word_complete"] == 1, O["o_word_in"] != 0), reach=ws <= 9)
        c.cover("deselected_mid_word", z3.And(z3.Not(selected), cnt != 0) if ws > 1 else z3.Not(selected))
        c.cover_depth = min(4 * ws + 10, 80)
        c.bmc_depth = max(c.bmc_depth, 4 * ws + 12)
    return contract


def contracts(tier):
    if tier == "quick":
        cfgs = [(8, 0, 0, True, False), (8, 0, 1, True, False), (8, 1, 0, False, False), (8, 1, 1, True, True),
                (3, 0, 1, True, False), (5, 0, 0, True, False), (6, 1, 1, False, False), (1, 0, 1, True, False)]
    else:
        allm = [(pol, pha, msb) for (pol, pha) in ((0, 0), (0, 1), (1, 0), (1, 1)) for msb in (True, False)]
        cfgs = [(ws, pol, pha, msb, False) for ws in (5, 8) for (pol, pha, msb) in allm]
        for ws in (1, 2, 3, 4, 6, 7, 9, 10, 11, 12, 13, 15, 16, 17):           # every size in both phases, modes rotated
            cfgs += [(ws, ws % 2, 0, ws % 3 != 0, False), (ws, (ws + 1) % 2, 1, ws % 4 != 1, False)]
        cfgs += [(8, 0, 0, True, True), (5, 0, 1, True, True), (32, 0, 1, True, False), (32, 0, 0, True, False), (24, 1, 1, True, False)]
    for ws, pol, pha, msb, csh in cfgs:
        yield ("SPIDeviceInterface", f"w{ws}_cpol{pol}_cpha{pha}_{'msb' if msb else 'lsb'}{'_csn' if csh else ''}", make(ws, pol, pha, msb, csh))
