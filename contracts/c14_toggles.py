"""C14 — data toggles advance only on success and reset on CLEAR_FEATURE(ENDPOINT_HALT).

Three units, each with the part of the statement it implements:

 IN   USBStreamInEndpoint / USBInTransferManager (transfer.py, endpoints/stream.py:85).  Observer ghost `exp_pid` = the toggle
      the statement prescribes: DATA0 after power-on, flips exactly when the host ACKs a completely transmitted packet,
      back to DATA0 when a clear-halt strobe names (this number, IN).  Ensures: every packet attempt (first try or retry,
      data or ZLP) carries exp_pid, and the PID is stable over an attempt.  (Ghosts/invariants shared with C11.)
 OUT  USBStreamOutEndpoint (endpoints/stream.py:426).  Ghost `exp`: flips exactly when the device ACKs a data packet that
      carried the expected toggle (= new data), DATA0 on a clear-halt strobe naming (this number, OUT).
 REQ  StandardRequestHandler CLEAR_FEATURE state (request/standard.py:171).  Ghosts `cf` (a CLEAR_FEATURE request is open)
      and `zs` (its status stage was answered with a ZLP, i.e. it was a CLEAR_FEATURE(ENDPOINT_HALT) to an endpoint
      recipient, and no other token was seen since).  Ensure: the clear-halt strobe is raised exactly when the host ACKs that ZLP, with number/direction =
      wIndex[3:0]/wIndex[7].

The status endpoint's toggle (USBSignalInEndpoint) is covered by C17 (`toggle_advances_exactly_on_ack`); that endpoint
does not listen to clear_endpoint_halt_in at all (observation, see report).
"""
import z3
from hwv.contract import B, bvc, bits, zx
from luna.gateware.usb.usb2.endpoints.stream import USBStreamOutEndpoint
from luna.gateware.memory import TransactionalizedFIFO
from luna.gateware.usb.request.standard import StandardRequestHandler
from usb_protocol.emitters import DeviceDescriptorCollection
from usb_protocol.types import USBStandardRequests, USBRequestType, USBRequestRecipient, USBStandardFeatures
from .c11_bulk_in import View, build

LEVEL = "proof"
EXPLANATION = ("1-induction on the netlists of the real USBStreamInEndpoint/USBInTransferManager, USBStreamOutEndpoint and "
               "StandardRequestHandler; the toggle registers are related to observer-level ghosts defined by the statement's rule.")

ASSUMPTIONS = [
    "C14/IN: the clear-halt strobe arrives between transactions of the endpoint (not while it transmits or waits for an ACK) and not in "
    "the same cycle as a response slot; discard=0; ACK and token strobes exclusive; transmitter not ready in a packet's first cycle (as C11)",
    "C14/OUT: is_out and is_ping token flags are exclusive (C01)",
    "C14/REQ: SETUP fields change only together with `received` (USBSetupDecoder)",
]
KNOWN_DEFECTS = """Refuted with a replayed witness unless proposed_fixes/C14_toggles.diff is applied:
 * USBInTransferManager: a reset_sequence strobe in the cycle in which WAIT_FOR_DATA hands a completed packet to WAIT_TO_SEND
   is overridden by that transition's PID toggle (bit 0 is assigned twice, the FSM's assignment wins): the next packet is
   DATA1 although CLEAR_FEATURE(ENDPOINT_HALT) completed.
 (StandardRequestHandler: the earlier finding "any ACK in CLEAR_FEATURE raises clear_endpoint_halt" has been fixed in /repo:
  the strobe is now gated by a status-ZLP-sent flag; this contract proves the fixed behaviour.)"""

IN_ENSURES = {"every_attempt_carries_expected_pid", "pid_stable_during_packet", "in_token_is_answered",
              "retry_of_zlp_is_zlp", "data_follows_accepted_token", "packet_stream_framing"}
IN_COVERS = {"retry_attempt", "second_packet_pid1", "nak"}


# ------------------------------------------------------------------------------------------------ IN endpoints
def make_in(kind, MAX, epnum=2):
    def contract(c):
        V = View(c, kind, MAX, epnum=epnum)
        g = build(c, V, allow_reset=True, only=IN_ENSURES | IN_COVERS)
        I, O, n = V.I, V.O, c.nx
        exp_pid, acked, reset = g["exp_pid"], g["acked"], V.reset_seq
        rst_val = z3.If(V.start_d1, bvc(1, 1), bvc(0, 1))       # DATA0 (bare manager: the configured start PID)
        c.ensure("toggle_rule",
                 n(exp_pid) == z3.If(reset, rst_val, z3.If(acked, ~exp_pid, exp_pid)),
                 clause="the IN toggle advances exactly once per host ACK of a completely sent packet and never otherwise; a clear-halt "
                        "naming this endpoint number and direction IN resets it to DATA0 (definition of the observer ghost)")
        c.ensure("next_packet_after_reset_is_data0",
                 z3.Implies(z3.And(reset, n(z3.Or(g["start_data"], g["zlp_now"]))), n(V.pid) == zx(rst_val, 2)),
                 clause="CLEAR_FEATURE(ENDPOINT_HALT) naming this IN endpoint resets its toggle to DATA0: a packet sent right after the strobe is DATA0")
        if kind == "endpoint":
            ch = I["i_clear_halt"]
            foreign = z3.And(bits(ch, 0) == 1, z3.Not(reset))
            c.ensure("foreign_clear_halt_changes_nothing", z3.Implies(z3.And(foreign, z3.Not(acked)), n(exp_pid) == exp_pid),
                     clause="... and no other: a clear-halt naming another endpoint number or the OUT direction leaves this toggle unchanged")
            eff = z3.If(g["pend"], bits(V.pid, 0), ~bits(V.pid, 0))     # the toggle the next new packet will carry, as the register encodes it
            c.ensure("foreign_clear_halt_leaves_toggle_register",
                     z3.Implies(foreign, z3.And(n(eff) == z3.If(acked, ~eff, eff), bits(n(V.pid), 1) == 0)),
                     clause="... and no other: with a clear-halt naming another endpoint/direction the PID register still only advances on an ACK")
            c.cover("foreign_clear_halt_while_data1", z3.And(foreign, exp_pid == 1, bits(ch, 5, 2) == 2))
            c.cover("foreign_then_data1_packet", z3.And(g["sending"], V.pid == 1))
        c.cover("reset_while_data1_expected", z3.And(reset, exp_pid == 1))
        c.cover("reset_while_packet_pending", z3.And(reset, exp_pid == 1, V.st("WAIT_TO_SEND")))
        c.cover("reset_while_packet_completes", z3.And(reset, exp_pid == 1, V.st("WAIT_FOR_DATA"), V.accept, I["i_last"] == 1))
        c.cover("packet_after_reset", z3.And(g["sending"], V.pid == 0, g["n_ack"] == 1, g["n_in"] == 2))
        c.cover_depth = 20
        c.timeout_s = max(c.timeout_s, 180)
    return contract


# ------------------------------------------------------------------------------------------------ OUT endpoint
def make_out(MAX, epnum=3):
    def contract(c):
        d = USBStreamOutEndpoint(endpoint_number=epnum, max_packet_size=MAX)
        itf = d.interface
        ports = {"i_tok_endpoint": itf.tokenizer.endpoint, "i_tok_is_out": itf.tokenizer.is_out, "i_tok_is_ping": itf.tokenizer.is_ping,
                 "i_tok_rfr": itf.tokenizer.ready_for_response, "i_rx_rfr": itf.rx_ready_for_response,
                 "i_rx_pid": itf.rx_pid_toggle, "i_rx_valid": itf.rx.valid, "i_rx_next": itf.rx.next, "i_rx_payload": itf.rx.payload,
                 "i_rx_complete": itf.rx_complete, "i_rx_invalid": itf.rx_invalid,
                 "i_clear_halt": itf.clear_endpoint_halt_in.as_value(),
                 "o_ack": itf.handshakes_out.ack, "o_nak": itf.handshakes_out.nak,
                 "i_s_ready": d.stream.ready, "o_s_valid": d.stream.valid}
        ts = c.unit(d, ports)
        I, O, n = ts.inputs, ts.outputs, c.nx
        fifo = ts.instance(TransactionalizedFIFO)
        write_en = ts.of(fifo.write_en) == 1
        mine = z3.And(I["i_tok_endpoint"] == epnum, I["i_tok_is_out"] == 1)
        resp = z3.And(mine, I["i_rx_rfr"] == 1)                     # response slot after a data packet of an OUT to this endpoint
        ch = I["i_clear_halt"]
        clear = z3.And(bits(ch, 0) == 1, bits(ch, 1) == 0, bits(ch, 5, 2) == epnum)
        foreign = z3.And(bits(ch, 0) == 1, z3.Not(clear))
        exp = c.ghost("exp", 1, init=0)
        matches = I["i_rx_pid"] == zx(exp, 2)                        # the data packet carries the expected toggle: new data
        new_data_acked = z3.And(resp, O["o_ack"] == 1, matches)
        c.set_next(exp, z3.If(clear, bvc(0, 1), z3.If(new_data_acked, ~exp, exp)))
        c.require("token_kind_flags_exclusive", z3.Not(z3.And(I["i_tok_is_out"] == 1, I["i_tok_is_ping"] == 1)),
                  why="is_out/is_ping decode one reported PID (C01 ensures)")
        reg = ts.sig("expected_data_toggle")
        c.inv("register_is_statement_toggle", reg == exp)
        c.ensure("toggle_rule", n(reg) == z3.If(clear, bvc(0, 1), z3.If(new_data_acked, ~reg, reg)),
                 clause="the OUT toggle advances exactly once per device ACK of new data and never otherwise; a clear-halt naming this "
                        "endpoint number and direction OUT resets it to DATA0, no other does")
        c.ensure("duplicate_is_acked_not_stored", z3.Implies(z3.And(resp, z3.Not(matches)), z3.And(O["o_ack"] == 1, O["o_nak"] == 0)),
                 clause="a data packet with the other toggle is a retransmission: re-ACKed, toggle unchanged (ACK vs skip behaviour)")
        c.ensure("only_expected_toggle_is_stored", z3.Implies(write_en, z3.And(mine, matches)),
                 clause="only data carrying the expected toggle is accepted")
        c.ensure("exactly_one_handshake", z3.Implies(resp, (O["o_ack"] == 1) != (O["o_nak"] == 1)),
                 clause="each data packet to this endpoint is answered by exactly one of ACK / NAK")
        c.ensure("nak_keeps_toggle", z3.Implies(z3.And(resp, O["o_nak"] == 1, z3.Not(clear)), n(reg) == reg),
                 clause="never otherwise: a NAKed packet does not advance the toggle")
        c.ensure("foreign_clear_halt_changes_nothing", z3.Implies(z3.And(foreign, z3.Not(new_data_acked)), n(reg) == reg),
                 clause="... and no other: a clear-halt naming another number or direction IN leaves this toggle unchanged")
        c.cover("new_data_acked", new_data_acked)
        c.cover("duplicate_acked", z3.And(resp, z3.Not(matches), exp == 1))
        c.cover("clear_while_data1", z3.And(clear, exp == 1))
        c.cover("foreign_clear_while_data1", z3.And(foreign, exp == 1, bits(ch, 5, 2) == epnum))
        c.cover("nak", z3.And(resp, O["o_nak"] == 1), reach=(MAX <= 8))    # needs a full FIFO (2*MAX-1 bytes)
        c.cover_depth = 30
    return contract


# ------------------------------------------------------------------------------------------------ CLEAR_FEATURE in the request handler
def descriptors():
    dc = DeviceDescriptorCollection()
    with dc.DeviceDescriptor() as x:
        x.idVendor, x.idProduct = 0x1209, 0x0001
        x.iManufacturer, x.iProduct, x.iSerialNumber = "hwv", "c14", "0"
        x.bNumConfigurations = 1
    with dc.ConfigurationDescriptor() as cfg:
        with cfg.InterfaceDescriptor() as i:
            i.bInterfaceNumber = 0
            with i.EndpointDescriptor() as e:
                e.bEndpointAddress, e.wMaxPacketSize = 0x81, 64
            with i.EndpointDescriptor() as e:
                e.bEndpointAddress, e.wMaxPacketSize = 0x01, 64
    return dc


def make_req(avoid_blockram):
    def contract(c):
        d = StandardRequestHandler(descriptors(), max_packet_size=64, avoid_blockram=avoid_blockram)
        itf, s = d.interface, d.interface.setup
        ports = {"s_" + f: getattr(s, f) for f in ("recipient", "type", "is_in_request", "request", "value", "index", "length", "received")}
        ports.update({"i_status_requested": itf.status_requested, "i_data_requested": itf.data_requested,
                      "i_ack": itf.handshakes_in.ack, "i_tx_ready": itf.tx.ready, "i_active_config": itf.active_config,
                      "i_tok_new": itf.tokenizer.new_token,
                      "o_clear_halt": itf.clear_endpoint_halt.as_value(), "o_stall": itf.handshakes_out.stall,
                      "o_tx_valid": itf.tx.valid, "o_tx_first": itf.tx.first, "o_tx_last": itf.tx.last})
        ts = c.unit(d, ports)
        I, O, n = ts.inputs, ts.outputs, c.nx
        fsm = ts.fsm("fsm_state")
        received, ack, status = I["s_received"] == 1, I["i_ack"] == 1, I["i_status_requested"] == 1
        standard = I["s_type"] == int(USBRequestType.STANDARD)
        is_cf = z3.And(standard, I["s_request"] == int(USBStandardRequests.CLEAR_FEATURE))
        names_halt = z3.And(I["s_recipient"] == int(USBRequestRecipient.ENDPOINT), I["s_value"] == int(USBStandardFeatures.ENDPOINT_HALT))
        fields = z3.Concat(I["s_recipient"], I["s_type"], I["s_request"], I["s_value"], I["s_index"])

        # ---- observer ghosts
        cf = c.ghost("cf", 1, init=0)            # the most recent SETUP was a standard CLEAR_FEATURE and has not completed
        zs = c.ghost("zs", 1, init=0)            # ... its status stage has been answered with a ZLP (so it names ENDPOINT_HALT of an
                                                 #     endpoint recipient) and no other token has been seen since
        prev = c.ghost("prev_fields", fields.size(), init=None)
        c.set_next(prev, fields)
        new_token = I["i_tok_new"] == 1
        complete = z3.And(cf == 1, zs == 1, ack)                         # the host ACKs the status-stage ZLP: the request completes
        zlp = z3.And(cf == 1, status, names_halt)
        c.set_next(cf, z3.If(received, z3.If(is_cf, bvc(1, 1), bvc(0, 1)), z3.If(complete, bvc(0, 1), cf)))
        c.set_next(zs, z3.If(z3.Or(received, complete, new_token), bvc(0, 1), z3.If(zlp, bvc(1, 1), zs)))

        # ---- environment
        c.require("setup_fields_change_only_with_received", z3.Implies(z3.Not(received), fields == prev),
                  why="USBSetupDecoder registers all SETUP fields in the same clock edge that raises `received` (request.py READ_DATA)")

        c.require("ack_and_setup_received_exclusive", z3.Not(z3.And(ack, received)),
                  why="an ACK strobe follows a handshake packet, `received` follows the 8-byte DATA0 packet of a SETUP transaction (C04, USBSetupDecoder)")

        # the request fields as they were in the previous cycle (= the fields of the open request, by the stability assumption)
        def prev_field(name):
            lo = 0
            for nm in reversed(("s_recipient", "s_type", "s_request", "s_value", "s_index")):
                w = I[nm].size()
                if nm == name:
                    return bits(prev, lo + w - 1, lo)
                lo += w
        p_is_cf = z3.And(prev_field("s_type") == int(USBRequestType.STANDARD), prev_field("s_request") == int(USBStandardRequests.CLEAR_FEATURE))
        p_names_halt = z3.And(prev_field("s_recipient") == int(USBRequestRecipient.ENDPOINT),
                              prev_field("s_value") == int(USBStandardFeatures.ENDPOINT_HALT))

        # ---- abstraction
        c.inv("fsm_legal", fsm.legal())
        p_std = prev_field("s_type") == int(USBRequestType.STANDARD)
        c.inv("open_request_is_in_clear_feature_state", z3.Implies(cf == 1, fsm.is_("CLEAR_FEATURE")))
        # (a non-standard request freezes the handler's FSM in whatever state it was: everything is gated by setup.type)
        c.inv("clear_feature_state_means_request_open", z3.Implies(z3.And(fsm.is_("CLEAR_FEATURE"), p_std), cf == 1))
        c.inv("open_request_is_clear_feature", z3.Implies(cf == 1, p_is_cf))
        c.inv("zlp_only_for_open_halt_request", z3.Implies(zs == 1, z3.And(cf == 1, p_names_halt)))
        # whatever register the implementation uses to remember "the status ZLP has been sent" must equal zs: proposed by
        # template for every 1-bit register of the handler and kept only if inductive (Houdini)
        for k, var in ts.state.items():
            if k[0] == 'ff' and var.size() == 1 and '.' not in str(var):
                c.candidate(f"{var}_is_zlp_sent_flag", var == zs)
                c.candidate(f"{var}_is_zlp_sent_flag_unless_frozen", z3.Implies(p_std, var == zs))
                c.candidate(f"{var}_is_zlp_sent_flag_in_state", z3.Implies(fsm.is_("CLEAR_FEATURE"), var == zs))

        # ---- ensures
        ch = O["o_clear_halt"]
        enable, direction, number = bits(ch, 0) == 1, bits(ch, 1), bits(ch, 5, 2)
        c.ensure("strobe_iff_clear_halt_request_completes", enable == complete,
                 clause="a CLEAR_FEATURE(ENDPOINT_HALT) request that completes (status-stage ZLP ACKed) raises the reset strobe; nothing else does "
                        "(not an ACK before the status stage, not an ACK after a STALLed CLEAR_FEATURE of another feature/recipient)")
        c.ensure("strobe_names_windex_endpoint", z3.Implies(enable, z3.And(direction == bits(I["s_index"], 7), number == bits(I["s_index"], 3, 0))),
                 clause="... of exactly the endpoint number and direction it names (wIndex[3:0], wIndex[7])")
        c.ensure("completed_request_named_endpoint_halt", z3.Implies(complete, z3.And(is_cf, names_halt)),
                 clause="only CLEAR_FEATURE requests with recipient ENDPOINT and feature ENDPOINT_HALT complete with a reset")
        c.ensure("status_stage_answer", z3.Implies(z3.And(cf == 1, status, z3.Not(received)),
                                                   z3.If(names_halt, z3.And(O["o_tx_valid"] == 1, O["o_tx_last"] == 1, O["o_tx_first"] == 0, O["o_stall"] == 0),
                                                         z3.And(O["o_stall"] == 1, O["o_tx_valid"] == 0))),
                 clause="the status stage of CLEAR_FEATURE(ENDPOINT_HALT) is answered with a ZLP, any other CLEAR_FEATURE is STALLed")
        c.cover("completes", complete)
        c.cover("ack_after_stalled_clear_feature", z3.And(ack, cf == 1, zs == 0, z3.Not(names_halt), ts.of(itf.handshakes_out.stall) == 0))
        c.cover("token_between_zlp_and_ack", z3.And(new_token, zs == 1))
        c.cover("new_setup_abandons_open_request", z3.And(received, cf == 1, z3.Not(is_cf)))
        c.cover("ack_before_status_stage", z3.And(ack, cf == 1, zs == 0))
        c.cover("completes_in_direction", z3.And(complete, bits(I["s_index"], 7) == 1, bits(I["s_index"], 3, 0) == 5))
        c.cover_depth = 12
    return contract


# Caller side (w1_usb2_glue): the clear-halt record produced by the request handler (REQ) reaches every endpoint (IN, OUT) with
# enable, direction and number intact; the toggles the endpoints drive / compare are the ones the transmitter sends
# (tx_pid_toggle -> data_pid) and the receiver saw (active_pid[3] -> rx_pid_toggle); tokens and handshakes are the device's.
WIRING = ("clear_halt", "tx", "rx", "tokenizer", "handshakes_in", "handshakes_out")


def contracts(tier):
    from .w1_usb2_glue import mux_wiring, device_wiring
    yield ("USBEndpointMultiplexer", "wiring_3_interfaces", mux_wiring(3, WIRING))
    yield ("USBDevice", "wiring_utmi", device_wiring("utmi", WIRING))
    if tier != "quick":
        yield ("USBEndpointMultiplexer", "wiring_1_interface", mux_wiring(1, WIRING))
        yield ("USBEndpointMultiplexer", "wiring_2_interfaces", mux_wiring(2, WIRING))
        yield ("USBDevice", "wiring_ulpi", device_wiring("ulpi", WIRING))
    yield ("USBStreamInEndpoint", "max8", make_in("endpoint", 8))
    yield ("USBInTransferManager", "max8", make_in("manager", 8))
    yield ("USBStreamInEndpoint", "max8_ep9", make_in("endpoint", 8, epnum=9))      # all four endpoint-number bits (wave P)
    yield ("USBStreamOutEndpoint", "max8", make_out(8))
    # endpoint number above 7 (all four bits of the clear-halt / token comparison matter; seed P1_2)
    yield ("USBStreamOutEndpoint", "max8_ep9", make_out(8, epnum=9))
    yield ("StandardRequestHandler", "blockram", make_req(False))
    # caller side (parameter plumbing): the handler a control endpoint builds with add_standard_request_handlers() is the
    # configuration contracted above (same registers, next-state and output functions, incl. clear_endpoint_halt)
    from .c10_unsupported_requests_stall import make_handler_plumbing
    yield ("USBControlEndpoint", "plumbing_standard_handler_is_contracted_unit",
           make_handler_plumbing("endpoint", {"avoid_blockram": False}, {"avoid_blockram": False}, descriptors=descriptors, what=
                                 "a CLEAR_FEATURE(ENDPOINT_HALT) request that completes resets ...: the StandardRequestHandler inside "
                                 "USBControlEndpoint.add_standard_request_handlers(descriptors) is StandardRequestHandler(descriptors, "
                                 "max_packet_size=64, avoid_blockram=False), the unit contracted in StandardRequestHandler/blockram"))
    if tier != "quick":
        yield ("USBStreamInEndpoint", "max64", make_in("endpoint", 64))
        yield ("USBStreamOutEndpoint", "max64", make_out(64))
        yield ("StandardRequestHandler", "distributed", make_req(True))
