"""Shared spec-side builders for the OUT data path of the stream endpoints (used by C13 and C16; helper, not a contract).

Both USBStreamOutEndpoint and USBIsochronousStreamOutEndpoint consist of
    interface.rx / rx_complete / rx_invalid  ->  USBOutStreamBoundaryDetector  ->  TransactionalizedFIFO(read_commit=1)  -> stream
`RxView` is the observer's view of the receive-side *inputs* and of what the boundary detector makes of them (the C28
contract, re-established here on the inlined instance: the processed stream is the raw stream delayed by one byte, the
strobes come out two cycles after the raw stream ended).  `QueueView` is the abstract commit/rollback queue (the C18
view, specialised to read_commit = 1) with a symbolic witness entry.
"""
import z3
from hwv.contract import B, bvc, zx, bv1, bits
from luna.gateware.usb.stream import USBOutStreamBoundaryDetector
from luna.gateware.memory import TransactionalizedFIFO

CW = 16          # width of the modular event counters (only differences bounded by the buffer size are compared)


def b1(e):
    return bv1(e) if z3.is_bool(e) else e


class RxView:
    """Ghosts over interface.rx.{valid,next,payload}, rx_complete, rx_invalid.

    cycle names for a packet that delivered >= 1 byte:  e = first cycle with rx.valid low (`ends_now`, the strobes
    rx_complete/rx_invalid arrive here);  e+1 = `closing` (final byte, marked last, is on the processed stream);
    e+2 = `strobe` (complete_out / invalid_out visible).
    """

    def __init__(self, c, ts, I, max_packet, low_gap=4):
        self.c, self.ts = c, ts
        g = c.ghost
        self.valid, self.nxt = B(I["rx_valid"]), B(I["rx_next"])
        self.payload = I["rx_payload"]
        self.cin, self.iin = B(I["rx_complete"]), B(I["rx_invalid"])
        valid, nxt = self.valid, self.nxt
        self.byte_in = byte_in = z3.And(valid, nxt)
        self.pv = pv = g("prev_valid", 1)
        c.set_next(pv, bv1(valid))
        self.lowrun = lowrun = g("lowrun", 3, init=low_gap)          # consecutive cycles with rx.valid low (saturating)
        c.set_next(lowrun, z3.If(valid, bvc(0, 3), z3.If(z3.UGE(lowrun, low_gap), lowrun, lowrun + 1)))
        self.opn = opn = g("open", 1)
        self.is_open = is_open = opn == 1
        self.ends_now = ends_now = z3.And(is_open, z3.Not(valid))
        c.set_next(opn, z3.If(is_open, bv1(valid), bv1(byte_in)))
        self.closing_g = g("closing", 1)
        self.closing = closing = self.closing_g == 1
        c.set_next(self.closing_g, bv1(ends_now))
        self.strobe_g = g("strobe", 1)
        self.strobe = strobe = self.strobe_g == 1
        c.set_next(self.strobe_g, self.closing_g)
        # the byte held back by the detector, and the byte visible on the processed stream
        self.held, self.held_first = g("held", 8), g("held_first", 1)
        c.set_next(self.held, z3.If(byte_in, self.payload, self.held))
        c.set_next(self.held_first, z3.If(byte_in, bv1(z3.Not(is_open)), self.held_first))
        self.pb_g, self.pbd, self.pbf = g("pb", 1), g("pb_data", 8), g("pb_first", 1)
        self.pb = pb = self.pb_g == 1
        emit = z3.And(is_open, z3.Or(byte_in, z3.Not(valid)))
        c.set_next(self.pb_g, bv1(emit))
        c.set_next(self.pbd, z3.If(emit, self.held, self.pbd))
        c.set_next(self.pbf, z3.If(emit, self.held_first, self.pbf))
        # strobes travelling behind the packet
        self.cl_c, self.cl_i, self.st_c, self.st_i = g("cl_complete", 1), g("cl_invalid", 1), g("st_complete", 1), g("st_invalid", 1)
        c.set_next(self.cl_c, bv1(z3.And(ends_now, self.cin)))
        c.set_next(self.cl_i, bv1(z3.And(ends_now, self.iin)))
        c.set_next(self.st_c, self.cl_c)
        c.set_next(self.st_i, self.cl_i)
        # byte counters: raw bytes of the current raw packet; processed bytes of the current packet already output
        w = max(2, (max_packet + 1).bit_length() + 1)
        self.w = w
        self.icnt, self.pidx = g("icnt", w), g("pidx", w)
        c.set_next(self.icnt, z3.If(z3.Not(valid), bvc(0, w), z3.If(byte_in, self.icnt + 1, self.icnt)))
        c.set_next(self.pidx, z3.If(closing, bvc(0, w), z3.If(pb, self.pidx + 1, self.pidx)))
        self.max_packet = max_packet
        self.in_data_phase = z3.Or(is_open, closing, strobe)

        # ------------------------------------------------------------ environment (what USBDataPacketReceiver guarantees)
        c.require("rx_next_only_while_valid", z3.Implies(nxt, valid),
                  why="USBOutStreamInterface: next is only raised while valid (USBDataPacketReceiver: both are driven in RECEIVE_AND_EMIT)")
        c.require("rx_strobes_exactly_when_packet_ends",
                  z3.And(z3.Or(self.cin, self.iin) == z3.And(pv == 1, z3.Not(valid)), z3.Not(z3.And(self.cin, self.iin))),
                  why="USBDataPacketReceiver raises exactly one of packet_complete / crc_mismatch, in the cycle after its stream's "
                      "last valid cycle, and at no other time")
        c.require("rx_gap_between_packets", z3.Implies(z3.And(valid, pv == 0), z3.UGE(lowrun, low_gap)),
                  why=f"rx.valid stays low for >= {low_gap} cycles between packets (USBDataPacketReceiver needs IDLE, READ_PID, "
                      f"RECEIVE_FIRST_BYTE, RECEIVE_SECOND_BYTE before its stream is valid again)")
        c.require("rx_packet_at_most_max_packet_size", z3.Implies(byte_in, z3.ULT(self.icnt, max_packet)),
                  why="the host never sends more than wMaxPacketSize payload bytes in one packet (property quantifier: sizes 0..max)")

    def invariants(self, bd):
        """abstraction map for the inlined boundary detector (same shape as the C28 contract)"""
        c, ts = self.c, self.ts
        of = ts.of
        fsm = ts.fsm("boundary_detector.fsm_state")
        WAIT, RX, STROBE = "WAIT_FOR_FIRST_BYTE", "RECEIVE_AND_TRANSMIT", "OUTPUT_STROBES"
        o = bd.processed_stream
        is_open, closing, strobe, pb = self.is_open, self.closing, self.strobe, self.pb
        self.bd_next, self.bd_valid, self.bd_payload = of(o.next), of(o.valid), of(o.payload)
        self.bd_first, self.bd_last = of(bd.first), of(bd.last)
        inv = c.inv
        inv("bd_fsm_legal", fsm.legal())
        inv("bd_receive_iff_open", fsm.is_(RX) == is_open)
        inv("bd_strobes_iff_closing", fsm.is_(STROBE) == closing)
        inv("phases_exclusive", z3.And(z3.Not(z3.And(is_open, closing)), z3.Not(z3.And(is_open, strobe)),
                                       z3.Not(z3.And(closing, strobe))))
        inv("open_implies_prev_valid", z3.Implies(is_open, self.pv == 1))
        inv("closing_lowrun", z3.Implies(closing, z3.And(self.pv == 0, self.lowrun == 1)))
        inv("strobe_lowrun", z3.Implies(strobe, z3.And(self.pv == 0, self.lowrun == 2)))
        inv("lowrun_zero_iff_prev_valid", (self.lowrun == 0) == (self.pv == 1))
        inv("bd_last_iff_closing", (self.bd_last == 1) == closing)
        inv("bd_next_iff_processed_byte", (self.bd_next == 1) == pb)
        inv("closing_has_byte", z3.Implies(closing, pb))
        inv("processed_byte_only_in_packet", z3.Implies(pb, z3.Or(is_open, closing)))
        inv("bd_visible_byte", z3.Implies(pb, z3.And(self.bd_valid == 1, self.bd_payload == self.pbd, self.bd_first == self.pbf)))
        inv("bd_held_byte", z3.Implies(is_open, z3.And(ts.sig("boundary_detector.buffered_byte") == self.held,
                                                       ts.sig("boundary_detector.is_first_byte") == self.held_first)))
        bc, bi = ts.sig("boundary_detector.buffered_complete"), ts.sig("boundary_detector.buffered_invalid")
        inv("bd_no_strobe_buffered_while_open", z3.Implies(is_open, z3.And(bc == 0, bi == 0)))
        inv("bd_buffered_strobes_when_closing", z3.Implies(closing, z3.And(bc == self.cl_c, bi == self.cl_i)))
        inv("closing_has_exactly_one_strobe", z3.And(z3.Implies(closing, self.cl_c != self.cl_i),
                                                     z3.Implies(z3.Not(closing), z3.And(self.cl_c == 0, self.cl_i == 0))))
        inv("strobe_has_exactly_one_strobe", z3.And(z3.Implies(strobe, self.st_c != self.st_i),
                                                    z3.Implies(z3.Not(strobe), z3.And(self.st_c == 0, self.st_i == 0))))
        self.complete_out, self.invalid_out = of(bd.complete_out), of(bd.invalid_out)
        inv("bd_strobes_out", z3.And(self.complete_out == self.st_c, self.invalid_out == self.st_i))
        # byte counting
        w = self.w
        inv("icnt_zero_until_first_byte", z3.Implies(z3.Not(is_open), self.icnt == 0))
        inv("icnt_le_max", z3.ULE(self.icnt, self.max_packet))
        inv("pidx_le_max", z3.ULE(self.pidx, self.max_packet))
        inv("pidx_counts_processed_bytes", z3.Implies(is_open, self.icnt == self.pidx + zx(self.pb_g, w) + 1))
        inv("pidx_lt_max_when_closing", z3.Implies(closing, z3.ULT(self.pidx, self.max_packet)))
        inv("pidx_zero_outside_packet", z3.Implies(z3.Not(z3.Or(is_open, closing)), self.pidx == 0))
        inv("first_byte_has_index_zero", z3.Implies(pb, (self.pbf == 1) == (self.pidx == 0)))
        inv("held_first_iff_no_byte_processed", z3.Implies(is_open, (self.held_first == 1) == z3.And(self.pidx == 0, z3.Not(pb))))


class QueueView:
    """Abstract view of the inlined TransactionalizedFIFO whose read side is non-transactional (read_commit = 1):
         n_c  entries committed so far, n_r entries taken by the consumer, n_p entries written but not yet committed,
         lag  one entry was taken in the previous cycle (its slot is released one cycle later).
       Symbolic witness: the k-th entry of the committed sequence (k rigid) has value `wit`."""

    def __init__(self, c, ts, fifo, depth, width=10):
        self.c, self.ts, self.fifo, self.D = c, ts, fifo, depth
        g = c.ghost
        self.n_c, self.n_p, self.n_r, self.lag = g("n_committed", CW), g("n_pending", CW), g("n_read", CW), g("lag", 1)
        self.k = c.rigid("k", CW)
        self.wit = g("wit", width)
        self.width = width
        self.wit_prev = None
        self.unread = self.n_c - self.n_r
        self.held = zx(self.lag, CW) + self.unread + self.n_p
        self.full = self.held == depth
        self.space = bvc(depth, CW) - self.held

    def drive(self, store, commit, discard, pop, data, pending_sound):
        """store/commit/discard/pop: Bool events of this cycle (spec side); data: the entry a store appends;
        pending_sound: Bool over state/ghosts — the pending entries are (so far) exactly the spec's entries (False once the
        packet is doomed, e.g. after an overflow: such entries are never committed)."""
        c = self.c
        self.store, self.commit, self.discard, self.pop = store, commit, discard, pop
        c.set_next(self.n_p, z3.If(z3.Or(commit, discard), bvc(0, CW), z3.If(store, self.n_p + 1, self.n_p)))
        c.set_next(self.n_c, z3.If(z3.And(commit, z3.Not(discard)), self.n_c + self.n_p, self.n_c))
        c.set_next(self.n_r, z3.If(pop, self.n_r + 1, self.n_r))
        c.set_next(self.lag, bv1(pop))
        self.cap = z3.And(store, self.n_c + self.n_p == self.k)
        self.data = data
        c.set_next(self.wit, z3.If(self.cap, data, self.wit))
        # where the witness entry went (observer's bookkeeping: the write position at the time of the store)
        cw = self.ts.sig("fifo.current_write_pointer")
        self.wit_addr = c.ghost("wit_addr", cw.size())
        c.set_next(self.wit_addr, z3.If(self.cap, cw, self.wit_addr))
        self.pending_sound = pending_sound

    def track_previous_entry(self, init):
        """second witness: the entry with index k-1 (for properties relating neighbouring entries, e.g. packet framing)"""
        c = self.c
        self.wit_prev = c.ghost("wit_prev", self.width, init=init)
        self.cap_prev = z3.And(self.store, self.n_c + self.n_p == self.k - 1)
        c.set_next(self.wit_prev, z3.If(self.cap_prev, self.data, self.wit_prev))
        cw = self.ts.sig("fifo.current_write_pointer")
        self.wit_prev_addr = c.ghost("wit_prev_addr", cw.size())
        c.set_next(self.wit_prev_addr, z3.If(self.cap_prev, cw, self.wit_prev_addr))

    def invariants(self):
        c, ts, f, D = self.c, self.ts, self.fifo, self.D
        N = D + 1
        cw, mw = ts.sig("fifo.current_write_pointer"), ts.sig("fifo.committed_write_pointer")
        cr, mr = ts.sig("fifo.current_read_pointer"), ts.sig("fifo.committed_read_pointer")
        mem, _cell = ts.mem("fifo.rx_fifo")
        aw = mem.sort().domain().size()
        z = lambda x: zx(x, CW)
        dist = lambda a, b: z3.If(z3.UGE(z(b), z(a)), z(b) - z(a), z(b) + N - z(a))
        inv = c.inv
        for nm, p in (("cw", cw), ("mw", mw), ("cr", cr), ("mr", mr)):
            inv(f"fifo_{nm}_in_range", z3.ULT(z(p), N))
        inv("fifo_released_lags_read_by_lag", dist(mr, cr) == z(self.lag))
        inv("fifo_unread_is_committed_minus_read", dist(cr, mw) == self.unread)
        inv("fifo_pending_is_uncommitted", dist(mw, cw) == self.n_p)
        inv("fifo_held_at_most_depth", z3.And(z3.ULE(self.held, D), z3.ULE(self.unread, D), z3.ULE(self.n_p, D)))
        rp = [v for k_, v in ts.state.items() if k_[0] == 'rp'][0]
        inv("fifo_read_register_shows_head", z3.Implies(self.unread != 0, rp == z3.Select(mem, zx(cr, aw))))
        off = self.k - self.n_r
        live = z3.ULT(off, self.unread + z3.If(self.pending_sound, self.n_p, bvc(0, CW)))
        a = z(cr) + off
        a = z3.If(z3.UGE(a, N), a - N, a)
        # split in two so that the solver never mixes the modular position arithmetic with the array reasoning
        inv("fifo_witness_position", z3.Implies(live, z(self.wit_addr) == a))
        inv("fifo_witness_entry_in_place", z3.Implies(live, z3.Select(mem, zx(self.wit_addr, aw)) == self.wit))
        self.live = live
        if self.wit_prev is not None:
            off2 = self.k - 1 - self.n_r
            live2 = z3.ULT(off2, self.unread + z3.If(self.pending_sound, self.n_p, bvc(0, CW)))
            a2 = z(cr) + off2
            a2 = z3.If(z3.UGE(a2, N), a2 - N, a2)
            inv("fifo_previous_witness_position", z3.Implies(live2, z(self.wit_prev_addr) == a2))
            inv("fifo_previous_witness_entry_in_place", z3.Implies(live2, z3.Select(mem, zx(self.wit_prev_addr, aw)) == self.wit_prev))
            self.live_prev = live2
