"""C31 — SuperSpeed scrambling uses the USB3 LFSR and descrambling inverts it.

Specification side (written from USB 3.2 appendix B, not from the code): a 16-bit Galois LFSR for
G(x) = x^16 + x^5 + x^4 + x^3 + 1, shifted once per bit; the scrambling bit for a serial bit is the LFSR's bit 15 before
the shift, bit 0 of a symbol first, symbol (lane) 0 of a word first.  `spec_word(s)` runs 32 single-bit steps and returns
the 32 keystream bits and the state afterwards.  The spec is itself checked against the byte table printed in the
standard (first 48 bytes from FFFFh) by a `lemma` obligation.

Three layers:
  1. ScramblerLFSR: the hand-expanded XOR networks `next_value` / `value` equal the 32-step bit-serial definition
     (GF(2) affine normal forms; complete for all 2^16 states), and the register restarts on `clear`, advances on
     `advance`, holds otherwise.
  2. Scrambler / Descrambler: ghost `ks` = the spec LFSR state, defined from the unit's inputs only:
        restart  when `clear` or a COM (K28.5) is presented in symbol 0 of a valid word,
        advance  one word (32 bits) when a word is transferred (valid & ready) and `hold` is low,
        hold     otherwise;
     invariant  lfsr.current_value == ks;  ensures: every output field as a function of inputs and ks.
  3. Product Scrambler -> Descrambler with the words scrambled under `hold` taken out of the stream (that is what the
     transmit CTC does with them: it sends SKPs in their place, which the receiver's CTC removes again): both LFSRs stay
     equal for ever and the descrambler's output is the scrambler's input.
  4. Caller side (end of file): call obligations on the real USB3PhysicalLayer (open PIPE interface, all interface signals free
     inputs, children located by class): transmit chain  sink -> Scrambler -> CTCSkipInserter  with hold = sending_skip, enable =
     enable_scrambling, clear never raised; receive chain  RxWordAligner -> Descrambler -> RxPacketAligner -> source  (the
     descrambler sees exactly the word-aligned stream, is never stalled, never held / cleared); both instances are the
     initial_value = 0xFFFF configuration proved in 2. and 3.  PhysicalLayerUnits and the lemmas_* helpers are shared with
     C32 / C34 / C42 / C43 (the transmit side from the inserter to the PHY pins is in c33.physical_layer_wiring).
"""
import z3
from hwv.contract import B, bvc, bits, zx
from luna.gateware.usb.usb3.physical.scrambling import ScramblerLFSR, Scrambler, Descrambler

COM_SYM = (1 << 8) | 0xBC     # K28.5
TAPS = (3, 4, 5)              # x^5 + x^4 + x^3 (+ x^16 feedback into bit 0: the "+1")

# [USB 3.2 appendix B.1] "8-bit encoded values" produced from LFSR = FFFFh, in transmission order
APPENDIX_B = bytes.fromhex("ff17c014b2e70282726e28a6be6dbf8dbe40a7e62cd3e2b2070277 2acd34bee0a75d24b19ba1bd22d4451dd3d7ea76ee".replace(" ", ""))


# ------------------------------------------------------------------------------------------------ bit-serial spec
def spec_step(s):
    """one serial bit: s = list of 16 one-bit terms (index = LFSR bit) -> (keystream bit, next state)"""
    fb = s[15]
    n = [fb] + [s[i - 1] ^ fb if i in TAPS else s[i - 1] for i in range(1, 16)]
    return fb, n


def spec_word(state):
    """32 serial steps from the 16-bit term `state` -> (32-bit keystream, bit 8*i+j = bit j of lane i; next state)"""
    s = [bits(state, i) for i in range(16)]
    out = []
    for _ in range(32):
        b, s = spec_step(s)
        out.append(b)
    return z3.Concat(*reversed(out)), z3.Concat(*reversed(s))


def spec_bytes_concrete(seed, n):
    s, out = seed, []
    for _ in range(n):
        byte = 0
        for j in range(8):
            fb = (s >> 15) & 1
            byte |= fb << j
            s = ((s << 1) & 0xFFFF) ^ (0x0039 if fb else 0)
        out.append(byte)
    return bytes(out)


def table_lemma(c):
    """the z3 spec function reproduces the table of the standard (guards the specification itself)"""
    st = bvc(0xFFFF, 16)
    ok = []
    for w in range(len(APPENDIX_B) // 4):
        ks, st = spec_word(st)
        ok.append(z3.simplify(ks) == int.from_bytes(APPENDIX_B[4 * w:4 * w + 4], "little"))
    c.lemma("spec_lfsr_reproduces_usb32_appendix_B_table", z3.And(*ok),
            clause="the scrambling keystream is the x^16+x^5+x^4+x^3+1 LFSR sequence (spec function vs. table in the standard)")
    assert spec_bytes_concrete(0xFFFF, len(APPENDIX_B)) == APPENDIX_B


# ------------------------------------------------------------------------------------------------ 1. the LFSR
def make_lfsr(init):
    def contract(c):
        d = ScramblerLFSR(initial_value=init)
        ts = c.unit(d, {"clear": d.clear, "advance": d.advance, "value": d.value})
        I, O = ts.inputs, ts.outputs
        cur, nxt = ts.sig("current_value"), ts.sig("next_value")
        table_lemma(c)
        ks_cur, st_cur = spec_word(cur)
        c.comb("next_value_is_32_serial_steps", nxt, st_cur, method="gf2",
               clause="keystream is the x^16+x^5+x^4+x^3+1 LFSR sequence: state after one word = 32 single-bit Galois steps")
        c.comb("value_is_next_32_keystream_bits", O["value"], ks_cur, method="gf2",
               clause="one byte per symbol: value[8i+7:8i] is the i-th next keystream byte (bit 15 of the LFSR, LSB first)")
        # register behaviour against a ghost spec LFSR driven by the same strobes
        ks = c.ghost("ks", 16, init=init)
        ks_word, ks_next = spec_word(ks)
        c.set_next(ks, z3.If(I["clear"] == 1, bvc(init, 16), z3.If(I["advance"] == 1, ks_next, ks)))
        c.inv("register_is_spec_lfsr_state", cur == ks)
        c.ensure("value_is_spec_keystream", O["value"] == ks_word,
                 clause="the keystream is the LFSR sequence: restarted by clear, advanced one word per advance, else held")
        c.cover("advanced_twice_then_cleared", z3.And(I["clear"] == 1, ks != init, ks != z3.simplify(spec_word(bvc(init, 16))[1])))
        c.cover_depth = 6
    return contract


# ------------------------------------------------------------------------------------------------ 2. (de)scrambler
PORTS = ("clear", "enable", "hold", "sink_data", "sink_ctrl", "sink_valid", "sink_ready",
         "source_data", "source_ctrl", "source_valid", "source_ready", "lfsr_state")


def ports(d, pre=""):
    return {pre + "clear": d.clear, pre + "enable": d.enable, pre + "hold": d.hold,
            pre + "sink_data": d.sink.data, pre + "sink_ctrl": d.sink.ctrl, pre + "sink_valid": d.sink.valid,
            pre + "sink_ready": d.sink.ready, pre + "source_data": d.source.data, pre + "source_ctrl": d.source.ctrl,
            pre + "source_valid": d.source.valid, pre + "source_ready": d.source.ready, pre + "lfsr_state": d.lfsr_state}


def lane(word, i):
    return bits(word, 8 * i + 7, 8 * i)


def com_first(I, pre=""):
    return z3.And(I[pre + "sink_valid"] == 1, bits(I[pre + "sink_ctrl"], 0) == 1, lane(I[pre + "sink_data"], 0) == 0xBC)


def make_scrambler(cls, init):
    def contract(c):
        d = cls(initial_value=init)
        ts = c.unit(d, ports(d))
        I, O = ts.inputs, ts.outputs
        cur = ts.sig("lfsr.current_value")
        ks = c.ghost("ks", 16, init=init)
        ks_word, ks_next = spec_word(ks)
        restart = z3.Or(I["clear"] == 1, com_first(I))
        transferred = z3.And(I["sink_valid"] == 1, I["source_ready"] == 1)
        advance = z3.And(transferred, I["hold"] == 0)
        c.set_next(ks, z3.If(restart, bvc(init, 16), z3.If(advance, ks_next, ks)))
        c.inv("lfsr_is_spec_keystream_state", cur == ks)

        en = I["enable"] == 1
        for i in range(4):
            is_ctrl = bits(I["sink_ctrl"], i) == 1
            c.ensure(f"lane{i}_data_symbol_xored_with_keystream_byte",
                     z3.Implies(z3.And(en, z3.Not(is_ctrl)),
                                lane(O["source_data"], i) == lane(I["sink_data"], i) ^ lane(ks_word, i)),
                     clause="data symbols are XORed with the keystream, one byte per symbol (lane i takes keystream byte i of the word)")
            c.ensure(f"lane{i}_control_symbol_unchanged",
                     z3.Implies(is_ctrl, lane(O["source_data"], i) == lane(I["sink_data"], i)),
                     clause="control symbols pass unchanged")
            c.ensure(f"lane{i}_unchanged_when_scrambling_disabled",
                     z3.Implies(z3.Not(en), lane(O["source_data"], i) == lane(I["sink_data"], i)),
                     clause="(enable low) data is passed through without scrambling")
        c.ensure("ctrl_flags_pass", O["source_ctrl"] == I["sink_ctrl"], clause="control symbols pass unchanged (K flags are never altered)")
        c.ensure("handshake_passes", z3.And(O["source_valid"] == I["sink_valid"], O["sink_ready"] == I["source_ready"]),
                 clause="a word is transferred downstream exactly when it is transferred upstream (nothing added or dropped)")
        c.ensure("debug_state_is_keystream", O["lfsr_state"] == ks_word, clause="the keystream is the LFSR sequence")
        # the three sentences about when the keystream moves, stated on the observable keystream output
        nxt_word = c.nx(O["lfsr_state"])
        c.ensure("keystream_restarts_after_com_or_clear", z3.Implies(restart, nxt_word == z3.simplify(spec_word(bvc(init, 16))[0])),
                 clause="restarts after a COM in a word's first symbol")
        c.ensure("keystream_advances_one_word_per_transferred_word",
                 z3.Implies(z3.And(z3.Not(restart), advance), nxt_word == spec_word(ks_next)[0]),
                 clause="the keystream advances ... when a word is actually transferred")
        c.ensure("keystream_held_without_transfer_or_under_hold",
                 z3.Implies(z3.And(z3.Not(restart), z3.Not(advance)), nxt_word == ks_word),
                 clause="advances only when a word is actually transferred (not while held for SKP insertion)")
        c.cover("scrambled_data_after_advance", z3.And(en, I["sink_ctrl"] == 0, I["sink_valid"] == 1, ks != init))
        c.cover("hold_blocks_advance", z3.And(transferred, I["hold"] == 1, ks != init))
        c.cover("com_restart", z3.And(com_first(I), I["clear"] == 0, ks != init))
        c.cover("stalled_word", z3.And(I["sink_valid"] == 1, I["source_ready"] == 0, ks != init))
        c.cover_depth = 6
    return contract


# ------------------------------------------------------------------------------------------------ 3. round trip
def make_roundtrip(init):
    def contract(c):
        a, b = Scrambler(initial_value=init), Descrambler(initial_value=init)
        ta = c.unit(a, ports(a))
        tb = c.unit(b, ports(b, "b_"), prefix="b.")
        A, AO, Bi, BO = ta.inputs, ta.outputs, tb.inputs, tb.outputs
        # the wire between them: the scrambled stream, minus the words the transmit CTC replaces by SKPs (those are the
        # words for which it raises `hold`; the receiving CTC removes the SKPs again)
        c.bind(Bi["b_sink_data"], AO["source_data"])
        c.bind(Bi["b_sink_ctrl"], AO["source_ctrl"])
        c.bind(Bi["b_sink_valid"], z3.If(A["hold"] == 1, bvc(0, 1), AO["source_valid"]))
        c.bind(A["source_ready"], BO["b_sink_ready"])
        c.require("descrambler_never_held", Bi["b_hold"] == 0, why="the receive path has no SKP insertion (hold is not driven for the Descrambler)")
        c.require("same_enable", A["enable"] == Bi["b_enable"], why="both ends agree on whether scrambling is enabled (LTSSM)")
        c.require("restarted_together", A["clear"] == Bi["b_clear"], why="'from the same starting state': explicit clears, if any, are applied to both ends")
        c.require("skp_replaces_idle_only", z3.Implies(A["hold"] == 1, z3.Not(com_first(A))),
                  why="hold is raised only while logical idle is being replaced by SKPs (C33), never on a word starting with COM")
        c.inv("both_lfsrs_equal", ta.sig("lfsr.current_value") == tb.sig("lfsr.current_value"))
        passed = z3.And(A["sink_valid"] == 1, A["hold"] == 0)
        c.ensure("descrambled_stream_is_original_stream",
                 z3.And(BO["b_source_valid"] == z3.If(passed, bvc(1, 1), bvc(0, 1)),
                        z3.Implies(passed, z3.And(BO["b_source_data"] == A["sink_data"], BO["b_source_ctrl"] == A["sink_ctrl"]))),
                 clause="descrambling a scrambled stream from the same starting state returns the original stream")
        c.ensure("backpressure_passes_through", AO["sink_ready"] == Bi["b_source_ready"],
                 clause="(round trip) the same words are transferred at both ends")
        c.cover("mixed_word_after_advance", z3.And(passed, A["enable"] == 1, A["sink_ctrl"] == 0b0101,
                                                   ta.sig("lfsr.current_value") != init))
        c.cover("held_word", z3.And(A["hold"] == 1, A["sink_valid"] == 1, ta.sig("lfsr.current_value") != init))
        c.cover_depth = 5
    return contract


# ------------------------------------------------------------------------------------------------ 4. caller side
# The unit contracts above cut the design at the Scrambler / Descrambler ports and treat the far side as free inputs.
# USB3PhysicalLayer.elaborate() is the code that instantiates and connects them (and the CTC stages, the two aligners and the
# LFPS transceiver); nothing above says how.  The call obligations below are stated on the netlist of the REAL parent: it is
# elaborated with an open PIPEInterface (a plain bundle of signals: no PHY model, no vendor primitive), every signal of the
# PIPE interface and of the layer's own interface is a port (a free input unless the layer drives it), the real child
# instances are located by class (ts.instances; not by m.submodules name, so renaming an entry is harmless) and each lemma is
# a valid formula over ALL states of all children and all input values.  Shared with C32 / C34 / C42 (import).
WORD = ("valid", "payload", "ctrl")            # what the raw stages look at (first / last are not used on raw streams)


class PhysicalLayerUnits:
    """The real USB3PhysicalLayer (open PIPE interface) and the real sub-unit instances its elaborate() created."""
    def __init__(self, c, sync_frequency=1e6):
        from hwv.extract import BindingError
        from luna.gateware.interface.pipe import PIPEInterface
        from luna.gateware.usb.usb3.physical.layer import USB3PhysicalLayer
        from luna.gateware.usb.usb3.physical.ctc import CTCSkipInserter, CTCSkipRemover
        from luna.gateware.usb.usb3.physical.alignment import RxWordAligner, RxPacketAligner
        from luna.gateware.usb.usb3.physical.lfps import LFPSTransceiver, LFPSDetector, LFPSGenerator
        from .c46_ss_in_endpoint import signals_of, same
        self.pipe = pipe = PIPEInterface(width=4)
        self.d = d = USB3PhysicalLayer(phy=pipe, sync_frequency=sync_frequency)
        ports = {(k + "_pin" if k.endswith(("_clk", "_rst")) else k): v for k, v in signals_of(pipe, "pipe_").items()}   # (not clock domains)
        ports.update(signals_of(d, "pl_"))
        self.ts = ts = c.unit(d, ports)
        self.of = ts.of

        def one(cls):
            objs = [x for x in ts.instances(cls) if type(x) is cls]          # (Descrambler is a subclass of Scrambler)
            if len(objs) != 1:
                raise BindingError(f"expected exactly one {cls.__name__} in USB3PhysicalLayer, found {len(objs)}")
            return objs[0]
        self.scr, self.des = one(Scrambler), one(Descrambler)
        self.tx_ctc, self.rx_ctc = one(CTCSkipInserter), one(CTCSkipRemover)
        self.aligner, self.realigner = one(RxWordAligner), one(RxPacketAligner)
        self.lfps = one(LFPSTransceiver)
        self.detectors = [x for x in ts.instances(LFPSDetector) if type(x) is LFPSDetector]
        self.generators = [x for x in ts.instances(LFPSGenerator) if type(x) is LFPSGenerator]
        self.S = lambda a, b: same(ts, a, b)
        c.cosim_cycles = 8

    def feeds(self, producer, consumer, fields=WORD):
        """consumer stream is the producer stream: valid, data, ctrl forward; ready back"""
        return z3.And(*[self.S(getattr(consumer, f), getattr(producer, f)) for f in fields], self.S(producer.ready, consumer.ready))

    def tapped(self, tap, producer, fields=WORD):
        """read-only view: valid, data, ctrl (the tap's ready goes nowhere)"""
        return z3.And(*[self.S(getattr(tap, f), getattr(producer, f)) for f in fields])

    def shows(self, out, sig):
        """output `out` shows `sig` without truncation: at least as wide, equal to it zero-extended"""
        a, b = self.of(out), self.of(sig)
        return z3.BoolVal(False) if a.size() < b.size() else a == zx(b, a.size())

    def is_zero(self, sig):
        """`sig` is never raised: constant 0 for all states and inputs (an input the parent leaves unconnected)"""
        from hwv.extract import BindingError
        try:
            return self.of(sig) == 0
        except BindingError:               # nothing reads it
            return z3.BoolVal(True)


def lemmas_scrambler_hookup(c, U):
    """Transmit side: link layer stream -> Scrambler -> CTCSkipInserter; enable / clear / hold."""
    of, S, d, scr, ctc = U.of, U.S, U.d, U.scr, U.tx_ctc
    c.lemma("scrambler_input_is_the_link_layer_stream",
            z3.And(S(scr.sink.payload, d.sink.payload), S(scr.sink.ctrl, d.sink.ctrl), of(scr.sink.valid) == 1, S(d.sink.ready, scr.sink.ready)),
            clause="data symbols are XORed with the keystream, control symbols pass unchanged: the scrambler works on the link layer's words "
                   "(data, ctrl; always valid - the link layer sends logical idle when it has nothing else; ready back)")
    c.lemma("scrambler_enable_is_layer_enable_and_clear_is_never_raised", z3.And(S(scr.enable, d.enable_scrambling), U.is_zero(scr.clear)),
            clause="restarts after a COM in a word's first symbol (and only then: `clear` is not driven); scrambling on/off is the layer's "
                   "enable_scrambling (LTSSM)")
    c.lemma("scrambler_hold_is_skip_inserter_sending_skip", S(scr.hold, ctc.sending_skip),
            clause="the keystream advances only when a word is actually transferred (not while held for SKP insertion): Scrambler.hold is "
                   "CTCSkipInserter.sending_skip in the same cycle")
    c.lemma("scrambler_output_is_what_the_skip_inserter_transmits", U.feeds(scr.source, ctc.sink),
            clause="what is transmitted is the scrambled stream: CTCSkipInserter.sink is Scrambler.source (valid, data, ctrl; ready back, so "
                   "'transferred' means the same at both)")


def lemmas_descrambler_hookup(c, U):
    """Receive side: RxWordAligner -> Descrambler -> RxPacketAligner; enable / clear / hold / never stalled."""
    of, S, d, des = U.of, U.S, U.d, U.des
    c.lemma("descrambler_input_is_the_word_aligned_stream", U.feeds(U.aligner.source, des.sink),
            clause="descrambling a scrambled stream from the same starting state returns the original stream: the descrambler sees exactly "
                   "the RxWordAligner's output (valid, data, ctrl) - words grouped the way the partner's COMs grouped them, so that the "
                   "keystream byte lanes line up and a COM restarts the keystream in a word's first symbol")
    c.lemma("descrambler_enable_is_layer_enable_and_clear_hold_are_never_raised",
            z3.And(S(des.enable, d.enable_scrambling), U.is_zero(des.clear), U.is_zero(des.hold)),
            clause="(round trip requires descrambler_never_held / restarted_together) the receive side has no SKP insertion and no explicit "
                   "restart; descrambling on/off is the same enable_scrambling the scrambler gets")
    c.lemma("descrambler_is_never_stalled", z3.Implies(of(des.sink.valid) == 1, of(des.source.ready) == 1),
            clause="the keystream advances ... when a word is actually transferred: every word the aligner delivers IS transferred (the "
                   "partner's scrambler cannot be stalled from here, so a stalled word would desynchronise the keystreams) - whatever the "
                   "link layer does with source.ready")
    c.lemma("descrambler_output_is_what_goes_on", U.feeds(des.source, U.realigner.sink),
            clause="the descrambled stream is what the rest of the receive path gets: RxPacketAligner.sink is Descrambler.source")


def lemmas_receive_chain_tail(c, U):
    """RxPacketAligner -> layer source."""
    c.lemma("layer_source_is_the_packet_aligner_output", U.tapped(U.d.source, U.realigner.source),
            clause="the link layer receives the descrambled, packet-aligned stream: USB3PhysicalLayer.source is RxPacketAligner.source (valid, data, ctrl)")


def lemmas_receive_chain_head(c, U):
    """PHY rx data -> CTCSkipRemover -> RxWordAligner (-> raw_source)."""
    of, S, d, pipe, rx, al = U.of, U.S, U.d, U.pipe, U.rx_ctc, U.aligner
    c.lemma("skip_remover_input_is_the_phy_receive_word",
            z3.And(S(rx.sink.payload, pipe.rx_data), S(rx.sink.ctrl, pipe.rx_datak), of(rx.sink.valid) == 1),
            clause="the input symbol sequence is what the PHY received: CTCSkipRemover.sink is rx_data / rx_datak, a word every cycle")
    c.lemma("skip_remover_downstream_is_always_ready", of(rx.source.ready) == 1,
            clause="with the downstream always ready, as it is wired in the physical layer (discharges the unit contract's require)")
    c.lemma("word_aligner_input_is_the_skip_remover_output", U.feeds(rx.source, al.sink),
            clause="the aligner works on the SKP-free stream: RxWordAligner.sink is CTCSkipRemover.source (valid, data, ctrl; ready back)")
    c.lemma("raw_source_is_the_word_aligner_output", U.tapped(d.raw_source, al.source),
            clause="the training-set detectors' stream (raw_source: never descrambled) is the RxWordAligner's output")


SCR_IN = {"clear": "clear", "enable": "enable", "hold": "hold", "sink_payload": "sink.payload", "sink_ctrl": "sink.ctrl",
          "sink_valid": "sink.valid", "source_ready": "source.ready"}
SCR_OUT = {"source_payload": "source.payload", "source_ctrl": "source.ctrl", "source_valid": "source.valid", "sink_ready": "sink.ready",
           "lfsr_state": "lfsr_state"}


def _flat_ports(obj, table):
    """give the stream fields flat attribute names (c46.instance_is_contracted_unit addresses ports by attribute name)"""
    for flat, dotted in table.items():
        x = obj
        for part in dotted.split("."):
            x = getattr(x, part)
        setattr(obj, "w_" + flat, x)
    return ["w_" + flat for flat in table]


def lemmas_instance_is_contracted(c, U, inst, init, label):
    """the (de)scrambler instance of the layer is the configuration contracted above: same class, initial value `init`"""
    from .c46_ss_in_endpoint import instance_is_contracted_unit, path_of
    cls = type(inst)
    ref = cls(initial_value=init)
    ins, outs = _flat_ports(ref, SCR_IN), _flat_ports(ref, SCR_OUT)
    _flat_ports(inst, SCR_IN), _flat_ports(inst, SCR_OUT)
    instance_is_contracted_unit(c, U.ts, path_of(U.ts, inst), inst, ref, ins, outs, label,
                                clause=f"from the same starting state: the layer's {cls.__name__} is {cls.__name__}(initial_value={init:#06x}), "
                                       f"the configuration proved by the unit and round-trip contracts")


def physical_layer_wiring(c):
    """USB3PhysicalLayer.elaborate(): the transmit chain sink -> Scrambler -> CTCSkipInserter and the receive chain
    RxWordAligner -> Descrambler -> RxPacketAligner -> source, as the unit and round-trip contracts assume."""
    U = PhysicalLayerUnits(c)
    lemmas_scrambler_hookup(c, U)
    lemmas_descrambler_hookup(c, U)
    lemmas_receive_chain_tail(c, U)
    c.lemma("word_aligner_input_is_the_skip_remover_output", U.feeds(U.rx_ctc.source, U.aligner.sink),
            clause="'word-aligned': the aligner in front of the descrambler works on the PHY's SKP-free receive stream")
    lemmas_instance_is_contracted(c, U, U.scr, 0xFFFF, "scrambler_ref")
    lemmas_instance_is_contracted(c, U, U.des, 0xFFFF, "descrambler_ref")


def contracts(tier):
    quick = tier == "quick"
    inits = [0xFFFF, 0x7DBD] if quick else [0xFFFF, 0x7DBD, 0x0001, 0x8000, 0xA5A5, 0x1234]     # (0x0000 is the LFSR fixed point: keystream never moves, covers vacuous)
    for iv in inits:
        yield ("ScramblerLFSR", f"init_{iv:04x}", make_lfsr(iv))
    for iv in inits:
        yield ("Scrambler", f"init_{iv:04x}", make_scrambler(Scrambler, iv))        # 0xffff: as instantiated by the physical layer; 0x7dbd: class default
        if not quick or iv == 0xFFFF:                                                # Descrambler default / as instantiated: 0xffff
            yield ("Descrambler", f"init_{iv:04x}", make_scrambler(Descrambler, iv))
    for iv in inits:
        if not quick or iv == 0xFFFF:
            yield ("Scrambler->Descrambler", f"init_{iv:04x}", make_roundtrip(iv))
    yield ("USB3PhysicalLayer", "wiring_scrambling", physical_layer_wiring)
