"""C31 — SuperSpeed scrambling uses the USB3 LFSR and descrambling inverts it.

Specification side (written from USB 3.2 appendix B, not from the code): a 16-bit Galois LFSR for
G(x) = x^16 + x^5 + x^4 + x^3 + 1, shifted once per bit; the scrambling bit for a serial bit is the LFSR's bit 15 before
the shift, bit 0 of a symbol first, symbol (lane) 0 of a word first.  `spec_word(s)` runs 32 single-bit steps and returns
the 32 keystream bits and the state afterwards.  The spec is itself checked against the byte table printed in the
standard (first 48 bytes from FFFFh) by a `lemma` obligation.

Three layers:
  1. ScramblerLFSR: the hand-expanded XOR networks `next_value` / `value` equal the 32-step bit-serial definition
     (GF(2) affine normal forms; complete for all 2^16 states), and the register restarts on `clear`, advances on
     `advance`, holds otherwise.
  2. Scrambler / Descrambler: ghost `ks` = the spec LFSR state, defined from the unit's inputs only:
        restart  when `clear` or a COM (K28.5) is presented in symbol 0 of a valid word,
        advance  one word (32 bits) when a word is transferred (valid & ready) and `hold` is low,
        hold     otherwise;
     invariant  lfsr.current_value == ks;  ensures: every output field as a function of inputs and ks.
  3. Product Scrambler -> Descrambler with the words scrambled under `hold` taken out of the stream (that is what the
     transmit CTC does with them: it sends SKPs in their place, which the receiver's CTC removes again): both LFSRs stay
     equal for ever and the descrambler's output is the scrambler's input.
"""
import z3
from hwv.contract import B, bvc, bits, zx
from luna.gateware.usb.usb3.physical.scrambling import ScramblerLFSR, Scrambler, Descrambler

COM_SYM = (1 << 8) | 0xBC     # K28.5
TAPS = (3, 4, 5)              # x^5 + x^4 + x^3 (+ x^16 feedback into bit 0: the "+1")

# [USB 3.2 appendix B.1] "8-bit encoded values" produced from LFSR = FFFFh, in transmission order
APPENDIX_B = bytes.fromhex("ff17c014b2e70282726e28a6be6dbf8dbe40a7e62cd3e2b2070277 2acd34bee0a75d24b19ba1bd22d4451dd3d7ea76ee".replace(" ", ""))


# ------------------------------------------------------------------------------------------------ bit-serial spec
def spec_step(s):
    """one serial bit: s = list of 16 one-bit terms (index = LFSR bit) -> (keystream bit, next state)"""
    fb = s[15]
    n = [fb] + [s[i - 1] ^ fb if i in TAPS else s[i - 1] for i in range(1, 16)]
    return fb, n


def spec_word(state):
    """32 serial steps from the 16-bit term `state` -> (32-bit keystream, bit 8*i+j = bit j of lane i; next state)"""
    s = [bits(state, i) for i in range(16)]
    out = []
    for _ in range(32):
        b, s = spec_step(s)
        out.append(b)
    return z3.Concat(*reversed(out)), z3.Concat(*reversed(s))


def spec_bytes_concrete(seed, n):
    s, out = seed, []
    for _ in range(n):
        byte = 0
        for j in range(8):
            fb = (s >> 15) & 1
            byte |= fb << j
            s = ((s << 1) & 0xFFFF) ^ (0x0039 if fb else 0)
        out.append(byte)
    return bytes(out)


def table_lemma(c):
    """the z3 spec function reproduces the table of the standard (guards the specification itself)"""
    st = bvc(0xFFFF, 16)
    ok = []
    for w in range(len(APPENDIX_B) // 4):
        ks, st = spec_word(st)
        ok.append(z3.simplify(ks) == int.from_bytes(APPENDIX_B[4 * w:4 * w + 4], "little"))
    c.lemma("spec_lfsr_reproduces_usb32_appendix_B_table", z3.And(*ok),
            clause="the scrambling keystream is the x^16+x^5+x^4+x^3+1 LFSR sequence (spec function vs. table in the standard)")
    assert spec_bytes_concrete(0xFFFF, len(APPENDIX_B)) == APPENDIX_B


# ------------------------------------------------------------------------------------------------ 1. the LFSR
def make_lfsr(init):
    def contract(c):
        d = ScramblerLFSR(initial_value=init)
        ts = c.unit(d, {"clear": d.clear, "advance": d.advance, "value": d.value})
        I, O = ts.inputs, ts.outputs
        cur, nxt = ts.sig("current_value"), ts.sig("next_value")
        table_lemma(c)
        ks_cur, st_cur = spec_word(cur)
        c.comb("next_value_is_32_serial_steps", nxt, st_cur, method="gf2",
               clause="keystream is the x^16+x^5+x^4+x^3+1 LFSR sequence: state after one word = 32 single-bit Galois steps")
        c.comb("value_is_next_32_keystream_bits", O["value"], ks_cur, method="gf2",
               clause="one byte per symbol: value[8i+7:8i] is the i-th next keystream byte (bit 15 of the LFSR, LSB first)")
        # register behaviour against a ghost spec LFSR driven by the same strobes
        ks = c.ghost("ks", 16, init=init)
        ks_word, ks_next = spec_word(ks)
        c.set_next(ks, z3.If(I["clear"] == 1, bvc(init, 16), z3.If(I["advance"] == 1, ks_next, ks)))
        c.inv("register_is_spec_lfsr_state", cur == ks)
        c.ensure("value_is_spec_keystream", O["value"] == ks_word,
                 clause="the keystream is the LFSR sequence: restarted by clear, advanced one word per advance, else held")
        c.cover("advanced_twice_then_cleared", z3.And(I["clear"] == 1, ks != init, ks != z3.simplify(spec_word(bvc(init, 16))[1])))
        c.cover_depth = 6
    return contract


# ------------------------------------------------------------------------------------------------ 2. (de)scrambler
PORTS = ("clear", "enable", "hold", "sink_data", "sink_ctrl", "sink_valid", "sink_ready",
         "source_data", "source_ctrl", "source_valid", "source_ready", "lfsr_state")


def ports(d, pre=""):
    return {pre + "clear": d.clear, pre + "enable": d.enable, pre + "hold": d.hold,
            pre + "sink_data": d.sink.data, pre + "sink_ctrl": d.sink.ctrl, pre + "sink_valid": d.sink.valid,
            pre + "sink_ready": d.sink.ready, pre + "source_data": d.source.data, pre + "source_ctrl": d.source.ctrl,
            pre + "source_valid": d.source.valid, pre + "source_ready": d.source.ready, pre + "lfsr_state": d.lfsr_state}


def lane(word, i):
    return bits(word, 8 * i + 7, 8 * i)


def com_first(I, pre=""):
    return z3.And(I[pre + "sink_valid"] == 1, bits(I[pre + "sink_ctrl"], 0) == 1, lane(I[pre + "sink_data"], 0) == 0xBC)


def make_scrambler(cls, init):
    def contract(c):
        d = cls(initial_value=init)
        ts = c.unit(d, ports(d))
        I, O = ts.inputs, ts.outputs
        cur = ts.sig("lfsr.current_value")
        ks = c.ghost("ks", 16, init=init)
        ks_word, ks_next = spec_word(ks)
        restart = z3.Or(I["clear"] == 1, com_first(I))
        transferred = z3.And(I["sink_valid"] == 1, I["source_ready"] == 1)
        advance = z3.And(transferred, I["hold"] == 0)
        c.set_next(ks, z3.If(restart, bvc(init, 16), z3.If(advance, ks_next, ks)))
        c.inv("lfsr_is_spec_keystream_state", cur == ks)

        en = I["enable"] == 1
        for i in range(4):
            is_ctrl = bits(I["sink_ctrl"], i) == 1
            c.ensure(f"lane{i}_data_symbol_xored_with_keystream_byte",
                     z3.Implies(z3.And(en, z3.Not(is_ctrl)),
                                lane(O["source_data"], i) == lane(I["sink_data"], i) ^ lane(ks_word, i)),
                     clause="data symbols are XORed with the keystream, one byte per symbol (lane i takes keystream byte i of the word)")
            c.ensure(f"lane{i}_control_symbol_unchanged",
                     z3.Implies(is_ctrl, lane(O["source_data"], i) == lane(I["sink_data"], i)),
                     clause="control symbols pass unchanged")
            c.ensure(f"lane{i}_unchanged_when_scrambling_disabled",
                     z3.Implies(z3.Not(en), lane(O["source_data"], i) == lane(I["sink_data"], i)),
                     clause="(enable low) data is passed through without scrambling")
        c.ensure("ctrl_flags_pass", O["source_ctrl"] == I["sink_ctrl"], clause="control symbols pass unchanged (K flags are never altered)")
        c.ensure("handshake_passes", z3.And(O["source_valid"] == I["sink_valid"], O["sink_ready"] == I["source_ready"]),
                 clause="a word is transferred downstream exactly when it is transferred upstream (nothing added or dropped)")
        c.ensure("debug_state_is_keystream", O["lfsr_state"] == ks_word, clause="the keystream is the LFSR sequence")
        # the three sentences about when the keystream moves, stated on the observable keystream output
        nxt_word = c.nx(O["lfsr_state"])
        c.ensure("keystream_restarts_after_com_or_clear", z3.Implies(restart, nxt_word == z3.simplify(spec_word(bvc(init, 16))[0])),
                 clause="restarts after a COM in a word's first symbol")
        c.ensure("keystream_advances_one_word_per_transferred_word",
                 z3.Implies(z3.And(z3.Not(restart), advance), nxt_word == spec_word(ks_next)[0]),
                 clause="the keystream advances ... when a word is actually transferred")
        c.ensure("keystream_held_without_transfer_or_under_hold",
                 z3.Implies(z3.And(z3.Not(restart), z3.Not(advance)), nxt_word == ks_word),
                 clause="advances only when a word is actually transferred (not while held for SKP insertion)")
        c.cover("scrambled_data_after_advance", z3.And(en, I["sink_ctrl"] == 0, I["sink_valid"] == 1, ks != init))
        c.cover("hold_blocks_advance", z3.And(transferred, I["hold"] == 1, ks != init))
        c.cover("com_restart", z3.And(com_first(I), I["clear"] == 0, ks != init))
        c.cover("stalled_word", z3.And(I["sink_valid"] == 1, I["source_ready"] == 0, ks != init))
        c.cover_depth = 6
    return contract


# ------------------------------------------------------------------------------------------------ 3. round trip
def make_roundtrip(init):
    def contract(c):
        a, b = Scrambler(initial_value=init), Descrambler(initial_value=init)
        ta = c.unit(a, ports(a))
        tb = c.unit(b, ports(b, "b_"), prefix="b.")
        A, AO, Bi, BO = ta.inputs, ta.outputs, tb.inputs, tb.outputs
        # the wire between them: the scrambled stream, minus the words the transmit CTC replaces by SKPs (those are the
        # words for which it raises `hold`; the receiving CTC removes the SKPs again)
        c.bind(Bi["b_sink_data"], AO["source_data"])
        c.bind(Bi["b_sink_ctrl"], AO["source_ctrl"])
        c.bind(Bi["b_sink_valid"], z3.If(A["hold"] == 1, bvc(0, 1), AO["source_valid"]))
        c.bind(A["source_ready"], BO["b_sink_ready"])
        c.require("descrambler_never_held", Bi["b_hold"] == 0, why="the receive path has no SKP insertion (hold is not driven for the Descrambler)")
        c.require("same_enable", A["enable"] == Bi["b_enable"], why="both ends agree on whether scrambling is enabled (LTSSM)")
        c.require("restarted_together", A["clear"] == Bi["b_clear"], why="'from the same starting state': explicit clears, if any, are applied to both ends")
        c.require("skp_replaces_idle_only", z3.Implies(A["hold"] == 1, z3.Not(com_first(A))),
                  why="hold is raised only while logical idle is being replaced by SKPs (C33), never on a word starting with COM")
        c.inv("both_lfsrs_equal", ta.sig("lfsr.current_value") == tb.sig("lfsr.current_value"))
        passed = z3.And(A["sink_valid"] == 1, A["hold"] == 0)
        c.ensure("descrambled_stream_is_original_stream",
                 z3.And(BO["b_source_valid"] == z3.If(passed, bvc(1, 1), bvc(0, 1)),
                        z3.Implies(passed, z3.And(BO["b_source_data"] == A["sink_data"], BO["b_source_ctrl"] == A["sink_ctrl"]))),
                 clause="descrambling a scrambled stream from the same starting state returns the original stream")
        c.ensure("backpressure_passes_through", AO["sink_ready"] == Bi["b_source_ready"],
                 clause="(round trip) the same words are transferred at both ends")
        c.cover("mixed_word_after_advance", z3.And(passed, A["enable"] == 1, A["sink_ctrl"] == 0b0101,
                                                   ta.sig("lfsr.current_value") != init))
        c.cover("held_word", z3.And(A["hold"] == 1, A["sink_valid"] == 1, ta.sig("lfsr.current_value") != init))
        c.cover_depth = 5
    return contract


def contracts(tier):
    quick = tier == "quick"
    inits = [0xFFFF, 0x7DBD] if quick else [0xFFFF, 0x7DBD, 0x0001, 0x8000, 0xA5A5, 0x1234]     # (0x0000 is the LFSR fixed point: keystream never moves, covers vacuous)
    for iv in inits:
        yield ("ScramblerLFSR", f"init_{iv:04x}", make_lfsr(iv))
    for iv in inits:
        yield ("Scrambler", f"init_{iv:04x}", make_scrambler(Scrambler, iv))        # 0xffff: as instantiated by the physical layer; 0x7dbd: class default
        if not quick or iv == 0xFFFF:                                                # Descrambler default / as instantiated: 0xffff
            yield ("Descrambler", f"init_{iv:04x}", make_scrambler(Descrambler, iv))
    for iv in inits:
        if not quick or iv == 0xFFFF:
            yield ("Scrambler->Descrambler", f"init_{iv:04x}", make_roundtrip(iv))
