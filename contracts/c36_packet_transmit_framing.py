"""C36 — header and data packets are transmitted with correct framing and CRCs (RawPacketTransmitter), and the link-layer
receivers read the same header/payload back with good CRCs (round trip).

Unit 1: the real RawPacketTransmitter; its HeaderPacketCRC / DataPacketPayloadCRC submodules are used through their C30
contracts (open subclasses with empty elaborate(), outputs = free inputs constrained by `require`s over the ghost registers
h16 / g32 which follow the call signals driven by the real transmitter code; see c40_data_packet_receive.py).  The
`crc*_covers_exactly_*` ensures pin the call signals to the wire events, so that field(h16) *is* the CRC-16 of the three
header words put on the wire and field(g32) the CRC-32 of exactly the payload bytes accepted from data_sink.

Wire format (spec side, USB 3.2 §7.2.1; little-endian words, first symbol in the low byte):
   SHP SHP SHP EPF | DW0 | DW1 | DW2 | DW3 = {crc5[31:27], deferred, delayed, hub_depth, reserved, seq[18:16], crc16[15:0]}
   and for a data header (type 01000): SDP SDP SDP EPF | payload bytes in order | CRC-32 immediately after the last payload
   byte | END END END EPF immediately after the CRC-32 | zero (logical idle) bytes up to the word boundary;
   with the delayed flag set: SDP SDP SDP EPF | EDB EDB EDB EPF (payload aborted).
Reading recorded (as in DESIGN.md): the statement's "END symbols padding to the word boundary followed by END-END-END-EPF" is
formalised as the USB 3.2 framing above (END END END EPF directly after the CRC, idle padding after it) — this is also what
the recorded packets in tests/test_usb3_data.py show (…CRC byte, END, END, END | EPF…).

Assumptions on the payload stream (data_sink), which the quantifier does not vary ("all headers, payload lengths, PHY ready
patterns"): whenever the transmitter raises data_sink.ready a word is present; every word but the last is full, the last one
has 1..4 contiguous valid bytes; a header presented with data_sink idle gets a zero-length payload.
"""
import z3
from hwv.contract import B, bvc, bits, bv1, zx
import luna.gateware.usb.usb3.link.transmitter as tx_mod
from . import spec
from .c40_data_packet_receive import open_crc_units, mask

SHP, SDP, EPF, END, EDB = 0xFB, 0x5C, 0xF7, 0xFD, 0x7C         # USB 3.2 table 6-1
W = lambda a, b, c_, d: a | b << 8 | c_ << 16 | d << 24
HPSTART, DPPSTART, DPPEND, DPPABORT = W(SHP, SHP, SHP, EPF), W(SDP, SDP, SDP, EPF), W(END, END, END, EPF), W(EDB, EDB, EDB, EPF)
TYPE_DATA = 0b01000
(IDLE, S_HP, S_DW0, S_DW1, S_DW2, S_DW3, S_DPP, S_PAY, S_LAST, S_CRC, S_FIN, S_ABORT) = range(12)
STATE_OF = {IDLE: "IDLE", S_HP: "SEND_HPSTART", S_DW0: "SEND_DW0", S_DW1: "SEND_DW1", S_DW2: "SEND_DW2", S_DW3: "SEND_DW3",
            S_DPP: "START_DPP", S_PAY: "SEND_PAYLOAD", S_LAST: "SEND_LAST_WORD", S_CRC: "SEND_CRC", S_FIN: "FINISH_DPP",
            S_ABORT: "ABORT_DPP"}
HDR_FIELDS = [("dw0", 32), ("dw1", 32), ("dw2", 32), ("sequence_number", 3), ("dw3_reserved", 3), ("hub_depth", 3),
              ("delayed", 1), ("deferred", 1)]


def cases(*pairs, default):
    e = default
    for cond, val in reversed(pairs):
        e = z3.If(cond, val, e)
    return e


def tx_ports(d, p=""):
    h, ds, s = d.header, d.data_sink, d.source
    ports = {p + "generate": d.generate, p + "done": d.done,
             p + "source_valid": s.valid, p + "source_data": s.data, p + "source_ctrl": s.ctrl, p + "source_ready": s.ready,
             p + "data_valid": ds.valid, p + "data_data": ds.data, p + "data_last": ds.last, p + "data_ready": ds.ready}
    for f, _ in HDR_FIELDS:
        ports[p + "h_" + f] = getattr(h, f)
    return ports


class TxModel:
    """Ghost state + abstraction map of one RawPacketTransmitter (shared by the unit contract and the round trip)."""

    def __init__(self, c, ts, made, p16, p32, p=""):
        I, O, of = ts.inputs, ts.outputs, ts.of
        self.I, self.O = I, O
        u16, u32 = made["crc16"][0], made["crc32"][0]
        self.u16, self.u32 = u16, u32
        G = lambda n, w, init=0: c.ghost(p + n, w, init=init)
        rdy = I[p + "source_ready"] == 1
        self.rdy = rdy
        dvalid, ddata, dlast = I[p + "data_valid"], I[p + "data_data"], I[p + "data_last"] == 1
        # ---- callee contracts
        T16, T32 = spec.CRC16_USB3_TAPS, spec.CRC32_TAPS
        h16 = G("crc16_unit_reg", 16, 0xFFFF)
        g32 = G("crc32_unit_reg", 32, 0xFFFFFFFF)
        self.h16, self.g32 = h16, g32
        c.set_next(h16, z3.If(of(u16.clear) == 1, bvc(0xFFFF, 16),
                              z3.If(of(u16.advance_crc) == 1, spec.crc_step(h16, of(u16.data_input), T16), h16)))
        self.adv = adv = [(u32.advance_word, 32), (u32.advance_3B, 24), (u32.advance_2B, 16), (u32.advance_1B, 8)]
        n32 = g32
        for sig, nb in reversed(adv):
            n32 = z3.If(of(sig) == 1, spec.crc_step(g32, of(u32.data_input), T32, nbits=nb), n32)
        c.set_next(g32, z3.If(of(u32.clear) == 1, bvc(0xFFFFFFFF, 32), n32))
        c.require(p + "crc16_unit_contract", I[p + "crc16_out"] == spec.crc_field(h16),
                  why="contract of HeaderPacketCRC proved in C30 (clear reseeds, advance_crc feeds data_input, crc = inverted "
                      "bit-reversed register)")
        c.require(p + "crc32_unit_contract", I[p + "crc32_out"] == spec.crc_field(g32),
                  why="contract of DataPacketPayloadCRC proved in C30 (clear reseeds, advance_word/3B/2B/1B feed 4/3/2/1 low bytes)")
        self.crc16, self.crc32 = spec.crc_field(h16), spec.crc_field(g32)
        # ---- spec: phase of the packet on the wire, latched header, payload pipeline
        ph = G("phase", 4, IDLE)
        self.ph = ph
        hdr = {f: G("hdr_" + f, w) for f, w in HDR_FIELDS}
        self.hdr = hdr
        zlp = G("zlp", 1)
        pw, pv = G("last_accepted_word", 32), G("last_accepted_valid", 4)
        self.zlp, self.pw, self.pv = zlp, pw, pv
        start = z3.And(ph == IDLE, I[p + "generate"] == 1)
        self.start = start
        is_data = bits(hdr["dw0"], 4, 0) == TYPE_DATA
        self.is_data = is_data
        low4_data = bits(hdr["dw0"], 3, 0) == (TYPE_DATA & 0xF)
        self.low4_data = low4_data
        take_first = z3.And(ph == S_DPP, rdy, hdr["delayed"] == 0, zlp == 0)
        take_next = z3.And(ph == S_PAY, rdy)
        accept = z3.Or(take_first, take_next)                     # a payload word is taken from data_sink in this cycle
        self.accept, self.take_first, self.take_next = accept, take_first, take_next
        P = lambda v: bvc(v, 4)
        step = lambda nxt: z3.If(rdy, P(nxt), ph)
        c.set_next(ph, cases(
            (ph == IDLE, z3.If(I[p + "generate"] == 1, P(S_HP), P(IDLE))),
            (ph == S_HP, step(S_DW0)), (ph == S_DW0, step(S_DW1)), (ph == S_DW1, step(S_DW2)), (ph == S_DW2, step(S_DW3)),
            (ph == S_DW3, z3.If(rdy, z3.If(low4_data, P(S_DPP), P(IDLE)), ph)),
            (ph == S_DPP, z3.If(rdy, cases((hdr["delayed"] == 1, P(S_ABORT)), (zlp == 1, P(S_CRC)), (dlast, P(S_LAST)),
                                            default=P(S_PAY)), ph)),
            (ph == S_PAY, z3.If(z3.And(rdy, dlast), P(S_LAST), ph)),
            (ph == S_LAST, step(S_CRC)), (ph == S_CRC, step(S_FIN)),
            default=z3.If(rdy, P(IDLE), ph)))                     # S_FIN, S_ABORT
        for f, w in HDR_FIELDS:
            c.set_next(hdr[f], z3.If(start, I[p + "h_" + f], hdr[f]))
        c.set_next(zlp, z3.If(z3.And(ph == S_DW3, rdy), bv1(dvalid == 0), zlp))
        c.set_next(pw, z3.If(accept, ddata, pw))
        c.set_next(pv, z3.If(accept, dvalid, z3.If(z3.And(ph == S_DPP, rdy, hdr["delayed"] == 0, zlp == 1), bvc(0xF, 4), pv)))
        # ---- environment: the payload stream
        legal_last = z3.Or(dvalid == 1, dvalid == 3, dvalid == 7, dvalid == 15)
        c.require(p + "payload_stream_wellformed", z3.Implies(accept, z3.If(dlast, legal_last, dvalid == 15)),
                  why="SuperSpeedStreamInterface producer: when the transmitter takes a payload word one is present; all words but "
                      "the last are full, the last has 1..4 contiguous valid bytes")
        # ---- abstraction map
        fsm = ts.fsm("fsm_state")
        self.fsm = fsm
        c.inv(p + "fsm_legal", fsm.legal())
        c.inv(p + "phase_legal", z3.ULE(ph, S_ABORT))
        for code, st in STATE_OF.items():
            c.inv(p + f"{st.lower()}_is_phase", fsm.is_(st) == (ph == code))
        c.inv(p + "header_latched", z3.Implies(ph != IDLE, z3.And(*[ts.sig("HeaderPacket__" + f) == hdr[f] for f, _ in HDR_FIELDS])))
        c.inv(p + "zlp_flag", z3.Implies(ph == S_DPP, ts.sig("packet_is_zlp") == zlp))
        in_payload = z3.Or(ph == S_PAY, ph == S_LAST, ph == S_CRC, ph == S_FIN)
        c.inv(p + "pipeline_registers", z3.Implies(in_payload, z3.And(ts.sig("pipelined_data_valid") == pv,
                                                                        z3.Implies(pv != 15, ts.sig("pipelined_data_word") == pw),
                                                                        z3.Implies(z3.Or(ph == S_PAY, ph == S_LAST), ts.sig("pipelined_data_word") == pw))))
        c.inv(p + "pipeline_valid_legal", z3.And(z3.Implies(ph == S_PAY, pv == 15),
                                                 z3.Implies(z3.Or(ph == S_LAST, ph == S_CRC, ph == S_FIN), z3.Or(pv == 1, pv == 3, pv == 7, pv == 15))))
        c.inv(p + "data_path_only_for_data_headers", z3.Implies(z3.UGE(ph, S_DPP), low4_data))
        c.inv(p + "abort_only_when_delayed", z3.Implies(ph == S_ABORT, hdr["delayed"] == 1))
        c.inv(p + "payload_only_when_not_delayed", z3.Implies(in_payload, hdr["delayed"] == 0))

    def dw3_word(self):
        h = self.hdr
        lcw = z3.Concat(h["deferred"], h["delayed"], h["hub_depth"], h["dw3_reserved"], h["sequence_number"])     # bits 26..16
        return z3.Concat(spec.usb2_crc5(lcw), lcw, self.crc16)


def open_transmitter(c, prefix="", unit_prefix=""):
    with open_crc_units(tx_mod) as (p16, p32, made):
        d = tx_mod.RawPacketTransmitter()
        ports = tx_ports(d, prefix)
        ports[prefix + "crc16_out"], ports[prefix + "crc32_out"] = p16, p32
        ts = c.unit(d, ports, prefix=unit_prefix)
    return d, ts, made, p16, p32


def transmitter(c):
    d, ts, made, p16, p32 = open_transmitter(c)
    c.functions.append("callee contracts: luna.gateware.usb.usb3.link.crc.HeaderPacketCRC / DataPacketPayloadCRC (proved in C30)")
    m = TxModel(c, ts, made, p16, p32)
    I, O, of, ph, hdr, rdy, pv, pw = m.I, m.O, ts.of, m.ph, m.hdr, m.rdy, m.pv, m.pw
    sv, sd, sc = O["source_valid"] == 1, O["source_data"], O["source_ctrl"]
    crc = m.crc32

    def wire(phase, data, ctrl, extra=True):
        return z3.Implies(z3.And(ph == phase, extra), z3.And(sv, sd == data, sc == ctrl))

    c.ensure("idle_is_silent", z3.Implies(ph == IDLE, z3.And(z3.Not(sv), O["done"] == 0, O["data_ready"] == 0)),
             clause="(nothing is transmitted without a generate request)")
    c.ensure("header_packet_framing_and_words", z3.And(
        wire(S_HP, HPSTART, 0xF), wire(S_DW0, hdr["dw0"], 0), wire(S_DW1, hdr["dw1"], 0), wire(S_DW2, hdr["dw2"], 0)),
        clause="Each transmitted header packet is SHP-SHP-SHP-EPF, three header words [of the header presented with generate] ...")
    c.ensure("fourth_word_crc16_seq_crc5", wire(S_DW3, m.dw3_word(), 0),
             clause="... and a fourth word with the header CRC16, sequence number and a link-control CRC5 (CRC-16 of the three header "
                    "words in [15:0]; sequence number, reserved, hub depth, delayed, deferred in [26:16]; CRC-5 of [26:16] in [31:27])")
    c.ensure("crc16_covers_exactly_the_three_header_words", z3.And(
        (of(m.u16.clear) == 1) == (ph == IDLE),
        (of(m.u16.advance_crc) == 1) == z3.And(z3.Or(ph == S_DW0, ph == S_DW1, ph == S_DW2), rdy),
        of(m.u16.data_input) == sd),
        clause="the header CRC16: the CRC-16 unit is reseeded while idle and advanced exactly once per transferred header word "
               "DW0..DW2 with the word on the wire")
    c.ensure("non_data_header_ends_after_fourth_word",
             z3.Implies(z3.And(ph == S_DW3, rdy, z3.Not(m.low4_data)), z3.And(O["done"] == 1, c.nx(ph) == IDLE)),
             clause="Each transmitted header packet is [exactly these five words]")
    c.ensure("data_header_is_followed_by_dpp_start",
             z3.And(z3.Implies(z3.And(ph == S_DW3, rdy, m.is_data), z3.And(O["done"] == 0, c.nx(ph) == S_DPP)),
                    wire(S_DPP, DPPSTART, 0xF)),
             clause="a data header is followed by SDP-SDP-SDP-EPF ...")
    c.ensure("delayed_data_packet_is_aborted_with_edb",
             z3.And(z3.Implies(z3.And(ph == S_DPP, rdy, hdr["delayed"] == 1), z3.And(c.nx(ph) == S_ABORT, O["data_ready"] == 0)),
                    wire(S_ABORT, DPPABORT, 0xF), z3.Implies(z3.And(ph == S_ABORT, rdy), z3.And(O["done"] == 1, c.nx(ph) == IDLE))),
             clause="... (or an EDB abort when the packet is marked delayed): SDP SDP SDP EPF is followed by EDB EDB EDB EPF, no "
                    "payload word is consumed")
    c.ensure("payload_words_taken_exactly_when_forwarded", (O["data_ready"] == 1) == m.accept,
             clause="the payload bytes in order: a payload word is taken from the stream exactly when the previous one is "
                    "transferred on the wire (or, for the first, when the DPP start framing is transferred)")
    c.ensure("payload_bytes_in_order", z3.And(
        wire(S_PAY, pw, 0),
        z3.Implies(ph == S_LAST, z3.And(sv, sc == 0, (sd & z3.Concat(*[z3.If(bits(pv, i) == 1, bvc(0xFF, 8), bvc(0, 8)) for i in (3, 2, 1, 0)]))
                                        == (pw & z3.Concat(*[z3.If(bits(pv, i) == 1, bvc(0xFF, 8), bvc(0, 8)) for i in (3, 2, 1, 0)]))))),
        clause="the payload bytes in order: each word on the wire is the word taken one transfer earlier (valid byte lanes of the "
               "last word), all data symbols")
    c.ensure("crc32_covers_exactly_the_payload_bytes", z3.And(
        (of(m.u32.clear) == 1) == (ph == IDLE),
        *[(of(sig) == 1) == z3.And(m.accept, I["data_valid"] == mask(bvc(nb // 8, 3))) for sig, nb in m.adv],
        of(m.u32.data_input) == I["data_data"]),
        clause="the CRC32 of the payload: the CRC-32 unit is reseeded while idle and advanced exactly over the valid bytes of each "
               "payload word taken, so while the last word / CRC is sent its register is the CRC-32 of the whole payload")
    c.ensure("crc32_immediately_after_last_byte", z3.And(
        z3.Implies(z3.And(ph == S_LAST, pv == 7), bits(sd, 31, 24) == bits(crc, 7, 0)),
        z3.Implies(z3.And(ph == S_LAST, pv == 3), bits(sd, 31, 16) == bits(crc, 15, 0)),
        z3.Implies(z3.And(ph == S_LAST, pv == 1), bits(sd, 31, 8) == bits(crc, 23, 0)),
        wire(S_CRC, crc, 0, pv == 15),
        wire(S_CRC, z3.Concat(bvc(END, 8), bits(crc, 31, 8)), 0b1000, pv == 7),
        wire(S_CRC, z3.Concat(bvc(END, 8), bvc(END, 8), bits(crc, 31, 16)), 0b1100, pv == 3),
        wire(S_CRC, z3.Concat(bvc(END, 8), bvc(END, 8), bvc(END, 8), bits(crc, 31, 24)), 0b1110, pv == 1)),
        clause="the CRC32 of the payload placed immediately after its last byte ... [then END symbols]")
    c.ensure("end_framing_and_idle_padding", z3.And(
        wire(S_FIN, DPPEND, 0xF, pv == 15), wire(S_FIN, DPPEND >> 8, 0b0111, pv == 7),
        wire(S_FIN, DPPEND >> 16, 0b0011, pv == 3), wire(S_FIN, DPPEND >> 24, 0b0001, pv == 1),
        z3.Implies(z3.And(ph == S_FIN, rdy), z3.And(O["done"] == 1, c.nx(ph) == IDLE))),
        clause="... END-END-END-EPF [immediately after the CRC32, zero/idle bytes up to the word boundary], then the packet is done")
    c.ensure("zero_length_payload", z3.Implies(z3.And(ph == S_DPP, rdy, hdr["delayed"] == 0, m.zlp == 1),
                                               z3.And(c.nx(ph) == S_CRC, c.nx(pv) == 15, m.g32 == 0xFFFFFFFF)),
             clause="payload lengths 0..N: with no payload offered the DPP is SDP SDP SDP EPF, CRC-32 of nothing, END END END EPF")
    c.inv("crc32_seeded_until_payload", z3.Implies(z3.And(z3.UGE(ph, S_HP), z3.ULE(ph, S_DPP)), m.g32 == 0xFFFFFFFF))
    c.ensure("words_held_until_accepted", z3.Implies(z3.And(ph != IDLE, z3.Not(rdy)), z3.And(
        c.nx(ph) == ph, c.nx(O["source_data"]) == sd, c.nx(O["source_ctrl"]) == sc, O["done"] == 0, O["data_ready"] == 0)),
        clause="all PHY ready patterns: a word is held unchanged until the PHY accepts it; nothing advances meanwhile")
    c.ensure("done_iff_last_word_transferred", (O["done"] == 1) == z3.And(rdy, z3.Or(
        z3.And(ph == S_DW3, z3.Not(m.low4_data)), ph == S_FIN, ph == S_ABORT)), clause="(done marks the transfer of the packet's last word)")
    c.cover("header_only_packet", z3.And(ph == S_DW3, rdy, z3.Not(m.low4_data)))
    c.cover("aborted_packet", z3.And(ph == S_ABORT, rdy))
    c.cover("zlp_packet", z3.And(ph == S_FIN, m.zlp == 1, rdy))
    for k, msk in ((1, 1), (2, 3), (3, 7), (4, 15)):
        c.cover(f"payload_tail_{k}_bytes", z3.And(ph == S_FIN, rdy, pv == msk, m.zlp == 0))
    c.cover("multi_word_payload_with_stall", z3.And(ph == S_PAY, z3.Not(rdy)))
    c.cover_depth = 11


RX_STATE_OF = {S_DW0: "RECEIVE_DW0", S_DW1: "RECEIVE_DW1", S_DW2: "RECEIVE_DW2", S_DW3: "RECEIVE_DW3"}


def header_roundtrip(c):
    """RawPacketTransmitter.source -> RawHeaderPacketReceiver.sink (the receiver sees a word in the cycle it is transferred)."""
    import luna.gateware.usb.usb3.link.receiver as rx_mod
    d, ts, made, p16, p32 = open_transmitter(c)
    with open_crc_units(rx_mod) as (r16, _r32, rmade):
        r = rx_mod.RawHeaderPacketReceiver()
        rports = {"r_sink_valid": r.sink.valid, "r_sink_data": r.sink.data, "r_sink_ctrl": r.sink.ctrl, "r_crc16_out": r16,
                  "r_new_packet": r.new_packet, "r_bad_packet": r.bad_packet, "r_bad_sequence": r.bad_sequence,
                  "r_expected_sequence": r.expected_sequence}
        for f, _ in HDR_FIELDS + [("crc16", 16), ("crc5", 5)]:
            rports["r_pkt_" + f] = getattr(r.packet, f)
        tr = c.unit(r, rports, prefix="r.")
    c.functions.append("callee contract: luna.gateware.usb.usb3.link.crc.HeaderPacketCRC (proved in C30), twice")
    m = TxModel(c, ts, made, p16, p32)
    I, O, ph, hdr, rdy = m.I, m.O, m.ph, m.hdr, m.rdy
    RI, RO = tr.inputs, tr.outputs
    c.bind(RI["r_sink_data"], O["source_data"])
    c.bind(RI["r_sink_ctrl"], O["source_ctrl"])
    c.bind(RI["r_sink_valid"], O["source_valid"] & I["source_ready"])
    ru16 = rmade["crc16"][0]
    rh16 = c.ghost("r.crc16_unit_reg", 16, init=0xFFFF)
    c.set_next(rh16, z3.If(tr.of(ru16.clear) == 1, bvc(0xFFFF, 16),
                           z3.If(tr.of(ru16.advance_crc) == 1, spec.crc_step(rh16, tr.of(ru16.data_input), spec.CRC16_USB3_TAPS), rh16)))
    c.require("r.crc16_unit_contract", RI["r_crc16_out"] == spec.crc_field(rh16), why="contract of HeaderPacketCRC proved in C30 (receiver's unit)")
    chk = c.ghost("header_just_sent", 1, init=0)          # the fourth header word was transferred in the previous cycle
    c.set_next(chk, bv1(z3.And(ph == S_DW3, rdy)))
    rf = tr.fsm("r.fsm_state") if tr.has("r.fsm_state") else tr.fsm("fsm_state")
    c.inv("r.fsm_legal", rf.legal())
    for code, st in RX_STATE_OF.items():
        c.inv(f"r.{st.lower()}_while_tx_sends_it", rf.is_(st) == (ph == code))
    c.inv("r.check_after_fourth_word", rf.is_("CHECK_PACKET") == (chk == 1))
    c.inv("check_cycle_excludes_header_phases", z3.Implies(chk == 1, z3.Or(ph == IDLE, ph == S_DPP)))
    c.inv("tx_crc16_seeded_before_dw0", z3.Implies(ph == S_HP, m.h16 == 0xFFFF))
    in_words = z3.Or(ph == S_DW0, ph == S_DW1, ph == S_DW2, ph == S_DW3, chk == 1)
    c.inv("both_crc16_units_agree", z3.Implies(in_words, rh16 == m.h16))
    rs = lambda n: tr.sig("HeaderPacket__" + n)
    c.inv("r.words_captured", z3.And(
        z3.Implies(z3.Or(ph == S_DW1, ph == S_DW2, ph == S_DW3), rs("dw0") == hdr["dw0"]),
        z3.Implies(z3.Or(ph == S_DW2, ph == S_DW3), rs("dw1") == hdr["dw1"]),
        z3.Implies(ph == S_DW3, rs("dw2") == hdr["dw2"])))
    # while the receiver checks, the transmitter's latched header is still the one just sent unless a new generate arrives
    sent = {f: c.ghost("sent_" + f, w) for f, w in HDR_FIELDS}
    for f, w in HDR_FIELDS:
        c.set_next(sent[f], z3.If(z3.And(ph == S_DW3, rdy), hdr[f], sent[f]))
    sent_crc16 = c.ghost("sent_crc16", 16)
    c.set_next(sent_crc16, z3.If(z3.And(ph == S_DW3, rdy), m.crc16, sent_crc16))
    lcw = z3.Concat(sent["deferred"], sent["delayed"], sent["hub_depth"], sent["dw3_reserved"], sent["sequence_number"])
    c.inv("r.packet_in_check", z3.Implies(chk == 1, z3.And(
        *[rs(f) == sent[f] for f, _ in HDR_FIELDS], rs("crc16") == sent_crc16, sent_crc16 == spec.crc_field(rh16),
        rs("crc5") == spec.usb2_crc5(lcw), tr.sig("expected_crc5") == spec.usb2_crc5(lcw))))
    seq_ok = RI["r_expected_sequence"] == sent["sequence_number"]
    c.ensure("received_header_has_good_crcs", z3.Implies(chk == 1, RO["r_bad_packet"] == 0),
             clause="Receiving such a stream with the link-layer receivers yields ... good CRCs (header CRC-5 and CRC-16 accepted)")
    c.ensure("received_header_is_the_transmitted_header",
             z3.Implies(z3.And(chk == 1, seq_ok), z3.And(c.nx(RO["r_new_packet"]) == 1,
                        *[c.nx(RO["r_pkt_" + f]) == sent[f] for f, _ in HDR_FIELDS], c.nx(RO["r_pkt_crc16"]) == sent_crc16)),
             clause="Receiving such a stream with the link-layer receivers yields the same header (all three words, sequence number, "
                    "hub depth, delayed, deferred) when its sequence number is the expected one")
    c.ensure("one_report_per_transmitted_header", z3.And(
        (c.nx(RO["r_new_packet"]) == 1) == z3.And(chk == 1, seq_ok),
        (RO["r_bad_sequence"] == 1) == z3.And(chk == 1, z3.Not(seq_ok)), z3.Implies(chk == 0, RO["r_bad_packet"] == 0)),
        clause="(round trip) exactly one report per transmitted header, none otherwise, for all PHY ready patterns")
    c.cover("header_roundtrip_done", z3.And(RO["r_new_packet"] == 1, RO["r_pkt_dw1"] == 0x12345678))
    c.cover("roundtrip_with_stall", z3.And(ph == S_DW2, z3.Not(rdy)))
    c.cover_depth = 10
    c.timeout_s = max(c.timeout_s, 240)


def payload_framing_matches_receiver_grammar(c):
    """Spec consistency (no state): the words the transmitter contract prescribes for the end of a payload (last payload word
    with CRC bytes spliced in, then the CRC word) are parsed by the data receiver contract's CRC check (C40: check word
    assembled from the last payload word and the next word according to the number of payload bytes in the last word) into
    exactly the CRC-32 field; and the receiver's payload byte lanes are the transmitter's valid lanes."""
    pw, crc = z3.BitVec("pw", 32), z3.BitVec("crc", 32)
    for k, pv in ((1, 1), (2, 3), (3, 7), (4, 15)):
        keep = 8 * k
        last_word = pw if k == 4 else z3.Concat(bits(crc, 31 - keep, 0), bits(pw, keep - 1, 0))
        crc_word = crc if k == 4 else z3.Concat(z3.BitVecVal(int.from_bytes(bytes([END] * (4 - k)), "little"), 8 * (4 - k)),
                                                 bits(crc, 31, 32 - keep))
        check = {4: crc_word, 3: z3.Concat(bits(crc_word, 23, 0), bits(last_word, 31, 24)),
                 2: z3.Concat(bits(crc_word, 15, 0), bits(last_word, 31, 16)), 1: z3.Concat(bits(crc_word, 7, 0), bits(last_word, 31, 8))}[k]
        c.lemma(f"crc_placement_{k}_byte_tail_is_what_the_receiver_checks", check == crc,
                clause="Receiving such a stream with the link-layer receivers yields ... good CRCs: CRC-32 placement of the transmit "
                       "format and the receive check (C40) agree for every trailing-byte count")
        c.lemma(f"payload_lanes_{k}_byte_tail", bits(last_word, keep - 1, 0) == bits(pw, keep - 1, 0),
                clause="... the same payload: the receiver's valid byte lanes of the last word are the transmitted payload bytes")


def contracts(tier):
    yield ("RawPacketTransmitter", "", transmitter)
    yield ("RawPacketTransmitter->RawHeaderPacketReceiver", "", header_roundtrip)
    yield ("DPP-format-vs-C40-grammar", "", payload_framing_matches_receiver_grammar)


LEVEL = "proof"
EXPLANATION = ("Unbounded inductive proofs: (1) wire format of the real RawPacketTransmitter (CRC units through their C30 contracts) for all "
               "headers, payload tails of 1..4 bytes, zero-length and delayed packets and all PHY ready patterns; (2) product proof "
               "RawPacketTransmitter -> RawHeaderPacketReceiver: the received header equals the transmitted one with good CRCs; "
               "(3) the DPP end format agrees with the data receiver's CRC check of C40 (combinational lemmas). The payload round trip "
               "through DataPacketReceiver is by composition of (1)+(3) with the C40 contract, not by a product proof.")
ASSUMPTIONS = ["payload stream well-formed (word present when taken; only the last word partial, contiguous lanes)", "CRC unit contracts (C30)",
               "END-END-END-EPF directly after the CRC-32 with idle padding (USB 3.2 reading of the statement's framing sentence)"]
