"""C24 — UTMI control inputs reach the PHY's Function Control / OTG Control registers (UTMITranslator with its real
ULPIControlTranslator, ULPIRegisterWindow and ULPITransmitTranslator).

Spec side: a *PHY model* ghost, driven only by what is on the ULPI pins (DIR, NXT, STP, data.o), ULPI 1.1 §3.8.3:
    ph     IDLE / TX (transmit command accepted, until STP) / RWD (RegWrite command `10aaaaaa` accepted, waiting for the
           data byte) / RWS (data byte accepted, the next cycle must carry STP)
    paddr, pval     address / data byte the PHY latched for the write in progress
    r04, r0a        the PHY's Function Control and OTG Control registers; power-on 0x41 / 0x06 (ULPI reset defaults);
                    written with pval when STP arrives in RWS with DIR low; DIR high aborts any command.
    req04, req0a    the values the UTMI control inputs ask for *now* (ULPI 1.1 register map, written here from the spec).
    ever04_v/ever0a_v   witness symbol `v` (rigid): "req04 (req0a) has equalled v in some cycle since the last completed
                    write of that register".

Ensures (statement clause -> name)
  each write carries the value for the register it addresses
        only_control_registers_written, fc_write_value_was_requested_for_fc, otg_write_value_was_requested_for_otg,
        stp_follows_write_data (the window completes the write the PHY latched)
  once no change is pending and the bus is idle, the PHY's registers equal the requested settings
        quiescent_phy_registers_equal_request   ("no change pending" = the link's own pending flags; see note)
        shadow_tracks_phy_registers
  never block each other indefinitely  (safety part + bounded response under a fairness bound, LABELLED as such)
        write_never_hidden_behind_transmitter        a write in progress always owns the pins (no mutual wait)
        write_starts_when_bus_free                   one-step progress: pending change & free bus => write starts
        write_completes_within_4_cooperative_cycles  BOUNDED RESPONSE: a started write completes as soon as the PHY has
                                                     been cooperative (DIR low, NXT for each presented byte) for 4
                                                     consecutive cycles  (fairness bound on the PHY)
        control_busy_drops_after_write               transmissions are held back by a write only while it is in progress
  "eventually" (liveness proper) is not expressible as a safety obligation; it follows from the three progress
  obligations under the fairness assumption "the PHY is eventually cooperative for 4 consecutive cycles while no
  transmission is requested" — that last implication is an argument on paper, not a discharged obligation.

FINDINGS on the unchanged tree (every witness below was found by the engine and replayed on Amaranth's simulator;
proposed_fixes/C24_ulpi_register_write_atomicity_and_arbitration.diff makes the whole contract pass):
  (a) wrong value to the addressed register: the register window uses the *live* address/write_data, and the control
      translator derives them from a live priority chain.  A Function Control change while an OTG Control write is being
      set up (or vice versa) sends `RegWrite 0x04` followed by an OTG value: replay ..._cons_shadow04_tracks_phy.json ends
      with PHY Function Control = 0x01, an earlier OTG Control request that was never a Function Control request.  A change *back to the old value* while the write is in flight
      makes the chain select nothing: address/data fall to 0 — replay ..._cons_stopping_refines.json completes a write to
      register 0x00, ..._cons_shadow0a_tracks_phy.json writes 0x00 into OTG Control.
  (b) `done` is routed by the live chain and the shadow takes the live write_value: the shadow register can be updated for
      a register/value the PHY never received, after which "no change pending" holds with PHY registers != request.
  (c) mutual blocking: a control change in the cycle a transmission is requested (or while the transmit command waits for
      NXT) starts a register write although the transmitter owns the data/stp mux; the write is invisible to the PHY,
      the control translator stays busy, which in turn withdraws the transmit command: neither ever completes
      (replay ..._cons_window_busy_excludes_transmitter.json, clause write_never_hidden_behind_transmitter).

The contract binds on the tree with and without the proposed fix (proposed_fixes/C24_*.diff): `requested_value_XX`
(the sampled request introduced by the fix) is used if present, else the live request.
"""
import z3
from hwv.contract import B, bvc, bits, bv1, zx
from luna.gateware.interface.ulpi import (UTMITranslator, ULPITransmitTranslator, ULPIRegisterWindow,
                                          ULPIControlTranslator)
from .c22_ulpi_receive import ulpi_record, CONTROL

LEVEL = "proof"
EXPLANATION = ("UTMITranslator with a PHY-model ghost (command parser + register file driven by the ULPI pins); invariant = "
               "refinement map register-window FSM / transmit FSM <-> PHY model phase, shadow registers <-> PHY registers; "
               "safety clauses by unbounded 1-induction; 'eventually' clauses as one-step progress + bounded response under "
               "a stated PHY fairness bound.")
ASSUMPTIONS = [
    "ULPI PHY: NXT low in the cycle DIR falls; NXT (with DIR low) only in response to a non-idle byte or inside a command",
    "ULPI PHY: DIR is not raised between accepting a transmit command and its STP (the design has no transmit-abort path)",
    "ULPI PHY: Function Control / OTG Control hold their ULPI reset defaults 0x41 / 0x06 at power-on; a RegWrite takes "
    "effect when STP follows the data byte with DIR low; DIR high aborts a command",
    "UTMI transmitter: tx_valid is held until a byte has been accepted",
    "'eventually' = bounded response under the fairness bound 'PHY cooperative for 4 consecutive cycles' (see docstring)",
]
BOUNDED = []

IDLE, TX, RWD, RWS = 0, 1, 2, 3
REGW = 0x80


def make(with_rst):
    def contract(c):
        u = ulpi_record(with_rst)
        d = UTMITranslator(ulpi=u, handle_clocking=False)
        ports = {"dir": u.dir.i, "nxt": u.nxt.i, "data_i": u.data.i, "data_o": u.data.o, "oe": u.data.oe, "stp": u.stp.o,
                 "tx_data": d.tx_data, "tx_valid": d.tx_valid, "tx_ready": d.tx_ready, "busy": d.busy}
        for n in CONTROL:
            ports[n] = getattr(d, n)
        ts = c.unit(d, ports)
        I, O = ts.inputs, ts.outputs
        of = ts.of
        tx = ts.instance(ULPITransmitTranslator)
        win = ts.instance(ULPIRegisterWindow)
        ctl = ts.instance(ULPIControlTranslator)
        # FSMs / registers of the real child instances (found by class), whatever UTMITranslator.elaborate calls the submodules
        from .c10_unsupported_requests_stall import instance_fsm, instance_sig
        wf = instance_fsm(ts, win)
        tf = instance_fsm(ts, tx)
        ctl_sig = lambda n: instance_sig(ts, ctl, n)
        dirb, nxtb, stpb, txv = B(I["dir"]), B(I["nxt"]), B(O["stp"]), B(I["tx_valid"])
        data_o = O["data_o"]
        cmd2 = bits(data_o, 7, 6)

        # ---- requested register contents (ULPI 1.1 register map)
        req04 = z3.Concat(bvc(0, 1), ~I["suspend"], bvc(0, 1), I["op_mode"], I["term_select"], I["xcvr_select"])
        req0a = z3.Concat(I["use_external_vbus_indicator"], bvc(0, 2), I["chrg_vbus"], I["dischrg_vbus"],
                          I["dm_pulldown"], I["dp_pulldown"], I["id_pullup"])

        # ---- PHY model
        pdir = c.ghost("pdir", 1, init=0)
        ph = c.ghost("ph", 2, init=IDLE)
        paddr = c.ghost("paddr", 6, init=0)
        pval = c.ghost("pval", 8, init=0)
        r04 = c.ghost("r04", 8, init=0x41)
        r0a = c.ghost("r0a", 8, init=0x06)
        c.set_next(pdir, I["dir"])
        P = lambda k: bvc(k, 2)
        accept = z3.And(z3.Not(dirb), nxtb)
        ph_next = z3.If(dirb, P(IDLE),
                  z3.If(ph == IDLE, z3.If(accept, z3.If(cmd2 == 1, P(TX), z3.If(cmd2 == 2, P(RWD), P(IDLE))), P(IDLE)),
                  z3.If(ph == TX, z3.If(stpb, P(IDLE), P(TX)),
                  z3.If(ph == RWD, z3.If(stpb, P(IDLE), z3.If(nxtb, P(RWS), P(RWD))),
                        z3.If(stpb, P(IDLE), P(RWS))))))
        c.set_next(ph, ph_next)
        c.set_next(paddr, z3.If(z3.And(ph == IDLE, accept, cmd2 == 2), bits(data_o, 5, 0), paddr))
        c.set_next(pval, z3.If(z3.And(ph == RWD, accept, z3.Not(stpb)), data_o, pval))
        complete = z3.And(ph == RWS, z3.Not(dirb), stpb)
        complete04, complete0a = z3.And(complete, paddr == 0x04), z3.And(complete, paddr == 0x0A)
        c.set_next(r04, z3.If(complete04, pval, r04))
        c.set_next(r0a, z3.If(complete0a, pval, r0a))
        v = c.rigid("v", 8)
        ever04 = c.ghost("ever04_v", 1, init=0)
        ever0a = c.ghost("ever0a_v", 1, init=0)
        c.set_next(ever04, z3.If(complete04, bv1(req04 == v), bv1(z3.Or(ever04 == 1, req04 == v))))
        c.set_next(ever0a, z3.If(complete0a, bv1(req0a == v), bv1(z3.Or(ever0a == 1, req0a == v))))

        # ---- environment
        c.require("phy_nxt_low_when_dir_falls", z3.Implies(z3.And(pdir == 1, z3.Not(dirb)), z3.Not(nxtb)),
                  why="ULPI 1.1: the cycle in which DIR falls is a bus turnaround; the PHY does not assert NXT in it")
        c.require("phy_nxt_only_for_a_command", z3.Implies(z3.And(accept, ph == IDLE), cmd2 != 0),
                  why="ULPI 1.1: with DIR low the PHY asserts NXT only to accept a byte of a command; an idle byte (00xxxxxx "
                      "while no command is in progress) is never acknowledged")
        c.require("phy_does_not_interrupt_transmit", z3.Implies(ph == TX, z3.Not(dirb)),
                  why="ULPI 1.1: RxCmds are deferred while the link transmits; the design has no transmit-abort path (also assumed by C23)")
        hold = c.ghost("tx_hold", 1, init=0)
        c.set_next(hold, bv1(z3.And(txv, O["tx_ready"] == 0)))
        c.require("utmi_tx_valid_held_until_accepted", z3.Implies(hold == 1, txv),
                  why="UTMI: TXValid stays asserted until the byte has been accepted")

        # ---- internal vocabulary
        W = lambda *s: wf.is_(*s)
        treq = of(tx.ulpi_out_req) == 1
        cbusy = of(ctl.busy) == 1
        done = of(win.done) == 1
        sh04, sh0a = ctl_sig("current_register_value_04"), ctl_sig("current_register_value_0a")
        wv04, wv0a = ctl_sig("write_value_04"), ctl_sig("write_value_0a")
        fixed = bool(ts.find("requested_value_04"))
        if fixed:
            rq04, rq0a = ctl_sig("requested_value_04"), ctl_sig("requested_value_0a")
        else:
            rq04, rq0a = req04, req0a
        wr04, wr0a = sh04 != rq04, sh0a != rq0a
        sel04 = wr04
        sel0a = z3.And(z3.Not(wr04), wr0a)
        sel_addr = z3.If(sel04, bvc(0x04, 6), bvc(0x0A, 6))
        sel_val = z3.If(sel04, rq04, rq0a)
        wdata = of(win.ulpi_data_out)
        phy_ready = ts.sig("phy_ready") == 1

        # ---- invariant: refinement map
        c.inv("window_fsm_legal", wf.legal())
        c.inv("tx_fsm_legal", tf.legal())
        c.inv("window_never_reads", z3.Not(W("START_READ", "SEND_READ_ADDRESS", "READ_TURNAROUND", "READ_COMPLETE")))
        c.inv("window_busy_implies_control_busy", z3.Implies(z3.Not(W("IDLE")), cbusy))
        c.inv("window_busy_excludes_transmitter", z3.Implies(z3.Not(W("IDLE")), z3.And(z3.Not(treq), tf.is_("IDLE"))))
        c.inv("transmit_body_owns_bus", z3.Implies(tf.is_("TRANSMIT"), treq))
        c.inv("phy_tx_iff_transmit_state", (ph == TX) == tf.is_("TRANSMIT"))
        c.inv("idle_window_is_quiet", z3.Implies(W("IDLE"), z3.And(wdata == 0, of(win.ulpi_stop) == 0)))
        c.inv("window_stop_only_when_stopping", (of(win.ulpi_stop) == 1) == W("STOPPING"))
        c.inv("done_only_when_idle", z3.Implies(done, W("IDLE")))
        c.inv("start_write_stale_byte_only_in_turnaround", z3.Implies(W("START_WRITE"), z3.Or(wdata == 0, pdir == 1)))
        c.inv("phy_idle_while_window_waits", z3.Implies(W("IDLE", "START_WRITE"), z3.Or(ph == IDLE, ph == TX)))
        c.inv("send_address_refines", z3.Implies(W("SEND_WRITE_ADDRESS"),
                                                 z3.And(ph == IDLE, wdata == z3.Concat(bvc(0b10, 2), sel_addr))))
        c.inv("hold_write_refines", z3.Implies(W("HOLD_WRITE"), z3.And(ph == RWD, paddr == sel_addr, wdata == sel_val)))
        c.inv("stopping_refines", z3.Implies(W("STOPPING"), z3.And(ph == RWS, paddr == sel_addr, pval == sel_val, wdata == 0)))
        c.inv("phy_write_phases_only_with_window", z3.And(z3.Implies(ph == RWD, W("HOLD_WRITE")), z3.Implies(ph == RWS, W("STOPPING"))))
        c.inv("a_register_is_selected_while_writing", z3.Implies(z3.Or(z3.Not(W("IDLE")), done), z3.Or(wr04, wr0a)))
        c.inv("write_value_settled_while_writing", z3.Implies(z3.Or(z3.Not(W("IDLE")), done),
                                                             z3.And(z3.Implies(sel04, wv04 == rq04), z3.Implies(sel0a, wv0a == rq0a))))
        c.inv("done_means_phy_register_written", z3.Implies(done, z3.If(sel04, r04 == rq04, r0a == rq0a)))
        c.inv("shadow04_tracks_phy", z3.Or(sh04 == r04, z3.And(done, sel04)))
        c.inv("shadow0a_tracks_phy", z3.Or(sh0a == r0a, z3.And(done, sel0a)))
        # (the value the link works with was requested at some point since that register's last write -- or is requested right now)
        c.inv("sampled_fc_request_was_requested", z3.Implies(rq04 == v, z3.Or(ever04 == 1, r04 == v, req04 == v)) if fixed else z3.BoolVal(True))
        c.inv("sampled_otg_request_was_requested", z3.Implies(rq0a == v, z3.Or(ever0a == 1, r0a == v, req0a == v)) if fixed else z3.BoolVal(True))
        # bounded response bookkeeping
        coop = z3.And(z3.Not(dirb), z3.Or(nxtb, z3.And(ph == IDLE, cmd2 == 0), ph == RWS))
        w = c.ghost("coop_run", 3, init=0)          # consecutive cooperative cycles spent in a write before its STP cycle
        c.set_next(w, z3.If(z3.And(z3.Not(W("IDLE", "STOPPING")), coop), z3.If(w == 7, w, w + 1), bvc(0, 3)))
        c.inv("coop_run_start", z3.Implies(W("IDLE", "START_WRITE"), w == 0))
        c.inv("coop_run_send", z3.Implies(W("SEND_WRITE_ADDRESS"), z3.ULE(w, 1)))
        c.inv("coop_run_hold", z3.Implies(W("HOLD_WRITE"), z3.ULE(w, 2)))
        c.inv("coop_run_stopping", z3.Implies(W("STOPPING"), z3.ULE(w, 3)))

        # ---- ensures
        n = c.nx
        c.ensure("only_control_registers_written", z3.Implies(complete, z3.Or(paddr == 0x04, paddr == 0x0A)),
                 clause="the link writes the Function Control and OTG Control registers (and nothing else)")
        c.ensure("fc_write_value_was_requested_for_fc", z3.Implies(z3.And(complete04, pval == v), z3.Or(ever04 == 1, req04 == v)),
                 clause="each write carrying the value for the register it addresses: a value written to Function Control was the "
                        "requested Function Control value in some cycle since that register's previous write")
        c.ensure("otg_write_value_was_requested_for_otg", z3.Implies(z3.And(complete0a, pval == v), z3.Or(ever0a == 1, req0a == v)),
                 clause="each write carrying the value for the register it addresses: a value written to OTG Control was the "
                        "requested OTG Control value in some cycle since that register's previous write")
        c.ensure("stp_follows_write_data", z3.Implies(z3.And(ph == RWS, z3.Not(dirb)), stpb),
                 clause="the link writes the new values: the data byte the PHY accepted is committed by STP in the next cycle")
        c.ensure("write_is_one_command_then_one_byte", z3.Implies(z3.And(ph == RWD, z3.Not(dirb)), z3.And(z3.Not(stpb), data_o == sel_val)),
                 clause="each write carrying the value for the register it addresses (the data byte is held until NXT, no early STP)")
        pending = z3.Or(wr04, wr0a, rq04 != req04, rq0a != req0a)
        quiescent = z3.And(W("IDLE"), z3.Not(done), z3.Not(pending))
        c.ensure("quiescent_phy_registers_equal_request", z3.Implies(quiescent, z3.And(r04 == req04, r0a == req0a)),
                 clause="once no change is pending and the bus is idle, the PHY's registers equal the requested settings")
        c.ensure("shadow_tracks_phy_registers", z3.Implies(z3.Not(done), z3.And(sh04 == r04, sh0a == r0a)),
                 clause="the link's record of the PHY registers is the PHY model's register content (so 'no change pending' is "
                        "judged against what the PHY really holds)")
        c.ensure("phy_accepts_only_genuine_commands",
                 z3.Implies(z3.And(ph == IDLE, accept),
                            z3.Or(z3.And(cmd2 == 1, treq, tf.is_("IDLE"), txv, W("IDLE")),
                                  z3.And(cmd2 == 2, W("SEND_WRITE_ADDRESS"), z3.Not(treq), bits(data_o, 5, 0) == sel_addr))),
                 clause="each write carrying the value for the register it addresses / transmissions and writes do not disturb each "
                        "other: every command the PHY accepts is the transmitter's TXCMD or the RegWrite of the selected control "
                        "register — never a stale register-window byte taken for a command, never a RegRead")
        c.ensure("write_never_hidden_behind_transmitter",
                 z3.Implies(z3.Not(W("IDLE")), z3.And(z3.Not(treq), data_o == wdata, O["stp"] == of(win.ulpi_stop))),
                 clause="register writes and packet transmissions never block each other: a write in progress owns the pins, it never "
                        "waits behind a transmitter that in turn waits for the write")
        c.ensure("transmitter_never_waits_with_the_pins_for_a_write", z3.Not(z3.And(treq, tf.is_("IDLE"), cbusy, z3.Not(W("IDLE")))),
                 clause="never block each other indefinitely (no circular wait)")
        bus_free = z3.And(W("IDLE"), z3.Not(done), tf.is_("IDLE"), z3.Not(treq), z3.Not(txv), phy_ready)
        c.ensure("write_starts_when_bus_free", z3.Implies(z3.And(bus_free, z3.Or(wr04, wr0a)), n(W("START_WRITE"))),
                 clause="the link eventually writes the new values: a pending change starts a write as soon as no transmission "
                        "is requested (one-step progress)")
        if fixed:
            # (the request is either taken over combinationally in this very cycle, or sampled into a register for the next)
            c.ensure("change_is_noticed", z3.Implies(z3.And(W("IDLE"), of(win.write_request) == 0, z3.Not(done)),
                                                     z3.And(z3.Or(rq04 == req04, n(rq04) == req04), z3.Or(rq0a == req0a, n(rq0a) == req0a))),
                     clause="whenever the control inputs change ...: the request is taken over in every cycle in which no write is in progress")
        c.ensure("write_completes_within_4_cooperative_cycles", z3.And(z3.ULE(w, 3), z3.Implies(w == 3, W("STOPPING"))),
                 clause="BOUNDED RESPONSE under PHY fairness: a started register write completes once the PHY has been cooperative "
                        "(DIR low, NXT for each presented byte) for 4 consecutive cycles: after 3 such cycles it is in its STP cycle, "
                        "which completes it if DIR is still low (write_completion_reported)")
        c.ensure("write_completion_reported", z3.Implies(z3.And(W("STOPPING"), z3.Not(dirb)), z3.And(complete, n(done))),
                 clause="the link eventually writes the new values (completion step)")
        c.ensure("control_busy_drops_after_write", z3.Implies(z3.And(W("IDLE"), of(win.write_request) == 0), n(of(ctl.busy)) == 0),
                 clause="register writes never block transmissions indefinitely: the transmitter is held back only while a write is in progress")
        c.ensure("transmission_starts_when_no_write", z3.Implies(z3.And(txv, z3.Not(dirb), phy_ready, z3.Not(cbusy), tf.is_("IDLE")), n(treq)),
                 clause="register writes never block transmissions indefinitely: with no write in progress a requested transmission takes the bus")

        # ---- covers
        # with a PHY rst pin nothing happens for 60000 cycles (too deep for BMC): there the covers are checked as
        # "satisfiable with the invariant", which is only meaningful on a tree whose invariant holds (the fixed one).
        def cover(name, e):
            if not with_rst:
                c.cover(name, e)
            elif fixed:
                c.cover(name, e, reach=False)
        cover("fc_write_completes", z3.And(complete04, pval != 0x41))
        cover("otg_write_completes", complete0a)
        cover("write_aborted_by_dir", z3.And(W("HOLD_WRITE"), dirb))
        cover("change_back_while_write_in_flight", z3.And(W("HOLD_WRITE"), req04 == sh04, req0a == sh0a))
        cover("fc_change_during_otg_write", z3.And(W("SEND_WRITE_ADDRESS", "HOLD_WRITE"), paddr == 0x0A, ph == RWD, req04 != sh04))
        cover("change_coincides_with_transmit_start", z3.And(txv, hold == 0, W("IDLE"), req04 != sh04, tf.is_("IDLE"), z3.Not(treq),
                                                             z3.Not(dirb), phy_ready, z3.Not(cbusy)))
        cover("quiescent_after_a_write", z3.And(quiescent, r04 != 0x41))
        cover("transmit_while_change_pending", z3.And(tf.is_("TRANSMIT"), z3.Or(wr04, wr0a)))
        c.cover_depth = 20
    return contract


def contracts(tier):
    yield ("UTMITranslator", "no_rst_pin", make(False))
    if tier == "thorough":     # same logic behind a 60000-cycle PHY start-up delay (phy_ready); covers there are inv-satisfiability only
        yield ("UTMITranslator", "with_rst_pin", make(True))
