"""C49 — UARTTransmitter / UARTMultibyteTransmitter: 8N1 framing, every bit held for exactly `divisor` cycles, bytes
accepted only when they are framed next, words sent little-endian.

Line-level spec machine ("framer", ghosts driven only by the stream inputs):
    factive : a frame is on the line         fbyte : the byte being framed
    bi      : index of the frame bit on the line (0 = start, 1..8 = data LSB first, 9 = stop)
    age     : cycles the current bit has been on the line (0 .. divisor-1)
    slot    = not factive, or (bi == 9 and age == divisor-1)      -- the only cycles in which a byte can be taken:
                                                                     its start bit is on the line in the very next cycle
    a byte b is *handed over* in a slot cycle  ->  next cycle: factive, fbyte=b, bi=0, age=0
    otherwise: age counts to divisor-1, then bi advances; after the last cycle of the stop bit the line is idle.
    tx = 1 when not factive, else bit `bi` of (0, fbyte[0..7], 1).

UARTTransmitter: a byte is handed over iff stream.valid in a slot cycle; stream.ready <=> slot.
UARTMultibyteTransmitter (contains the real UARTTransmitter as submodule; the composite is verified as a whole):
    word-level ghosts  wpend (a word is held with bytes not yet handed over), wdata (those bytes, next byte lowest),
    wleft (bytes held - 1).  In every slot cycle with wpend the lowest held byte is handed over (little-endian order);
    a word is accepted iff valid and (not wpend, or the last held byte is being handed over in this cycle):
    stream.ready <=> that condition; idle <=> not wpend.
"""
import z3
from hwv.contract import B, zx, bvc, bits
from luna.gateware.interface.uart import UARTTransmitter, UARTMultibyteTransmitter

LEVEL = "proof"
EXPLANATION = ("Real UARTTransmitter (divisors enumerated) and UARTMultibyteTransmitter (byte widths x divisors) with the real "
               "UART inside; ghost = line-level framer (frame bit index, bit age, byte) and word-level byte queue, defined from "
               "stream inputs only; invariant maps FSM states, baud counter, bit counter and shift registers to the ghosts; "
               "ensures: tx is exactly the framed bit (iff), ready/idle/driving exact. Unbounded 1-induction.")
AW = 12


class Framer:
    def __init__(self, c, div):
        self.c, self.div = c, div
        self.factive = c.ghost("factive", 1, init=0)
        self.fbyte = c.ghost("fbyte", 8, init=0)
        self.bi = c.ghost("bi", 4, init=0)
        self.age = c.ghost("age", AW, init=0)
        assert div < (1 << AW)
        self.bit_done = self.age == div - 1
        self.last = z3.And(self.factive == 1, self.bi == 9, self.bit_done)
        self.slot = z3.Or(self.factive == 0, self.last)
        self.frame = z3.Concat(bvc(1, 1), self.fbyte, bvc(0, 1))          # bit 0 = start(0), 1..8 data LSB first, 9 = stop(1)
        self.line = z3.If(self.factive == 1, bits(z3.LShR(self.frame, zx(self.bi, 10)), 0), bvc(1, 1))

    def drive(self, hand, byte):
        """hand: Bool, a byte is handed over in this cycle (only ever in a slot cycle); byte: its value."""
        c, f = self.c, self
        adv = z3.And(f.factive == 1, f.bit_done)
        c.set_next(f.factive, z3.If(hand, bvc(1, 1), z3.If(f.last, bvc(0, 1), f.factive)))
        c.set_next(f.fbyte, z3.If(hand, byte, f.fbyte))
        c.set_next(f.bi, z3.If(z3.Or(hand, f.last, f.factive == 0), bvc(0, 4), z3.If(adv, f.bi + 1, f.bi)))
        c.set_next(f.age, z3.If(z3.Or(hand, f.factive == 0, adv), bvc(0, AW), f.age + 1))

    def invariants(self, ts, prefix=""):
        c, f, div = self.c, self, self.div
        fsm = ts.fsm(prefix + "fsm_state")
        c.inv(prefix + "uart_fsm_legal", fsm.legal())
        c.inv(prefix + "transmit_iff_frame_on_line", fsm.is_("TRANSMIT") == (f.factive == 1))
        c.inv("bit_index_in_range", z3.ULE(f.bi, 9))
        c.inv("bit_age_in_range", z3.ULT(f.age, div))
        c.inv("idle_line_ghosts_zero", z3.Implies(f.factive == 0, z3.And(f.bi == 0, f.age == 0)))
        if div > 1:
            # (conjuncts about the implementation's own counters / shifter: incidental registers, see Ctx.try_inv)
            c.try_inv("baud_counter_is_remaining_bit_time",
                      lambda: z3.Implies(f.factive == 1, zx(ts.sig(prefix + "baud_counter"), AW) == div - 1 - f.age))
        c.try_inv("bits_to_send_is_remaining_bits", lambda: z3.Implies(f.factive == 1, ts.sig(prefix + "bits_to_send") == 9 - f.bi))
        c.try_inv("shift_register_is_rest_of_frame",
                  lambda: z3.Implies(f.factive == 1, ts.sig(prefix + "data_shift") == z3.LShR(f.frame, zx(f.bi, 10))))

    def ensures_tx(self, tx):
        c, f, div = self.c, self, self.div
        c.ensure("tx_is_framed_line", tx == f.line,
                 clause="the output line idles high and carries, for each accepted byte in order, a start bit (0), the eight data "
                        "bits LSB first and a stop bit (1), each held for exactly 'divisor' clock cycles")
        # the same, unfolded per bit position (no shifter in the spec): start / data k / stop
        c.ensure("tx_idle_high", z3.Implies(f.factive == 0, tx == 1), clause="the output line idles high")
        c.ensure("tx_start_bit", z3.Implies(z3.And(f.factive == 1, f.bi == 0), tx == 0), clause="a start bit (0)")
        for k in range(8):
            c.ensure(f"tx_data_bit{k}", z3.Implies(z3.And(f.factive == 1, f.bi == k + 1), tx == bits(f.fbyte, k)),
                     clause="the eight data bits LSB first")
        c.ensure("tx_stop_bit", z3.Implies(z3.And(f.factive == 1, f.bi == 9), tx == 1), clause="a stop bit (1)")


def uart(div):
    def contract(c):
        d = UARTTransmitter(divisor=div)
        ts = c.unit(d, {"line_tx": d.tx, "is_driving": d.driving, "is_idle": d.idle, "s_valid": d.stream.valid,
                        "s_payload": d.stream.payload, "s_ready": d.stream.ready})
        I, O = ts.inputs, ts.outputs
        f = Framer(c, div)
        hand = z3.And(I["s_valid"] == 1, f.slot)
        f.drive(hand, I["s_payload"])
        f.invariants(ts)
        f.ensures_tx(O["line_tx"])
        c.ensure("ready_iff_byte_would_be_framed_next", (O["s_ready"] == 1) == f.slot,
                 clause="a byte is accepted only when it will be framed next (its start bit is on the line in the next cycle)")
        c.ensure("accepted_byte_starts_next_cycle",
                 z3.Implies(z3.And(I["s_valid"] == 1, O["s_ready"] == 1), z3.And(c.nx(O["line_tx"]) == 0, c.nx(f.fbyte) == I["s_payload"], c.nx(f.bi) == 0)),
                 clause="a byte is accepted only when it will be framed next")
        c.ensure("idle_iff_no_frame", (O["is_idle"] == 1) == (f.factive == 0), clause="idle: no frame on the line")
        c.ensure("driving_iff_frame", (O["is_driving"] == 1) == (f.factive == 1), clause="driving: a frame is on the line")
        deep = 10 * div + 4
        reach = deep <= 48
        c.cover("stop_bit_last_cycle", f.last, reach=reach)
        c.cover("back_to_back", z3.And(f.last, hand), reach=reach)
        c.cover("data_bit_one", z3.And(f.factive == 1, f.bi == 3, O["line_tx"] == 1), reach=(4 * div + 3 <= 48))
        c.cover("accepted", z3.And(I["s_valid"] == 1, O["s_ready"] == 1))
        c.cover("valid_ignored_mid_frame", z3.And(I["s_valid"] == 1, O["s_ready"] == 0))
        c.cover_depth = min(deep, 48)
    return contract


def multibyte(bw, div):
    def contract(c):
        d = UARTMultibyteTransmitter(byte_width=bw, divisor=div)
        ts = c.unit(d, {"line_tx": d.tx, "is_idle": d.idle, "s_valid": d.stream.valid, "s_payload": d.stream.payload, "s_ready": d.stream.ready})
        I, O = ts.inputs, ts.outputs
        W = 8 * bw
        f = Framer(c, div)
        wpend = c.ghost("wpend", 1, init=0)
        wdata = c.ghost("wdata", W, init=0)
        LW = 4
        wleft = c.ghost("wleft", LW, init=0)
        hand = z3.And(wpend == 1, f.slot)
        wready = z3.Or(wpend == 0, z3.And(hand, wleft == 0))
        accept = z3.And(I["s_valid"] == 1, wready)
        f.drive(hand, bits(wdata, 7, 0))
        c.set_next(wpend, z3.If(accept, bvc(1, 1), z3.If(z3.And(hand, wleft == 0), bvc(0, 1), wpend)))
        c.set_next(wdata, z3.If(accept, I["s_payload"], z3.If(hand, z3.LShR(wdata, 8) if W > 8 else wdata, wdata)))
        c.set_next(wleft, z3.If(accept, bvc(bw - 1, LW), z3.If(z3.And(hand, wleft != 0), wleft - 1, wleft)))
        f.invariants(ts, prefix="uart.")
        fsm = ts.fsm("fsm_state")
        c.inv("fsm_legal", fsm.legal())
        c.inv("transmit_iff_word_pending", fsm.is_("TRANSMIT") == (wpend == 1))
        c.inv("bytes_left_in_range", z3.ULT(wleft, bw))
        c.inv("word_shift_register_is_pending_bytes", z3.Implies(wpend == 1, ts.sig("data_shift") == wdata))
        c.inv("bytes_to_send_is_bytes_left", z3.Implies(wpend == 1, zx(ts.sig("bytes_to_send"), LW) == wleft))
        # unsent high bytes of a partly sent word are zero-filled from the top (only matters for the proof of the shifter)
        f.ensures_tx(O["line_tx"])
        c.ensure("ready_iff_word_would_be_sent_next", (O["s_ready"] == 1) == wready,
                 clause="a word is accepted only when its bytes will be framed next (nothing is pending, or the last pending byte is being handed to the framer)")
        c.ensure("idle_iff_no_word_pending", (O["is_idle"] == 1) == (wpend == 0), clause="idle: no word is waiting to be framed")
        # little-endian, stated without the shifting ghost: a witness word and which byte of it is framed
        word = c.ghost("word", W, init=0)            # the most recently accepted word, unshifted
        sent = c.ghost("sent", LW, init=0)           # how many of its bytes have been handed to the framer
        c.set_next(word, z3.If(accept, I["s_payload"], word))
        c.set_next(sent, z3.If(accept, bvc(0, LW), z3.If(hand, sent + 1, sent)))
        c.inv("sent_plus_left", z3.Implies(wpend == 1, zx(sent, LW + 1) + zx(wleft, LW + 1) == bw - 1))
        c.inv("pending_bytes_are_high_bytes_of_word", z3.Implies(wpend == 1, wdata == z3.LShR(word, zx(sent, W) * 8)))
        for j in range(bw):
            c.ensure(f"byte{j}_of_word_framed_{j}th", z3.Implies(z3.And(hand, sent == j), c.nx(f.fbyte) == bits(word, 8 * j + 7, 8 * j)),
                     clause="the multi-byte variant sends each word's bytes little-endian")
        deep = 10 * div * bw + 6
        reach = deep <= 50
        c.cover("whole_word_sent", z3.And(hand, wleft == 0), reach=(10 * div * (bw - 1) + 6 <= 50))
        c.cover("word_accepted_back_to_back", z3.And(accept, wpend == 1), reach=(10 * div * (bw - 1) + 6 <= 50))
        c.cover("word_accepted_while_last_byte_on_line", z3.And(accept, wpend == 0, f.factive == 1), reach=reach)
        c.cover("second_byte_nonzero", z3.And(f.factive == 1, sent == 2 if bw > 1 else sent == 1, f.fbyte != 0, f.bi == 2), reach=reach)
        c.cover_depth = min(deep, 50)
    return contract


def contracts(tier):
    divs = (1, 2, 3, 10) if tier == "quick" else (1, 2, 3, 4, 5, 7, 8, 10, 16, 217, 521)
    for dv in divs:
        yield ("UARTTransmitter", f"divisor{dv}", uart(dv))
    mb = [(1, 1), (2, 1), (3, 2), (4, 1)] if tier == "quick" else \
         [(bw, dv) for bw in (1, 2, 3, 4) for dv in (1, 2, 3, 5, 10)] + [(8, 2), (4, 217)]
    for bw, dv in mb:
        yield ("UARTMultibyteTransmitter", f"bytes{bw}_divisor{dv}", multibyte(bw, dv))
