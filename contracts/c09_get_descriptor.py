"""C09 — GET_DESCRIPTOR returns exactly the requested descriptor bytes.

Units: GetDescriptorHandlerBlock, GetDescriptorHandlerDistributed, GetDescriptorHandlerMux(Block + Distributed), and the
`start_position` advance of StandardRequestHandler (request/standard.py).

The handlers answer ONE packet per `start` strobe, for the request (value = type<<8|index, length = wLength,
start_position = p).  The reference is the DeviceDescriptorCollection object (iterated in Python), never the ROM:

    exists(v), LEN(v), D(v, i)       from the collection
    T = min(wLength, LEN)            total bytes of the data stage
    p <  T : data packet  D[p .. p+n-1],  n = min(max_packet, T - p);  first on byte 0, last on byte n-1
    p == T : zero-length packet (valid & last & ~first for one cycle)   [legal only when T < wLength: the previous packet
             was full and the host expects more]
    not exists : stall, no data

Observation ghosts (defined from the unit's inputs/outputs only): busy (a start was accepted and its response has not
ended), cnt (bytes accepted in this packet), age (cycles waited for the response so far), the request latched at start.

Concatenation ("the concatenated data stage equals the first min(wLength, len) bytes") is the per-packet clause composed
with the StandardRequestHandler contract below: start_position is 0 at the first data packet of a request and advances by
exactly max_packet_size per ACKed packet, so packet k starts at k*max_packet.

Environment assumptions (requires): the request fields are held stable from `start` until the response ends; no new
`start` while a response is in progress; p is a multiple of max_packet ("read in max-packet-size pieces") and is a legal
continuation: p < T, or p == T < wLength.  wLength == 0 has no data stage and is not started (excluded).
"""
import os
import z3
from hwv.contract import B, bvc, bits, zx
from luna.gateware.usb.usb2.descriptor import (GetDescriptorHandlerBlock, GetDescriptorHandlerDistributed,
                                               GetDescriptorHandlerMux)
from usb_protocol.emitters import DeviceDescriptorCollection
from usb_protocol.emitters.descriptors.standard import get_string_descriptor

W = 18

EXPLANATION = ""
ASSUMPTIONS = [
    "request fields (value, length, start_position) are held stable from start until the response (packet/ZLP/stall) ends",
    "no start strobe while a response is in progress (one IN token at a time)",
    "start_position is a multiple of max_packet and a legal continuation offset: p < min(wLength,len), or p == min(wLength,len) < wLength",
    "descriptor collections are enumerated (listed in the configuration names); the reference is the collection object",
]
BOUNDED = []


# ------------------------------------------------------------------------------------------------ helpers
def lookup(idx, table, width, default=0):
    """table: dict or list  index -> int"""
    items = list(table.items()) if isinstance(table, dict) else list(enumerate(table))
    e = bvc(default, width)
    for i, v in reversed(items):
        e = z3.If(idx == i, bvc(v, width), e)
    return e


def umin(a, b):
    return z3.If(z3.ULE(a, b), a, b)


def reg(ts, name):
    r = [v for v in ts.state.values() if str(v) == ts.prefix + name]
    assert len(r) == 1, (name, [str(v) for v in ts.state.values()])
    return r[0]


def keys_of(coll):
    return {((int(t) << 8) | int(i)): bytes(raw) for t, i, raw in coll}


PORTS = lambda d: {"i_value": d.value, "i_length": d.length, "i_start": d.start, "i_start_position": d.start_position,
                   "i_ready": d.tx.ready, "o_valid": d.tx.valid, "o_first": d.tx.first, "o_last": d.tx.last,
                   "o_payload": d.tx.payload, "o_stall": d.stall}


class PacketSpec:
    """Ghosts, requires and ensures shared by the three handler units (see module docstring)."""

    def __init__(self, c, I, O, keys, maxpkt, k_data, k_stall, parent=None, tag=""):
        """parent/tag: the contract of a sub-handler at its instance inside GetDescriptorHandlerMux.  It observes the
        instance's own tx/stall signals, shares the parent's latched request, adds no requires (its environment is the
        mux's, related by the invariant `sub busy => mux busy`), and its ensures are lemmas named <tag>..."""
        self.keys, self.maxpkt = keys, maxpkt
        ens = (lambda name, e, clause="": c.ensure(tag + name, e, clause="[sub-handler contract at its instance] " + clause)) \
            if parent else c.ensure
        busy = self.busy = c.ghost(tag + "busy", 1, init=0)
        age = self.age = c.ghost(tag + "age", 3, init=0)
        cnt = self.cnt = c.ghost(tag + "cnt", W, init=0)
        if parent:
            gv, gl, gp = parent.gv, parent.gl, parent.gp
        else:
            gv = c.ghost("req_value", 16, init=0)
            gl = c.ghost("req_length", W, init=0)
            gp = c.ghost("req_start_position", W, init=0)
        self.gv, self.gl, self.gp = gv, gl, gp
        self.isbusy = busy == 1
        start = self.start = I["i_start"] == 1
        ready = self.ready = I["i_ready"] == 1
        valid, first, last = O["o_valid"] == 1, O["o_first"] == 1, O["o_last"] == 1
        stall = O["o_stall"] == 1
        self.valid, self.first, self.last, self.stall = valid, first, last, stall
        v_in, l_in, p_in = I["i_value"], zx(I["i_length"], W), zx(I["i_start_position"], W)
        # the request being served: the latched one while busy, the one on the inputs in the start cycle
        if parent:
            v, l, p = parent.v, parent.l, parent.p
        else:
            v, l, p = z3.If(self.isbusy, gv, v_in), z3.If(self.isbusy, gl, l_in), z3.If(self.isbusy, gp, p_in)
        self.v, self.l, self.p = v, l, p
        self.exists = z3.Or(*[v == k for k in keys]) if keys else z3.BoolVal(False)
        self.LEN = lookup(v, {k: len(b) for k, b in keys.items()}, W)
        T = self.T = umin(l, self.LEN)
        self.zlp = p == T
        n = self.n = umin(bvc(maxpkt, W), T - p)
        self.active = z3.Or(self.isbusy, start)
        self.start_accept = parent.start_accept if parent else z3.And(z3.Not(self.isbusy), start)
        end_now = self.end_now = z3.And(self.active, z3.Or(stall, z3.And(valid, last, z3.Or(ready, self.zlp))))
        self.take = z3.And(self.isbusy, valid, ready)
        c.set_next(busy, z3.If(end_now, bvc(0, 1), z3.If(self.isbusy, bvc(1, 1), z3.If(start, bvc(1, 1), bvc(0, 1)))))
        c.set_next(cnt, z3.If(self.start_accept, bvc(0, W), z3.If(self.take, cnt + 1, cnt)))
        c.set_next(age, z3.If(self.start_accept, bvc(1, 3),
                              z3.If(z3.And(self.isbusy, z3.Not(valid), z3.ULT(age, 7)), age + 1, age)))
        if parent:
            c.inv(tag + "busy_implies_mux_busy", z3.Implies(self.isbusy, parent.isbusy))
            self._ensures(c, ens, O, k_data, k_stall, covers=False)
            return
        c.set_next(gv, z3.If(self.start_accept, v_in, gv))
        c.set_next(gl, z3.If(self.start_accept, l_in, gl))
        c.set_next(gp, z3.If(self.start_accept, p_in, gp))

        # ---- environment
        c.require("request_stable_while_busy", z3.Implies(self.isbusy, z3.And(v_in == gv, l_in == gl, p_in == gp)),
                  why="the control request handler holds setup.value/length and start_position while a packet is being generated")
        c.require("no_start_while_busy", z3.Implies(self.isbusy, z3.Not(start)),
                  why="data_requested is a one-cycle strobe per IN token; the previous response has ended before the next token")
        legal = z3.And(z3.URem(p_in, bvc(maxpkt, W)) == 0,
                       z3.Implies(self.exists, z3.Or(z3.ULT(p_in, T), z3.And(p_in == T, z3.ULT(T, l_in)))))
        c.require("legal_continuation_offset", z3.Implies(self.start_accept, legal),
                  why="statement: 'read in max-packet-size pieces' by a host that stops after a short packet or after wLength bytes")
        # well-formedness of the latched request (follows from the requires; part of the invariant)
        legal_g = z3.And(z3.URem(gp, bvc(maxpkt, W)) == 0, z3.ULT(gl, 1 << 16), z3.ULT(gp, 1 << 11),
                         z3.Implies(self.exists, z3.Or(z3.ULT(gp, T), z3.And(gp == T, z3.ULT(T, gl)))))
        c.inv("latched_request_is_legal", z3.Implies(self.isbusy, legal_g))
        self._ensures(c, c.ensure, O, k_data, k_stall, covers=True)

    def _ensures(self, c, ensure, O, k_data, k_stall, covers):
        valid, first, last, stall, ready = self.valid, self.first, self.last, self.stall, self.ready
        v, p, n, cnt, age = self.v, self.p, self.n, self.cnt, self.age
        D = self.D = lambda pos: self._data(v, pos)
        ensure("silent_when_not_started", z3.And(z3.Implies(z3.Not(self.isbusy), z3.Not(valid)),
                                                   z3.Implies(z3.Not(self.active), z3.Not(stall))),
                 clause="(frame) no data and no stall unless a descriptor read was started")
        ensure("stall_only_for_missing_descriptor", z3.Implies(stall, z3.Not(self.exists)),
                 clause="Requests for descriptors that do not exist are STALLed (and only those)")
        ensure("missing_descriptor_gets_no_data", z3.Implies(z3.And(self.active, z3.Not(self.exists)), z3.Not(valid)),
                 clause="... are STALLed without data")
        age_eff = z3.If(self.isbusy, age, bvc(0, 3))
        ensure("missing_descriptor_is_stalled_in_time",
                 z3.Implies(z3.And(self.active, z3.Not(self.exists), z3.UGE(age_eff, k_stall)), stall),
                 clause=f"Requests for descriptors that do not exist are STALLed (at most {k_stall} cycles after start)")
        ensure("existing_descriptor_is_answered_in_time",
                 z3.Implies(z3.And(self.isbusy, self.exists, z3.UGE(age, k_data)), valid),
                 clause=f"the data stage ... (a packet or ZLP is produced, at most {k_data} cycles after start)")
        ensure("packet_has_no_gaps", z3.Implies(z3.And(self.isbusy, cnt != 0), valid),
                 clause="the concatenated data stage equals ... (once a packet has begun, a byte is offered every cycle until its last byte)")
        data = z3.And(self.isbusy, valid, self.exists, z3.Not(self.zlp))
        ensure("data_bytes_are_descriptor_bytes", z3.Implies(data, O["o_payload"] == D(p + cnt)),
                 clause="the concatenated data stage equals the first min(wLength, descriptor length) bytes of that descriptor "
                        "(byte cnt of the packet started at offset p is descriptor[p+cnt])")
        ensure("first_iff_first_byte", z3.Implies(data, first == (cnt == 0)), clause="packet framing: first marks byte 0 only")
        ensure("last_iff_byte_n_minus_1", z3.Implies(data, z3.And(z3.ULT(cnt, n), last == (cnt == n - 1))),
                 clause="each packet is at most the max packet size; its length is min(max packet, min(wLength,len) - p): "
                        "a short packet ends the stage")
        ensure("zlp_when_total_is_multiple_of_packet_size",
                 z3.Implies(z3.And(self.isbusy, valid, self.exists, self.zlp), z3.And(z3.Not(first), last)),
                 clause="when the total is a non-zero multiple of the packet size below wLength, [the stage ends] with a zero-length packet")
        ensure("byte_held_until_ready", z3.Implies(z3.And(data, z3.Not(ready)),
                                                     z3.And(c.nx(O["o_valid"]) == 1, c.nx(O["o_payload"]) == O["o_payload"])),
                 clause="all ready patterns: an offered byte is held until accepted")
        if not covers:
            return
        c.cover("data_packet_completes", z3.And(data, last, ready))
        c.cover("stall", stall)
        c.cover("stall_on_offer_wait", z3.And(data, z3.Not(ready), cnt != 0))

    def _data(self, v, pos):
        e = bvc(0, 8)
        for k, b in reversed(list(self.keys.items())):
            e = z3.If(v == k, lookup(pos, list(b), 8), e)
        return e

    def per_key(self, v, fn, width, default=0):
        return lookup(v, {k: fn(k, b) for k, b in self.keys.items()}, width, default)


# ------------------------------------------------------------------------------------------------ Block (ROM) handler
def block_invariants(c, ts, s, d, prefix=""):
    """Abstraction map of GetDescriptorHandlerBlock: FSM state / registers / ROM read register <-> request + cnt + age."""
    keys = s.keys
    rom, max_len, max_type, index_map = d.generate_rom_content()       # real code, executed for this configuration
    fsm = ts.fsm(prefix + "fsm_state")
    R = lambda n: reg(ts, prefix + n)
    rp = ts.sig(prefix + "rom_read_port__data")
    pos, sent, lreg = R("position_in_stream"), R("bytes_sent"), R("length")
    base, dlen = R("descriptor_data_base_address"), R("descriptor_length")
    gv, gp, gl, cnt, age = s.gv, s.gp, s.gl, s.cnt, s.age
    typ = bits(gv, 15, 8)
    AW = base.size()
    # ROM layout facts (from generate_rom_content): type table, per-type index tables, data
    by_type = {}
    for k in keys:
        by_type.setdefault(k >> 8, []).append(k & 0xff)
    rank = {k: sorted(by_type[k >> 8]).index(k & 0xff) for k in keys}
    entry_word = {k: rom[((rom[k >> 8] & 0xffff) >> 2) + rank[k]] for k in keys}      # (length << 16) | data address
    for k, b in keys.items():
        assert entry_word[k] >> 16 == len(b)
    type_word = lambda t: lookup(t, {tt: rom[tt] for tt in range(max_type + 1)}, 32)
    didx_spec = lookup(gv, rank, 8, default=0xFF) if index_map else bits(gv, 7, 0)
    Lspec = umin(bvc(s.maxpkt, W), gl - gp)            # the registered `length` (bytes allowed in this packet)
    word_of = lambda wi: s.per_key(gv, None, 32) if False else _word_table(keys, gv, wi)
    st = fsm.is_
    busy = s.isbusy
    c.inv(prefix + "fsm_legal", fsm.legal())
    c.inv(prefix + "idle_iff_not_busy", st("IDLE") == z3.Not(busy))
    c.inv(prefix + "length_register", z3.Implies(z3.And(busy, z3.ULE(gp, gl)), zx(lreg, W) == Lspec))
    c.inv(prefix + "start_state", z3.Implies(st("START"), age == 1))
    lt = [age == 2, z3.ULE(zx(typ, 16), max_type), rp == type_word(typ), pos == bits(gp, pos.size() - 1, 0)]
    if index_map:
        lt.append(R("descr_idx") == didx_spec)
    c.inv(prefix + "lookup_type_state", z3.Implies(st("LOOKUP_TYPE"), z3.And(*lt)))
    c.inv(prefix + "lookup_descriptor_state", z3.Implies(st("LOOKUP_DESCRIPTOR"), z3.And(
        age == 3, s.exists, rp == lookup(gv, entry_word, 32), pos == bits(gp, pos.size() - 1, 0), Lspec != 0)))
    p_now = gp + cnt
    c.inv(prefix + "send_descriptor_state", z3.Implies(st("SEND_DESCRIPTOR"), z3.And(
        age == 4, s.exists, z3.ULT(gp, s.T), z3.ULT(cnt, s.n), zx(pos, W) == p_now, zx(sent, W) == cnt,
        zx(dlen, W) == s.LEN, zx(base, 16) == z3.LShR(bits(lookup(gv, entry_word, 32), 15, 0), 2),
        rp == _word_table(keys, gv, z3.LShR(p_now, 2)))))
    c.inv(prefix + "send_zlp_state", z3.Implies(st("SEND_ZLP"), z3.And(s.exists, s.zlp, z3.Or(age == 3, age == 4), cnt == 0)))
    c.inv(prefix + "count_zero_before_data", z3.Implies(z3.And(busy, z3.Not(st("SEND_DESCRIPTOR"))), z3.And(cnt == 0, sent == 0)))


def _word_table(keys, v, wi):
    """32-bit big-endian word number wi of descriptor v (zero padded), from the collection bytes."""
    e = bvc(0, 32)
    for k, b in reversed(list(keys.items())):
        padded = b + bytes((-len(b)) % 4)
        words = [int.from_bytes(padded[4 * i:4 * i + 4], "big") for i in range(len(padded) // 4)]
        e = z3.If(v == k, lookup(wi, words, 32), e)
    return e


def make_block(coll_fn, maxpkt):
    def contract(c):
        coll = coll_fn()
        d = GetDescriptorHandlerBlock(coll, max_packet_length=maxpkt)
        ts = c.unit(d, PORTS(d))
        s = PacketSpec(c, ts.inputs, ts.outputs, keys_of(coll), maxpkt, k_data=4, k_stall=2)
        block_invariants(c, ts, s, d)
        c.cover("zlp", z3.And(s.isbusy, s.valid, s.zlp)) if any(len(b) % maxpkt == 0 for b in s.keys.values()) else None
        c.cover("second_packet", z3.And(s.isbusy, s.valid, s.gp != 0, z3.Not(s.zlp))) if any(len(b) > maxpkt for b in s.keys.values()) else None
        c.cover("truncated_by_wlength", z3.And(s.isbusy, s.valid, s.last, z3.ULT(s.gl, s.LEN)))
        if any(len(b) % maxpkt == 0 for b in s.keys.values()):
            c.cover("zlp_requested", z3.And(s.start_accept, s.exists, s.zlp))
        c.cover_depth = maxpkt + 8 if maxpkt <= 16 else 14
    return contract


# ------------------------------------------------------------------------------------------------ Distributed handler
def gen_names(coll):
    from usb_protocol.types.descriptors.standard import StandardDescriptorNumbers
    out = {}
    for t, i, raw in coll:
        ref = t.name if isinstance(t, StandardDescriptorNumbers) else t
        out[(int(t) << 8) | int(i)] = f"USBDescriptorStreamGenerator({ref},{i})"
    return out


def distributed_invariants(c, ts, s, coll, prefix=""):
    """Per generator g (descriptor key kg): its start register, FSM, position, byte counter, latched max_length and ROM read
    register as functions of the observation ghosts."""
    names = gen_names(coll)
    gv, gp, gl, cnt, age = s.gv, s.gp, s.gl, s.cnt, s.age
    busy = s.isbusy
    Lspec = umin(bvc(s.maxpkt, W), gl - gp)
    c.inv(prefix + "age_bound", z3.Implies(busy, z3.And(z3.UGE(age, 1), z3.ULE(age, 2), s.exists)))
    # A tree with the ZLP fix (proposed_fixes/C09_distributed_handler_zlp.diff) has a one-cycle `send_zlp` register;
    # without it no state of the unit corresponds to "answering with a ZLP" and the zlp case is simply not provable.
    has_zlp = ts.has(prefix + "send_zlp")
    zcase = z3.And(busy, s.zlp) if has_zlp else z3.BoolVal(False)
    if has_zlp:
        c.inv(prefix + "send_zlp_register", (ts.sig(prefix + "send_zlp") == 1) == zcase)
        c.inv(prefix + "zlp_is_answered_at_once", z3.Implies(zcase, age == 1))
    c.inv(prefix + "count_zero_before_data", z3.Implies(z3.And(busy, age == 1), cnt == 0))
    for k, b in s.keys.items():
        g = prefix + names[k] + "."
        fsm = ts.fsm(g + "fsm_state")
        sreg = ts.sig(g + "start")
        mine = z3.And(busy, gv == k)
        nm = prefix + f"gen_{k:04x}_"
        c.inv(nm + "fsm_legal", fsm.legal())
        c.inv(nm + "start_register", (sreg == 1) == z3.And(mine, age == 1, z3.Not(zcase)))
        c.inv(nm + "streaming_iff_serving", fsm.is_("STREAMING") == z3.And(mine, age == 2))
        c.inv(nm + "not_done_while_waiting", z3.Implies(z3.And(mine, age == 1, z3.Not(zcase)), fsm.is_("IDLE")))
        conj = [zx(reg(ts, g + "bytes_sent"), W) == cnt, zx(reg(ts, g + "max_length"), W) == Lspec,
                z3.ULT(gp, s.T), z3.ULT(cnt, s.n),
                ts.sig(g + "rom_read_port__data") == lookup(gp + cnt, list(b), 8)]
        if len(b) > 1:
            conj.append(zx(reg(ts, g + "position_in_stream"), W) == gp + cnt)
        c.inv(nm + "streaming_state", z3.Implies(fsm.is_("STREAMING"), z3.And(*conj)))


def make_distributed(coll_fn, maxpkt):
    def contract(c):
        coll = coll_fn()
        d = GetDescriptorHandlerDistributed(coll, max_packet_length=maxpkt)
        ts = c.unit(d, PORTS(d))
        s = PacketSpec(c, ts.inputs, ts.outputs, keys_of(coll), maxpkt, k_data=2, k_stall=0)
        distributed_invariants(c, ts, s, coll)
        c.cover("second_packet", z3.And(s.isbusy, s.valid, s.gp != 0, z3.Not(s.zlp))) if any(len(b) > maxpkt for b in s.keys.values()) else None
        c.cover("truncated_by_wlength", z3.And(s.isbusy, s.valid, s.last, z3.ULT(s.gl, s.LEN)))
        c.cover_depth = maxpkt + 8 if maxpkt <= 16 else 14
    return contract


# ------------------------------------------------------------------------------------------------ collections
def coll_small():
    """device(18) + configuration(25) + strings 0..3 (4,10,10,16 bytes) + sparse string 0xfe (30) + HID type 0x21 (9)."""
    ds = DeviceDescriptorCollection()
    with ds.DeviceDescriptor() as d:
        d.bcdUSB = 2.00; d.idVendor = 0x1234; d.idProduct = 0x4567
        d.iManufacturer = "Manu"; d.iProduct = "Prod"; d.iSerialNumber = "0123456"
        d.bNumConfigurations = 1
    with ds.ConfigurationDescriptor() as cfg:
        with cfg.InterfaceDescriptor() as i:
            i.bInterfaceNumber = 0
            with i.EndpointDescriptor() as e:
                e.bEndpointAddress = 0x81; e.wMaxPacketSize = 64
    ds.add_descriptor(get_string_descriptor("nonconsecutive"), index=0xfe)
    ds.add_descriptor(b'\x09\x21\x01\x01\x00\x01\x22\x00\x32')
    return ds


def contracts(tier):
    quick = tier == "quick"
    for mp in ((8, 64) if quick else (8, 16, 32, 64)):
        yield ("GetDescriptorHandlerBlock", f"small_maxpkt{mp}", make_block(coll_small, mp))
    for mp in ((8, 64) if quick else (8, 16, 32, 64)):
        yield ("GetDescriptorHandlerDistributed", f"small_maxpkt{mp}", make_distributed(coll_small, mp))
