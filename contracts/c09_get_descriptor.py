"""C09 — GET_DESCRIPTOR returns exactly the requested descriptor bytes.

Units: GetDescriptorHandlerBlock, GetDescriptorHandlerDistributed, GetDescriptorHandlerMux(Block + Distributed), and the
`start_position` advance of StandardRequestHandler (request/standard.py).
Caller side (end of file, "parameter plumbing"): the same contract bodies re-proved on the handler INSTANCES inside the real
USBControlEndpoint(max_packet_size=M).add_standard_request_handlers(descriptors, **kw) for non-default M, and inside
USBDevice.add_standard_control_endpoint(descriptors, **kw): the parents' max packet size, descriptor collection and
avoid_blockram choice reach the handlers they build.

The handlers answer ONE packet per `start` strobe, for the request (value = type<<8|index, length = wLength,
start_position = p).  The reference is the DeviceDescriptorCollection object (iterated in Python), never the ROM:

    exists(v), LEN(v), D(v, i)       from the collection
    T = min(wLength, LEN)            total bytes of the data stage
    p <  T : data packet  D[p .. p+n-1],  n = min(max_packet, T - p);  first on byte 0, last on byte n-1
    p == T : zero-length packet (valid & last & ~first for one cycle)   [legal only when T < wLength: the previous packet
             was full and the host expects more]
    not exists : stall, no data

Observation ghosts (defined from the unit's inputs/outputs only): busy (a start was accepted and its response has not
ended), cnt (bytes accepted in this packet), age (cycles waited for the response so far), the request latched at start.

Concatenation ("the concatenated data stage equals the first min(wLength, len) bytes") is the per-packet clause composed
with the StandardRequestHandler contract below: start_position is 0 at the first data packet of a request and advances by
exactly max_packet_size per ACKed packet, so packet k starts at k*max_packet.

Environment assumptions (requires): the request fields are held stable from `start` until the response ends; no new
`start` while a response is in progress; p is a multiple of max_packet ("read in max-packet-size pieces") and is a legal
continuation: p < T, or p == T < wLength.  wLength == 0 has no data stage and is not started (excluded).
"""
import os
import z3
from hwv.contract import B, bvc, bits, zx
from luna.gateware.usb.usb2.descriptor import (GetDescriptorHandlerBlock, GetDescriptorHandlerDistributed,
                                               GetDescriptorHandlerMux)
from usb_protocol.emitters import DeviceDescriptorCollection
from usb_protocol.emitters.descriptors.standard import get_string_descriptor

W = 18

EXPLANATION = (
    "Unbounded inductive proofs (1-induction, abstraction map per FSM state / per generator) of the per-packet contract of "
    "GetDescriptorHandlerBlock, GetDescriptorHandlerDistributed and GetDescriptorHandlerMux(Block+Distributed) against the "
    "DeviceDescriptorCollection object, plus the start_position/PID advance of StandardRequestHandler; enumerated "
    "collections x max packet sizes.  ROM layout (generate_rom_content) is covered because the real ROM contents are in the "
    "netlist and the reference bytes come from the collection.  On the unchanged tree three genuine defects make obligations "
    "fail (each with a witness replayed on the simulator; fixes in proposed_fixes/C09_*.diff, all obligations pass with "
    "C09_all.diff): (1) the distributed handler never sends the ZLP: start_position == descriptor length is truncated/clamped by "
    "the generator and the descriptor (or its last byte) is sent again; (2) the multiplexer's stall latches are only cleared "
    "by the next start, and a stale latch combines with the other handler's same-cycle stall into a STALL for an existing "
    "descriptor; (3) StandardRequestHandler builds both sub-collections with automatic_language_descriptor=True, so with "
    "runtime descriptors both handlers answer GET_DESCRIPTOR(STRING,0) and the stream is corrupted; (4) expecting_ack is not "
    "cleared when a request closes, so after a request whose last data packet was never ACKed an ACK observed before the "
    "first data packet of the next GET_DESCRIPTOR advances start_position (the data stage then starts at offset max_packet).  "
    "Caller-side parameter plumbing: the per-packet contract and the start_position advance are re-proved (same bodies, unbounded) on "
    "the handler instances inside the real USBControlEndpoint built with max_packet_size 8 / 16 (thorough: 32; block, distributed and "
    "multiplexed variants) and inside USBDevice.add_standard_control_endpoint (EP0 size 64, keyword arguments passed down), with the "
    "PARENT's parameter as the contract's max packet size and the collection handed to the parent as the reference.")
ASSUMPTIONS = [
    "request fields (value, length, start_position) are held stable from start until the response (packet/ZLP/stall) ends",
    "no start strobe while a response is in progress (one IN token at a time)",
    "start_position is a multiple of max_packet and a legal continuation offset: p < min(wLength,len), or p == min(wLength,len) < wLength",
    "descriptor collections are enumerated (listed in the configuration names); the reference is the collection object",
]
BOUNDED = []


# ------------------------------------------------------------------------------------------------ helpers
def lookup(idx, table, width, default=0):
    """table: dict or list  index -> int"""
    items = list(table.items()) if isinstance(table, dict) else list(enumerate(table))
    e = bvc(default, width)
    for i, v in reversed(items):
        e = z3.If(idx == i, bvc(v, width), e)
    return e


def multiple(x, k):
    """x is a multiple of k (k a power of two: all USB max packet sizes are)"""
    sh = k.bit_length() - 1
    assert 1 << sh == k and sh > 0
    return z3.Extract(sh - 1, 0, x) == 0


def umin(a, b):
    return z3.If(z3.ULE(a, b), a, b)


def reg(ts, name):
    r = [v for v in ts.state.values() if str(v) == ts.prefix + name]
    assert len(r) == 1, (name, [str(v) for v in ts.state.values()])
    return r[0]


def keys_of(coll):
    """(type<<8 | index) -> descriptor bytes.  A runtime descriptor is a callable returning a stream generator; its
    reference bytes are the constant that generator was built from."""
    return {((int(t) << 8) | int(i)): (bytes(raw) if isinstance(raw, (bytes, bytearray)) else bytes(raw()._data))
            for t, i, raw in coll}


PORTS = lambda d: {"i_value": d.value, "i_length": d.length, "i_start": d.start, "i_start_position": d.start_position,
                   "i_ready": d.tx.ready, "o_valid": d.tx.valid, "o_first": d.tx.first, "o_last": d.tx.last,
                   "o_payload": d.tx.payload, "o_stall": d.stall}


class PacketSpec:
    """Ghosts, requires and ensures shared by the three handler units (see module docstring)."""

    def __init__(self, c, I, O, keys, maxpkt, k_data, k_stall, parent=None, tag="", settle=0, instance=False):
        """parent/tag: the contract of a sub-handler at its instance inside GetDescriptorHandlerMux.  It observes the
        instance's own tx/stall signals, shares the parent's latched request, adds no requires (its environment is the
        mux's, related by the invariant `sub busy => mux busy`), and its ensures are lemmas named <tag>...

        instance=True: I / O are the terms of a handler INSTANCE's ports inside a real parent (parameter-plumbing obligations
        at the end of this file).  Then (a) the vacuity guards are `Inv & Req & event` satisfiable instead of BMC from reset
        through the whole parent; (b) "start_position is a multiple of max_packet" is not assumed -- the caller proves it as
        an invariant of the parent's start_position register; (c) the requires are terms over the parent's STATE, so "the
        environment also keeps its assumptions in the next cycle" (which the engine adds by itself only when a clause
        mentions next-cycle INPUTS) is written out as a hypothesis of the one clause that looks a cycle ahead."""
        self.keys, self.maxpkt, self.reach, self.instance = keys, maxpkt, not instance, instance
        assume_offset_multiple = not instance
        self.reqs = parent.reqs if parent else []
        ens = (lambda name, e, clause="": c.ensure(tag + name, e, clause="[sub-handler contract at its instance] " + clause)) \
            if parent else c.ensure
        busy = self.busy = c.ghost(tag + "busy", 1, init=0)
        age = self.age = c.ghost(tag + "age", 3, init=0)
        cnt = self.cnt = c.ghost(tag + "cnt", W, init=0)
        if parent:
            gv, gl, gp = parent.gv, parent.gl, parent.gp
        else:
            gv = c.ghost("req_value", 16, init=0)
            gl = c.ghost("req_length", W, init=0)
            gp = c.ghost("req_start_position", W, init=0)
        self.gv, self.gl, self.gp = gv, gl, gp
        self.isbusy = busy == 1
        start = self.start = I["i_start"] == 1
        ready = self.ready = I["i_ready"] == 1
        valid, first, last = O["o_valid"] == 1, O["o_first"] == 1, O["o_last"] == 1
        stall = O["o_stall"] == 1
        self.valid, self.first, self.last, self.stall = valid, first, last, stall
        v_in, l_in, p_in = I["i_value"], zx(I["i_length"], W), zx(I["i_start_position"], W)
        # the request being served: the latched one while busy, the one on the inputs in the start cycle
        v, l, p = z3.If(self.isbusy, gv, v_in), z3.If(self.isbusy, gl, l_in), z3.If(self.isbusy, gp, p_in)
        self.v, self.l, self.p = v, l, p
        self.exists = z3.Or(*[v == k for k in keys]) if keys else z3.BoolVal(False)
        self.LEN = lookup(v, {k: len(b) for k, b in keys.items()}, W)
        T = self.T = umin(l, self.LEN)
        self.zlp = p == T
        n = self.n = umin(bvc(maxpkt, W), T - p)
        self.active = z3.Or(self.isbusy, start)
        self.start_accept = parent.start_accept if parent else z3.And(z3.Not(self.isbusy), start)
        end_now = self.end_now = z3.And(self.active, z3.Or(stall, z3.And(valid, last, z3.Or(ready, self.zlp))))
        self.take = z3.And(self.isbusy, valid, ready)
        c.set_next(busy, z3.If(end_now, bvc(0, 1), z3.If(self.isbusy, bvc(1, 1), z3.If(start, bvc(1, 1), bvc(0, 1)))))
        c.set_next(cnt, z3.If(self.start_accept, bvc(0, W), z3.If(self.take, cnt + 1, cnt)))
        c.set_next(age, z3.If(self.start_accept, bvc(1, 3),
                              z3.If(z3.And(self.isbusy, z3.Not(valid), z3.ULT(age, 7)), age + 1, age)))
        if parent:
            self._ensures(c, ens, O, k_data, k_stall, covers=False)
            return
        c.set_next(gv, z3.If(self.start_accept, v_in, gv))
        c.set_next(gl, z3.If(self.start_accept, l_in, gl))
        c.set_next(gp, z3.If(self.start_accept, p_in, gp))

        # ---- environment
        # `settle` (mux only): the request must also stay put, and no new start may come, for `settle` cycles after a
        # start even if the response is already over (a sub-handler that does not own the descriptor needs up to two more
        # cycles to reach its stall); tokens are never that close together.
        inflight = self.isbusy
        if settle:
            since = self.since = c.ghost("cycles_since_start", 3, init=settle)
            c.set_next(since, z3.If(self.start_accept, bvc(1, 3), z3.If(z3.ULT(since, settle), since + 1, since)))
            c.inv("since_bounded", z3.And(z3.ULE(since, settle), z3.Implies(self.isbusy, z3.Or(since == age, z3.UGE(since, 2)))))
            inflight = self.inflight = z3.Or(self.isbusy, z3.ULT(since, settle))
        require = lambda name, e, why: (self.reqs.append(e), c.require(name, e, why=why))
        require("request_stable_while_busy", z3.Implies(inflight, z3.And(v_in == gv, l_in == gl, p_in == gp)),
                  why="the control request handler holds setup.value/length and start_position while a packet is being generated")
        require("no_start_while_busy", z3.Implies(inflight, z3.Not(start)),
                  why="data_requested is a one-cycle strobe per IN token; the previous response has ended before the next token")
        legal = z3.And(multiple(p_in, maxpkt) if assume_offset_multiple else z3.BoolVal(True),
                       z3.Implies(self.exists, z3.Or(z3.ULT(p_in, T), z3.And(p_in == T, z3.ULT(T, l_in)))))
        require("legal_continuation_offset", z3.Implies(self.start_accept, legal),
                  why="statement: 'read in max-packet-size pieces' by a host that stops after a short packet or after wLength bytes")
        # well-formedness of the latched request (follows from the requires; part of the invariant)
        legal_g = z3.And(multiple(gp, maxpkt), z3.ULT(gl, 1 << 16), z3.ULT(gp, 1 << 11),
                         z3.Implies(self.exists, z3.Or(z3.ULT(gp, T), z3.And(gp == T, z3.ULT(T, gl)))))
        c.inv("latched_request_is_legal", z3.Implies(self.isbusy, legal_g))
        self._ensures(c, c.ensure, O, k_data, k_stall, covers=True)

    def _ensures(self, c, ensure, O, k_data, k_stall, covers):
        valid, first, last, stall, ready = self.valid, self.first, self.last, self.stall, self.ready
        v, p, n, cnt, age = self.v, self.p, self.n, self.cnt, self.age
        D = self.D = lambda pos: self._data(v, pos)
        ensure("silent_when_not_started", z3.And(z3.Implies(z3.Not(self.isbusy), z3.Not(valid)),
                                                   z3.Implies(z3.Not(self.active), z3.Not(stall))),
                 clause="(frame) no data and no stall unless a descriptor read was started")
        ensure("stall_only_for_missing_descriptor", z3.Implies(stall, z3.Not(self.exists)),
                 clause="Requests for descriptors that do not exist are STALLed (and only those)")
        ensure("missing_descriptor_gets_no_data", z3.Implies(z3.And(self.active, z3.Not(self.exists)), z3.Not(valid)),
                 clause="... are STALLed without data")
        age_eff = z3.If(self.isbusy, age, bvc(0, 3))
        ensure("missing_descriptor_is_stalled_in_time",
                 z3.Implies(z3.And(self.active, z3.Not(self.exists), z3.UGE(age_eff, k_stall)), stall),
                 clause=f"Requests for descriptors that do not exist are STALLed (at most {k_stall} cycles after start)")
        ensure("existing_descriptor_is_answered_in_time",
                 z3.Implies(z3.And(self.isbusy, self.exists, z3.UGE(age, k_data)), valid),
                 clause=f"the data stage ... (a packet or ZLP is produced, at most {k_data} cycles after start)")
        ensure("packet_has_no_gaps", z3.Implies(z3.And(self.isbusy, cnt != 0), valid),
                 clause="the concatenated data stage equals ... (once a packet has begun, a byte is offered every cycle until its last byte)")
        data = z3.And(self.isbusy, valid, self.exists, z3.Not(self.zlp))
        ensure("data_bytes_are_descriptor_bytes", z3.Implies(data, O["o_payload"] == D(p + cnt)),
                 clause="the concatenated data stage equals the first min(wLength, descriptor length) bytes of that descriptor "
                        "(byte cnt of the packet started at offset p is descriptor[p+cnt])")
        ensure("first_iff_first_byte", z3.Implies(data, first == (cnt == 0)), clause="packet framing: first marks byte 0 only")
        ensure("last_iff_byte_n_minus_1", z3.Implies(data, z3.And(z3.ULT(cnt, n), last == (cnt == n - 1))),
                 clause="each packet is at most the max packet size; its length is min(max packet, min(wLength,len) - p): "
                        "a short packet ends the stage")
        ensure("zlp_when_total_is_multiple_of_packet_size",
                 z3.Implies(z3.And(self.isbusy, valid, self.exists, self.zlp), z3.And(z3.Not(first), last)),
                 clause="when the total is a non-zero multiple of the packet size below wLength, [the stage ends] with a zero-length packet")
        env_next = c.nx(z3.And(*self.reqs)) if self.instance and self.reqs else z3.BoolVal(True)
        ensure("byte_held_until_ready", z3.Implies(z3.And(data, z3.Not(ready), env_next),
                                                     z3.And(c.nx(O["o_valid"]) == 1, c.nx(O["o_payload"]) == O["o_payload"])),
                 clause="all ready patterns: an offered byte is held until accepted")
        if not covers:
            return
        c.cover("data_packet_completes", z3.And(data, last, ready), reach=self.reach)
        c.cover("stall", stall, reach=self.reach)
        c.cover("stall_on_offer_wait", z3.And(data, z3.Not(ready), cnt != 0), reach=self.reach)
        c.timeout_s = max(c.timeout_s, 240)       # the cover BMC unrolls every generator; allow for a loaded machine

    def _data(self, v, pos):
        e = bvc(0, 8)
        for k, b in reversed(list(self.keys.items())):
            e = z3.If(v == k, lookup(pos, list(b), 8), e)
        return e

    def per_key(self, v, fn, width, default=0):
        return lookup(v, {k: fn(k, b) for k, b in self.keys.items()}, width, default)


# ------------------------------------------------------------------------------------------------ Block (ROM) handler
def block_invariants(c, ts, s, d, prefix="", tag=""):
    """Abstraction map of GetDescriptorHandlerBlock: FSM state / registers / ROM read register <-> request + cnt + age."""
    keys = s.keys
    rom, max_len, max_type, index_map = d.generate_rom_content()       # real code, executed for this configuration
    fsm = ts.fsm(prefix + "fsm_state")
    R = lambda n: reg(ts, prefix + n)
    rp = ts.sig(prefix + "rom_read_port__data")
    pos, sent, lreg = R("position_in_stream"), R("bytes_sent"), R("length")
    base, dlen = R("descriptor_data_base_address"), R("descriptor_length")
    gv, gp, gl, cnt, age = s.gv, s.gp, s.gl, s.cnt, s.age
    typ = bits(gv, 15, 8)
    AW = base.size()
    # ROM layout facts (from generate_rom_content): type table, per-type index tables, data
    by_type = {}
    for k in keys:
        by_type.setdefault(k >> 8, []).append(k & 0xff)
    rank = {k: sorted(by_type[k >> 8]).index(k & 0xff) for k in keys}
    entry_word = {k: rom[((rom[k >> 8] & 0xffff) >> 2) + rank[k]] for k in keys}      # (length << 16) | data address
    type_word = lambda t: lookup(t, {tt: rom[tt] for tt in range(max_type + 1)}, 32)
    didx_spec = lookup(gv, rank, 8, default=0xFF) if index_map else bits(gv, 7, 0)
    Lspec = umin(bvc(s.maxpkt, W), gl - gp)            # the registered `length` (bytes allowed in this packet)
    word_of = lambda wi: s.per_key(gv, None, 32) if False else _word_table(keys, gv, wi)
    st = fsm.is_
    busy = s.isbusy
    c.inv(tag + "fsm_legal", fsm.legal())
    c.inv(tag + "idle_iff_not_busy", st("IDLE") == z3.Not(busy))
    c.inv(tag + "length_register", z3.Implies(z3.And(busy, z3.ULE(gp, gl)), zx(lreg, W) == Lspec))
    c.inv(tag + "start_state", z3.Implies(st("START"), age == 1))
    lt = [age == 2, z3.ULE(zx(typ, 16), max_type), rp == type_word(typ), pos == bits(gp, pos.size() - 1, 0)]
    if index_map:
        lt.append(R("descr_idx") == didx_spec)
    c.inv(tag + "lookup_type_state", z3.Implies(st("LOOKUP_TYPE"), z3.And(*lt)))
    c.inv(tag + "lookup_descriptor_state", z3.Implies(st("LOOKUP_DESCRIPTOR"), z3.And(
        age == 3, s.exists, rp == lookup(gv, entry_word, 32), pos == bits(gp, pos.size() - 1, 0), Lspec != 0)))
    p_now = gp + cnt
    c.inv(tag + "send_descriptor_state", z3.Implies(st("SEND_DESCRIPTOR"), z3.And(
        age == 4, s.exists, z3.ULT(gp, s.T), z3.ULT(cnt, s.n), zx(pos, W) == p_now, zx(sent, W) == cnt,
        zx(dlen, W) == s.LEN, zx(base, 16) == z3.LShR(bits(lookup(gv, entry_word, 32), 15, 0), 2),
        rp == _word_table(keys, gv, z3.LShR(p_now, 2)))))
    c.inv(tag + "send_zlp_state", z3.Implies(st("SEND_ZLP"), z3.And(s.exists, s.zlp, z3.Or(age == 3, age == 4), cnt == 0)))
    c.inv(tag + "count_zero_before_data", z3.Implies(z3.And(busy, z3.Not(st("SEND_DESCRIPTOR"))), z3.And(cnt == 0, sent == 0)))


def _word_table(keys, v, wi):
    """32-bit big-endian word number wi of descriptor v (zero padded), from the collection bytes."""
    e = bvc(0, 32)
    for k, b in reversed(list(keys.items())):
        padded = b + bytes((-len(b)) % 4)
        words = [int.from_bytes(padded[4 * i:4 * i + 4], "big") for i in range(len(padded) // 4)]
        e = z3.If(v == k, lookup(wi, words, 32), e)
    return e


def block_body(c, ts, I, O, d, keys, maxpkt, prefix="", **kw):
    """Contract of GetDescriptorHandlerBlock `d` observed at the port terms I / O: the unit alone (I, O = the netlist's ports),
    or its instance at module path `prefix` inside a real parent (I, O = `instance_io(ts, d)`)."""
    reach = not kw.get("instance", False)
    s = PacketSpec(c, I, O, keys, maxpkt, k_data=4, k_stall=2, **kw)
    block_invariants(c, ts, s, d, prefix=prefix)
    c.cover("zlp", z3.And(s.isbusy, s.valid, s.zlp), reach=reach) if any(len(b) % maxpkt == 0 for b in s.keys.values()) else None
    c.cover("second_packet", z3.And(s.isbusy, s.valid, s.gp != 0, z3.Not(s.zlp)), reach=reach) if any(len(b) > maxpkt for b in s.keys.values()) else None
    c.cover("truncated_by_wlength", z3.And(s.isbusy, s.valid, s.last, z3.ULT(s.gl, s.LEN)), reach=reach)
    if any(len(b) % maxpkt == 0 for b in s.keys.values()):
        c.cover("zlp_requested", z3.And(s.start_accept, s.exists, s.zlp), reach=reach)
    c.cover_depth = maxpkt + 8 if maxpkt <= 16 else 14
    return s


def make_block(coll_fn, maxpkt):
    def contract(c):
        coll = coll_fn()
        d = GetDescriptorHandlerBlock(coll, max_packet_length=maxpkt)
        ts = c.unit(d, PORTS(d))
        block_body(c, ts, ts.inputs, ts.outputs, d, keys_of(coll), maxpkt)
    return contract


# ------------------------------------------------------------------------------------------------ Distributed handler
def gen_names(coll):
    from usb_protocol.types.descriptors.standard import StandardDescriptorNumbers
    out = {}
    for t, i, raw in coll:
        ref = t.name if isinstance(t, StandardDescriptorNumbers) else t
        out[(int(t) << 8) | int(i)] = f"USBDescriptorStreamGenerator({ref},{i})"
    return out


def distributed_invariants(c, ts, s, coll, prefix="", tag=""):
    """Per generator g (descriptor key kg): its start register, FSM, position, byte counter, latched max_length and ROM read
    register as functions of the observation ghosts."""
    names = gen_names(coll)
    gv, gp, gl, cnt, age = s.gv, s.gp, s.gl, s.cnt, s.age
    busy = s.isbusy
    Lspec = umin(bvc(s.maxpkt, W), gl - gp)
    c.inv(tag + "age_bound", z3.Implies(busy, z3.And(z3.UGE(age, 1), z3.ULE(age, 2), s.exists)))
    # A tree with the ZLP fix (proposed_fixes/C09_distributed_handler_zlp.diff) has a one-cycle `send_zlp` register;
    # without it no state of the unit corresponds to "answering with a ZLP" and the zlp case is simply not provable.
    has_zlp = ts.has(prefix + "send_zlp")
    zcase = z3.And(busy, s.zlp) if has_zlp else z3.BoolVal(False)
    if has_zlp:
        c.inv(tag + "send_zlp_register", (ts.sig(prefix + "send_zlp") == 1) == zcase)
        c.inv(tag + "zlp_is_answered_at_once", z3.Implies(zcase, age == 1))
    c.inv(tag + "count_zero_before_data", z3.Implies(z3.And(busy, age == 1), cnt == 0))
    for k, b in s.keys.items():
        if k not in names:           # (instance inside a parent) a reference descriptor the handler was not built with: no map
            continue
        g = prefix + names[k] + "."
        fsm = ts.fsm(g + "fsm_state")
        sreg = ts.sig(g + "start")
        mine = z3.And(busy, gv == k)
        nm = tag + f"gen_{k:04x}_"
        c.inv(nm + "fsm_legal", fsm.legal())
        c.inv(nm + "start_register", (sreg == 1) == z3.And(mine, age == 1, z3.Not(zcase)))
        c.inv(nm + "streaming_iff_serving", fsm.is_("STREAMING") == z3.And(mine, age == 2))
        c.inv(nm + "not_done_while_waiting", z3.Implies(z3.And(mine, age == 1, z3.Not(zcase)), fsm.is_("IDLE")))
        conj = [zx(reg(ts, g + "bytes_sent"), W) == cnt, zx(reg(ts, g + "max_length"), W) == Lspec,
                z3.ULT(gp, s.T), z3.ULT(cnt, s.n),
                ts.sig(g + "rom_read_port__data") == lookup(gp + cnt, list(b), 8)]
        if len(b) > 1:
            conj.append(zx(reg(ts, g + "position_in_stream"), W) == gp + cnt)
        c.inv(nm + "streaming_state", z3.Implies(fsm.is_("STREAMING"), z3.And(*conj)))


def distributed_body(c, ts, I, O, coll, keys, maxpkt, prefix="", **kw):
    """Contract of GetDescriptorHandlerDistributed (built over `coll`) at the port terms I / O; see block_body."""
    reach = not kw.get("instance", False)
    s = PacketSpec(c, I, O, keys, maxpkt, k_data=2, k_stall=0, **kw)
    distributed_invariants(c, ts, s, coll, prefix=prefix)
    c.cover("second_packet", z3.And(s.isbusy, s.valid, s.gp != 0, z3.Not(s.zlp)), reach=reach) if any(len(b) > maxpkt for b in s.keys.values()) else None
    c.cover("truncated_by_wlength", z3.And(s.isbusy, s.valid, s.last, z3.ULT(s.gl, s.LEN)), reach=reach)
    c.cover_depth = maxpkt + 8 if maxpkt <= 16 else 14
    return s


def make_distributed(coll_fn, maxpkt):
    def contract(c):
        coll = coll_fn()
        d = GetDescriptorHandlerDistributed(coll, max_packet_length=maxpkt)
        ts = c.unit(d, PORTS(d))
        distributed_body(c, ts, ts.inputs, ts.outputs, coll, keys_of(coll), maxpkt)
    return contract


# ------------------------------------------------------------------------------------------------ Mux(Block + Distributed)
def mux_of_two(coll_a_fn, coll_b_fn):
    def build(maxpkt):
        ca, cb = coll_a_fn(), coll_b_fn()
        mux = GetDescriptorHandlerMux()
        ha = GetDescriptorHandlerBlock(ca, max_packet_length=maxpkt)
        hb = GetDescriptorHandlerDistributed(cb, max_packet_length=maxpkt)
        mux.add_descriptor_handler(ha); mux.add_descriptor_handler(hb)
        return mux, ha, hb, ca, cb
    return build


def mux_of_request_handler(coll_fn):
    """the multiplexer exactly as StandardRequestHandler.get_descriptor_handler_submodule() builds it when the collection
    holds runtime descriptors (fixed descriptors -> Block handler, runtime descriptors -> Distributed handler)"""
    def build(maxpkt):
        from luna.gateware.usb.request.standard import StandardRequestHandler
        h = StandardRequestHandler(coll_fn(), max_packet_size=maxpkt, avoid_blockram=False)
        mux = h.get_descriptor_handler_submodule()
        assert isinstance(mux, GetDescriptorHandlerMux)
        ha, hb = mux._handlers
        return mux, ha, hb, ha._descriptors, hb._descriptors
    return build


def mux_body(c, ts, I, O, ha, hb, ca, cb, keys, maxpkt, prefix="", pa=None, pb=None, **kw):
    """Contract of GetDescriptorHandlerMux(Block `ha` over collection `ca`, Distributed `hb` over `cb`) at the port terms
    I / O (see block_body); `keys` is the reference: the descriptors of the collection the multiplexer as a whole serves.
    prefix / pa / pb: module paths (with trailing dot) of the multiplexer and of its two sub-handlers in the netlist."""
    reach = not kw.get("instance", False)
    ka, kb = keys_of(ca), keys_of(cb)
    s = PacketSpec(c, I, O, keys, maxpkt, k_data=4, k_stall=2, settle=3, **kw)
    sub_out = lambda h: {"o_valid": ts.of(h.tx.valid), "o_first": ts.of(h.tx.first), "o_last": ts.of(h.tx.last),
                         "o_payload": ts.of(h.tx.payload), "o_stall": ts.of(h.stall)}
    if pa is None:
        pa = [p for p in ts.paths if p.endswith(".descriptor_length")][0].rsplit(".", 1)[0] + "."
    if pb is None:
        pb = [p for p in ts.paths if "USBDescriptorStreamGenerator" in p][0].split(".", 1)[0] + "."
    sa = PacketSpec(c, I, sub_out(ha), ka, maxpkt, 4, 2, parent=s, tag="block.", **kw)
    sb = PacketSpec(c, I, sub_out(hb), kb, maxpkt, 2, 0, parent=s, tag="dist.", **kw)
    block_invariants(c, ts, sa, ha, prefix=pa, tag="block.")
    distributed_invariants(c, ts, sb, cb, prefix=pb, tag="dist.")
    la, lb = reg(ts, prefix + "stall_latch_0") == 1, reg(ts, prefix + "stall_latch_1") == 1
    busy = s.isbusy
    exa, exb = sa.exists, sb.exists                 # over the request each sub-handler is (or would be) serving
    gexa = z3.Or(*[s.gv == k for k in ka])           # over the latched request
    gexb = z3.Or(*[s.gv == k for k in kb])
    since = s.since
    # --- at most one (stale) latch is left over from the last transaction
    c.inv("never_both_latched", z3.Not(z3.And(la, lb)))
    # --- sub-handlers only work on the mux's latest request
    c.inv("block_busy_own", z3.Implies(z3.And(sa.isbusy, gexa), z3.And(busy, sa.cnt == s.cnt, sa.age == s.age, z3.Not(la), lb)))
    c.inv("block_busy_foreign", z3.Implies(z3.And(sa.isbusy, z3.Not(gexa)), z3.And(
        sa.age == since, z3.ULE(since, 2), sa.cnt == 0, z3.Not(la), lb == z3.Not(gexb), z3.Implies(z3.Not(gexb), busy))))
    c.inv("dist_busy_own", z3.Implies(sb.isbusy, z3.And(busy, gexb, sb.cnt == s.cnt, sb.age == s.age, z3.Not(lb))))
    # --- and the mux-level transaction is carried by the owner
    c.inv("owner_block", z3.Implies(z3.And(busy, gexa), sa.isbusy))
    c.inv("owner_dist", z3.Implies(z3.And(busy, gexb), z3.And(sb.isbusy, z3.Or(sa.isbusy, la))))
    c.inv("owner_nobody", z3.Implies(z3.And(busy, z3.Not(gexa), z3.Not(gexb)), z3.And(sa.isbusy, s.cnt == 0, s.age == since)))
    c.cover("served_by_block", z3.And(s.take, sa.exists), reach=reach)
    c.cover("served_by_distributed", z3.And(s.take, sb.exists), reach=reach)
    c.cover("block_request_after_distributed_request", z3.And(s.start_accept, la, exa), reach=reach)   # stale latch of the block handler
    c.cover_depth = 14
    return s


def make_mux(build, maxpkt):
    """GetDescriptorHandlerMux over a Block handler (collection A) and a Distributed handler (collection B).  The two
    handlers must hold disjoint descriptor sets (if they do not, both answer and the proof fails -- as it should)."""
    def contract(c):
        mux, ha, hb, ca, cb = build(maxpkt)
        ts = c.unit(mux, PORTS(mux))
        mux_body(c, ts, ts.inputs, ts.outputs, ha, hb, ca, cb, {**keys_of(ca), **keys_of(cb)}, maxpkt)
    return contract


def coll_runtime():
    ds = DeviceDescriptorCollection(automatic_language_descriptor=False)
    ds.add_descriptor(get_string_descriptor("runtime"), index=7)                 # 16 bytes
    ds.add_descriptor(b'\x05\x23\x01\x02\x03', index=0, descriptor_type=0x23)
    return ds


# ------------------------------------------------------------------------------------------------ start_position advance
SRH_IN = {"s_received": lambda i: i.setup.received, "s_type": lambda i: i.setup.type, "s_request": lambda i: i.setup.request,
          "s_value": lambda i: i.setup.value, "s_length": lambda i: i.setup.length,
          "i_data_requested": lambda i: i.data_requested, "i_status_requested": lambda i: i.status_requested,
          "i_ack": lambda i: i.handshakes_in.ack, "i_tx_ready": lambda i: i.tx.ready}
SRH_OUT = {"o_tx_valid": lambda i: i.tx.valid, "o_tx_first": lambda i: i.tx.first, "o_tx_last": lambda i: i.tx.last,
           "o_tx_payload": lambda i: i.tx.payload, "o_stall": lambda i: i.handshakes_out.stall,
           "o_ack": lambda i: i.handshakes_out.ack, "o_pid": lambda i: i.tx_data_pid}


def request_handler_body(c, ts, I, O, hd, maxpkt, prefix="", reach=True):
    """Contract of StandardRequestHandler's GET_DESCRIPTOR handling (start_position / data PID advance) at the port terms
    I / O of its RequestHandlerInterface (names: SRH_IN / SRH_OUT): the unit alone, or its instance at module path `prefix`
    inside a real parent.  `hd` is the real descriptor handler object the request handler's elaborate() created."""
    from usb_protocol.types import USBStandardRequests, USBRequestType
    hsig = {"start": hd.start, "start_position": hd.start_position, "value": hd.value, "length": hd.length, "stall": hd.stall,
            "valid": hd.tx.valid, "first": hd.tx.first, "last": hd.tx.last, "payload": hd.tx.payload, "ready": hd.tx.ready}
    h = lambda n: ts.of(hsig[n])
    R = lambda n: reg(ts, prefix + n)
    received, dreq, sreq, ack = (I[n] == 1 for n in ("s_received", "i_data_requested", "i_status_requested", "i_ack"))
    stall = O["o_stall"] == 1
    gd = c.ghost("in_get_descriptor", 1, init=0)          # a GET_DESCRIPTOR request is open (setup seen, no status/stall yet)
    epos = c.ghost("acked_bytes", 11, init=0)             # max_packet * number of ACKed data packets of this request
    exp = c.ghost("packet_awaiting_ack", 1, init=0)       # a data packet of this request was started and not yet ACKed
    pid = c.ghost("expected_pid", 1, init=1)
    isgd = gd == 1
    closes = z3.Or(sreq, stall)
    advance = z3.And(isgd, ack, exp == 1)
    c.set_next(gd, z3.If(isgd, z3.If(closes, bvc(0, 1), bvc(1, 1)), z3.If(received, bvc(1, 1), bvc(0, 1))))
    c.set_next(epos, z3.If(z3.Not(isgd), bvc(0, 11), z3.If(advance, epos + maxpkt, epos)))
    c.set_next(exp, z3.If(z3.Not(isgd), bvc(0, 1), z3.If(stall, bvc(0, 1), z3.If(advance, bvc(0, 1), z3.If(dreq, bvc(1, 1), exp)))))
    c.set_next(pid, z3.If(z3.Not(isgd), bvc(1, 1), z3.If(advance, ~pid, pid)))
    # (the request code only matters in the cycle of the `received` strobe: stated there, so that the same assumption can be
    # made on the setup decoder's registers when the handler sits inside a real control endpoint, where they reset to 0)
    c.require("only_get_descriptor_setups", z3.And(I["s_type"] == int(USBRequestType.STANDARD),
                                                   z3.Implies(received, I["s_request"] == int(USBStandardRequests.GET_DESCRIPTOR))),
              why="this contract covers GET_DESCRIPTOR handling only; other requests and their interleavings are C07/C10")
    c.require("no_setup_inside_open_request", z3.Implies(isgd, z3.Not(received)),
              why="a new SETUP during an unfinished request is the subject of C07")
    fsm = ts.fsm(prefix + "fsm_state")
    c.inv("fsm_legal", fsm.legal())
    c.inv("state_is_get_descriptor_iff_open", fsm.is_("GET_DESCRIPTOR") == isgd)
    c.inv("idle_otherwise", z3.Implies(z3.Not(isgd), fsm.is_("IDLE")))
    c.inv("start_position_register", z3.Implies(isgd, R("start_position") == epos))
    c.inv("start_position_register_is_multiple_of_max_packet", multiple(R("start_position"), maxpkt))
    # expecting_ack must mean "a data packet of THIS request awaits its ACK".  (On the unchanged tree the register is not
    # cleared when a request closes, so it can be stale-high from an earlier request whose last ACK never came; an ACK
    # seen before the first data packet of the next GET_DESCRIPTOR then advances start_position: finding, fix in
    # proposed_fixes/C09_expecting_ack_reset.diff.)
    c.inv("expecting_ack_register", z3.Implies(isgd, R("expecting_ack") == exp))
    c.inv("pid_register", z3.Implies(isgd, R("tx_data_pid") == pid))
    c.ensure("start_position_is_acked_packets_times_max_packet", z3.Implies(isgd, h("start_position") == epos),
             clause="read in max-packet-size pieces: start_position is 0 for the first packet of a request and advances by "
                    "exactly max_packet_size for each ACKed data packet (and only then)")
    c.ensure("start_position_is_multiple_of_max_packet", multiple(h("start_position"), maxpkt),
             clause="read in max-packet-size pieces: the continuation offset given to the descriptor handler is always a multiple "
                    "of max_packet_size (discharges that part of the descriptor handlers' `legal_continuation_offset` assumption)")
    c.ensure("handler_started_once_per_data_request", (h("start") == 1) == z3.And(isgd, dreq),
             clause="each IN token of the data stage starts exactly one packet of the descriptor handler")
    c.ensure("request_fields_wired", z3.And(h("value") == I["s_value"], h("length") == I["s_length"]),
             clause="any request (type, index, wLength): the handler sees the setup packet's wValue and wLength")
    c.ensure("handler_output_forwarded", z3.Implies(isgd, z3.And(
        O["o_tx_valid"] == h("valid"), O["o_tx_first"] == h("first"), O["o_tx_last"] == h("last"),
        O["o_tx_payload"] == h("payload"), O["o_stall"] == h("stall"), h("ready") == I["i_tx_ready"])),
             clause="the data stage is the handler's tx stream; a missing descriptor's stall becomes the STALL handshake")
    c.ensure("silent_outside_get_descriptor", z3.Implies(z3.Not(isgd), z3.And(O["o_tx_valid"] == 0, O["o_stall"] == 0)),
             clause="(frame) nothing is sent for a request that is not open")
    c.ensure("data_pid_toggles_per_acked_packet", z3.Implies(isgd, O["o_pid"] == pid),
             clause="(data toggle) DATA1 first, toggled once per ACKed packet")
    c.cover("second_packet_started", z3.And(isgd, dreq, epos == maxpkt), reach=reach)
    c.cover("third_packet_started", z3.And(isgd, dreq, epos == 2 * maxpkt), reach=reach)
    c.cover("closed_by_stall", z3.And(isgd, stall), reach=reach)
    c.cover("closed_by_status", z3.And(isgd, sreq, epos != 0), reach=reach)
    c.cover_depth = 20
    c.timeout_s = max(c.timeout_s, 240)
    return isgd, epos


def make_request_handler(coll_fn, maxpkt):
    """StandardRequestHandler (request/standard.py): during a GET_DESCRIPTOR request the descriptor handler is started once
    per data_requested with the setup's value/length, and start_position = max_packet_size * (number of data packets of this
    request that were ACKed).  With the per-packet contract this gives the concatenation clause of the statement.
    Histories are restricted to standard GET_DESCRIPTOR setups (the interplay with other requests is C07/C10)."""
    def contract(c):
        from luna.gateware.usb.request.standard import StandardRequestHandler
        d = StandardRequestHandler(coll_fn(), max_packet_size=maxpkt, avoid_blockram=False)
        i = d.interface
        made = []                        # capture the handler instance the real elaborate() creates (to name its ports)
        factory = d.get_descriptor_handler_submodule
        d.get_descriptor_handler_submodule = lambda: (made.append(factory()), made[-1])[1]
        ports = {n: f(i) for n, f in SRH_IN.items()}
        ports.update({n: f(i) for n, f in SRH_OUT.items()})
        ts = c.unit(d, ports)
        request_handler_body(c, ts, ts.inputs, ts.outputs, made[-1], maxpkt)
    return contract


# ------------------------------------------------------------------------------------------------ collections
def coll_small():
    """device(18) + configuration(25) + strings 0..3 (4,10,10,16 bytes) + sparse string 0xfe (30) + HID type 0x21 (9)."""
    ds = DeviceDescriptorCollection()
    with ds.DeviceDescriptor() as d:
        d.bcdUSB = 2.00; d.idVendor = 0x1234; d.idProduct = 0x4567
        d.iManufacturer = "Manu"; d.iProduct = "Prod"; d.iSerialNumber = "0123456"
        d.bNumConfigurations = 1
    with ds.ConfigurationDescriptor() as cfg:
        with cfg.InterfaceDescriptor() as i:
            i.bInterfaceNumber = 0
            with i.EndpointDescriptor() as e:
                e.bEndpointAddress = 0x81; e.wMaxPacketSize = 64
    ds.add_descriptor(get_string_descriptor("nonconsecutive"), index=0xfe)
    ds.add_descriptor(b'\x09\x21\x01\x01\x00\x01\x22\x00\x32')
    return ds


def coll_with_runtime():
    """device + strings (fixed) and one runtime descriptor (type 0x22) supplied as a stream-generator factory"""
    from luna.gateware.usb.usb2.descriptor import USBDescriptorStreamGenerator
    ds = DeviceDescriptorCollection()
    with ds.DeviceDescriptor() as d:
        d.idVendor = 0x1234; d.idProduct = 0x4567; d.iProduct = "Prod"; d.bNumConfigurations = 1
    ds.add_descriptor(lambda: USBDescriptorStreamGenerator(b"\x06\x22\xaa\xbb\xcc\xdd"), index=0, descriptor_type=0x22)
    return ds


def coll_consecutive():
    """like coll_small without the sparse string: all indices consecutive, so the Block handler uses the request's index
    directly (no index map)."""
    ds = DeviceDescriptorCollection()
    with ds.DeviceDescriptor() as d:
        d.bcdUSB = 2.00; d.idVendor = 0x1234; d.idProduct = 0x4567
        d.iManufacturer = "Manu"; d.iProduct = "Prod"; d.iSerialNumber = "0123456"
        d.bNumConfigurations = 1
    with ds.ConfigurationDescriptor() as cfg:
        with cfg.InterfaceDescriptor() as i:
            i.bInterfaceNumber = 0
            with i.EndpointDescriptor() as e:
                e.bEndpointAddress = 0x81; e.wMaxPacketSize = 64
    ds.add_descriptor(b'\x09\x21\x01\x01\x00\x01\x22\x00\x32')
    return ds


def coll_one_gap():
    """the boundary of "non-consecutive": strings 0, 1, 3 -- exactly ONE gap (highest index == number of strings), and no other
    type sparser than that; the Block handler must still build its index map (string 3 exists, string 2 does not)."""
    ds = DeviceDescriptorCollection()
    with ds.DeviceDescriptor() as d:
        d.bcdUSB = 2.00; d.idVendor = 0x1234; d.idProduct = 0x4567
        d.iManufacturer = "Manu"
        d.bNumConfigurations = 1
    with ds.ConfigurationDescriptor() as cfg:
        with cfg.InterfaceDescriptor() as i:
            i.bInterfaceNumber = 0
            with i.EndpointDescriptor() as e:
                e.bEndpointAddress = 0x81; e.wMaxPacketSize = 64
    ds.add_descriptor(get_string_descriptor("third"), index=3)
    return ds


def coll_pow2_longest():
    """the longest descriptor is exactly 64 bytes (a power of two, and a whole number of packets for every max packet size):
    the position after its last byte needs one bit more than any position inside it"""
    ds = DeviceDescriptorCollection()
    with ds.DeviceDescriptor() as d:
        d.bcdUSB = 2.00; d.idVendor = 0x1234; d.idProduct = 0x4567
        d.iManufacturer = "M" * 31            # 2 + 62 = 64 bytes
        d.bNumConfigurations = 1
    with ds.ConfigurationDescriptor() as cfg:
        with cfg.InterfaceDescriptor() as i:
            i.bInterfaceNumber = 0
            with i.EndpointDescriptor() as e:
                e.bEndpointAddress = 0x81; e.wMaxPacketSize = 64
    return ds


def coll_big():
    """device + a 130-byte configuration + strings incl. exactly 64 and 128 bytes + sparse string indices + BOS (type 15)
    + a type-0x22 report descriptor of 32 bytes."""
    ds = DeviceDescriptorCollection()
    with ds.DeviceDescriptor() as d:
        d.bcdUSB = 2.10; d.idVendor = 0x1d50; d.idProduct = 0x615b
        d.iManufacturer = "M" * 31            # 2 + 62 = 64 bytes
        d.iProduct = "P" * 63                 # 2 + 126 = 128 bytes
        d.iSerialNumber = "serial-number-0123456789"
        d.bNumConfigurations = 1
    with ds.ConfigurationDescriptor() as cfg:
        for n in range(6):
            with cfg.InterfaceDescriptor() as i:
                i.bInterfaceNumber = n
                for ep in (0x81 + n, 0x01 + n):
                    with i.EndpointDescriptor() as e:
                        e.bEndpointAddress = ep; e.wMaxPacketSize = 512
    ds.add_descriptor(get_string_descriptor("sparse"), index=0x40)
    ds.add_descriptor(get_string_descriptor("also sparse"), index=0xee)
    ds.add_descriptor(bytes([5, 15, 12, 0, 1]) + bytes([7, 16, 2, 2, 0, 0, 0]), index=0, descriptor_type=15)
    ds.add_descriptor(bytes(range(32)), index=0, descriptor_type=0x22)
    return ds


def coll_minimal():
    """nothing but the automatically added language descriptor (4 bytes)"""
    return DeviceDescriptorCollection()


# ======================================================================================================================
#  Caller-side "parameter plumbing" obligations.
#
#  The contracts above prove each handler for a max packet size / descriptor collection / variant GIVEN TO ITS CONSTRUCTOR.
#  Nothing there says that the code which builds the handlers passes its own parameters down:
#      USBDevice.add_standard_control_endpoint(descriptors, **kw)          -> USBControlEndpoint(utmi)  [EP0 size: its default]
#      USBControlEndpoint(max_packet_size=M).add_standard_request_handlers(descriptors, **kw)
#                                                                          -> StandardRequestHandler(descriptors, max_packet_size=M, **kw)
#      StandardRequestHandler.get_descriptor_handler_submodule()           -> GetDescriptorHandler{Block|Distributed|Mux}(.., max_packet_length=M)
#      StandardRequestHandler: start_position += M per ACK
#  The obligations below elaborate the REAL parent with NON-DEFAULT parameters, locate the real handler instances its
#  elaborate() created (`ts.instance`), and re-prove the leaf contract bodies above on those instances' ports -- with the
#  PARENT's parameter as the contract's max packet size and the collection handed to the PARENT as the reference.  The
#  leaf assumptions are kept as assumptions at the instance's ports, except "start_position is a multiple of max packet",
#  which is proved here from the parent's register.  Everything is decided on the netlist: no Python attribute that holds a
#  parameter value is compared (the handler objects' `_descriptors` / `_handlers` are only used to write the abstraction map;
#  a wrong map can only make an obligation fail).
# ======================================================================================================================
def path_of(ts, obj):
    from .c10_unsupported_requests_stall import hier
    return ".".join(hier(ts, obj))


def instance_io(ts, d):
    """port terms of a descriptor handler instance inside the netlist `ts` (same names as PORTS)"""
    from .c10_unsupported_requests_stall import wires
    of, _ = wires(ts)
    sig = PORTS(d)
    return ({n: of(x) for n, x in sig.items() if n.startswith("i_")}, {n: of(x) for n, x in sig.items() if n.startswith("o_")})


def has_runtime_descriptors(coll):
    return any(not isinstance(raw, (bytes, bytearray)) for _, _, raw in coll)


class ControlPath:
    """A real parent of the standard request handler, elaborated with the given parameters:
         via="endpoint": USBControlEndpoint(utmi, max_packet_size=maxpkt).add_standard_request_handlers(coll, **kwargs)
         via="device"  : USBDevice(bus=utmi).add_standard_control_endpoint(coll, **kwargs)   (EP0 size: what the device builds)
         via="serial"  : USBSerialDevice(bus=utmi) with its own create_descriptors()
       and the real StandardRequestHandler / descriptor handler instances inside it."""

    def __init__(self, c, via, coll_fn, maxpkt, kwargs):
        from luna.gateware.usb.request.standard import StandardRequestHandler
        from luna.gateware.usb.usb2.control import USBControlEndpoint
        from luna.gateware.interface.utmi import UTMIInterface
        from .c10_unsupported_requests_stall import control_endpoint_ports, hier
        utmi = UTMIInterface()
        devports = lambda: {n_: getattr(utmi, n_) for n_ in ("rx_data", "rx_active", "rx_valid", "tx_ready", "line_state", "session_end")}
        if via == "endpoint":
            self.coll = coll = coll_fn()
            top = USBControlEndpoint(utmi=utmi, max_packet_size=maxpkt)
            top.add_standard_request_handlers(coll, **kwargs)
            ports = control_endpoint_ports(top)
        elif via == "device":
            from luna.gateware.usb.usb2.device import USBDevice
            self.coll = coll = coll_fn()
            top = USBDevice(bus=utmi)
            top.add_standard_control_endpoint(coll, **kwargs)
            ports = dict(devports(), connect=top.connect, low_speed_only=top.low_speed_only, full_speed_only=top.full_speed_only)
        else:
            from luna.gateware.usb.devices.acm import USBSerialDevice
            top = USBSerialDevice(bus=utmi, idVendor=0x16d0, idProduct=0x0f3b, **kwargs)
            self.coll = coll = top.create_descriptors()
            ports = dict(devports(), connect=top.connect, o_ready=top.rx.ready, i_valid=top.tx.valid, i_payload=top.tx.payload,
                         i_first=top.tx.first, i_last=top.tx.last)
        self.top, self.maxpkt = top, maxpkt
        ts = self.ts = c.unit(top, ports)
        self.srh = srh = ts.instance(StandardRequestHandler)
        self.ce = ts.instance(USBControlEndpoint)
        below = [h for cls in (GetDescriptorHandlerBlock, GetDescriptorHandlerDistributed, GetDescriptorHandlerMux)
                 for h in ts.instances(cls) if hier(ts, h)[:-1] == hier(ts, srh)]
        c.lemma("one_descriptor_handler_below_the_standard_request_handler", z3.BoolVal(len(below) == 1),
                clause="(structural) the standard request handler the parent builds contains exactly one GET_DESCRIPTOR handler")
        self.gd = below[0]
        # which variant the documented meaning of the parameters selects
        ab = kwargs.get("avoid_blockram") if via != "serial" else None
        if ab is None:
            ab = bool(os.getenv("LUNA_AVOID_BLOCKRAM", False))
        want = GetDescriptorHandlerDistributed if ab else \
            (GetDescriptorHandlerMux if has_runtime_descriptors(coll) else GetDescriptorHandlerBlock)
        c.lemma("handler_variant_is_the_one_avoid_blockram_selects", z3.BoolVal(type(self.gd) is want),
                clause=f"(structural) either descriptor handler (block-RAM ROM or the block-RAM-free variant): avoid_blockram={ab!r}"
                       f"{', runtime descriptors present' if has_runtime_descriptors(coll) else ''} reaches the standard request handler "
                       f"and selects {want.__name__}; the parent built {type(self.gd).__name__}")


def advertised_ep0_size(coll):
    """bMaxPacketSize0 of the collection's device descriptor (None if it has none)"""
    for t, i, raw in coll:
        if int(t) == 1 and isinstance(raw, (bytes, bytearray)):
            return bytes(raw)[7]
    return None


def make_plumbing_packets(via, coll_fn, maxpkt, kwargs=None, start_cover_depth=None):
    """Per-packet clauses of C09 re-proved on the GET_DESCRIPTOR handler INSTANCE inside the real parent, for the parent's
    max packet size `maxpkt` (via="endpoint": the constructor parameter; "device"/"serial": the EP0 size these parents build
    their control endpoint with, 64) and the collection handed to the parent.  Whatever variant the parent built is
    contracted (so the packet clauses are decided for it); that it is the variant `avoid_blockram` asks for is a lemma."""
    kwargs = dict(kwargs or {})

    def contract(c):
        P = ControlPath(c, via, coll_fn, maxpkt, kwargs)
        ts, gd, coll = P.ts, P.gd, P.coll
        keys = keys_of(coll)
        I, O = instance_io(ts, gd)
        prefix = path_of(ts, gd) + "."
        kw = dict(instance=True)
        if via != "endpoint":
            c.lemma("control_endpoint_packet_size_is_the_advertised_bMaxPacketSize0", z3.BoolVal(advertised_ep0_size(coll) in (None, maxpkt)),
                    clause=f"each packet is at most the max packet size: the clauses below are proved for {maxpkt}, the EP0 size the "
                           f"device descriptor handed to the parent advertises ({advertised_ep0_size(coll)})")
        # the part of the leaf assumption `legal_continuation_offset` that is the parent's own doing
        c.inv("start_position_is_multiple_of_max_packet", multiple(ts.of(gd.start_position), maxpkt))
        if isinstance(gd, GetDescriptorHandlerBlock):
            s = block_body(c, ts, I, O, gd, keys, maxpkt, prefix=prefix, **kw)
        elif isinstance(gd, GetDescriptorHandlerDistributed):
            s = distributed_body(c, ts, I, O, gd._descriptors, keys, maxpkt, prefix=prefix, **kw)
        else:
            ha = [h for h in gd._handlers if isinstance(h, GetDescriptorHandlerBlock)]
            hb = [h for h in gd._handlers if isinstance(h, GetDescriptorHandlerDistributed)]
            c.lemma("multiplexer_holds_one_block_and_one_distributed_handler",
                    z3.BoolVal(len(ha) == 1 and len(hb) == 1 and list(gd._handlers) == ha + hb))
            s = mux_body(c, ts, I, O, ha[0], hb[0], ha[0]._descriptors, hb[0]._descriptors, keys, maxpkt, prefix=prefix,
                         pa=path_of(ts, ha[0]) + ".", pb=path_of(ts, hb[0]) + ".", **kw)
        # vacuity from reset, through the whole parent: a read of an existing descriptor is started at the instance
        if start_cover_depth:
            c.cover("descriptor_read_started_inside_the_parent", z3.And(s.start_accept, s.exists))
            c.cover_depth = start_cover_depth
        c.bmc_depth = max(c.bmc_depth, 48)
    return contract


def make_plumbing_stride(via, coll_fn, maxpkt, kwargs=None, open_cover_depth=None):
    """start_position / PID advance of C09 re-proved on the StandardRequestHandler INSTANCE inside the real parent: the
    continuation offset advances by the PARENT's max packet size per acknowledged packet."""
    kwargs = dict(kwargs or {})

    def contract(c):
        from .c10_unsupported_requests_stall import wires
        P = ControlPath(c, via, coll_fn, maxpkt, kwargs)
        ts, srh, gd = P.ts, P.srh, P.gd
        of, _ = wires(ts)
        i = srh.interface
        I = {n: of(f(i)) for n, f in SRH_IN.items()}
        O = {n: of(f(i)) for n, f in SRH_OUT.items()}
        isgd, epos = request_handler_body(c, ts, I, O, gd, maxpkt, prefix=path_of(ts, srh) + ".", reach=False)
        if open_cover_depth:
            c.cover("get_descriptor_request_opened_inside_the_parent", isgd)
            c.cover_depth = open_cover_depth
        c.bmc_depth = max(c.bmc_depth, 48)
    return contract


def contracts(tier):
    only = os.environ.get("HWV_C09_ONLY")              # development aid: restrict to "unit/cfg" names containing this
    for unit, cfg, fn in _contracts(tier):
        if not only or only in f"{unit}/{cfg}":
            yield (unit, cfg, fn)


def _contracts(tier):
    quick = tier == "quick"
    for mp in ((8,) if quick else (8, 16, 32, 64)):
        yield ("GetDescriptorHandlerBlock", f"small_maxpkt{mp}", make_block(coll_small, mp))
    for mp in ((64,) if quick else (8, 16, 32, 64)):
        yield ("GetDescriptorHandlerBlock", f"consecutive_maxpkt{mp}", make_block(coll_consecutive, mp))
    yield ("GetDescriptorHandlerBlock", "one_gap_maxpkt16", make_block(coll_one_gap, 16))
    yield ("GetDescriptorHandlerBlock", "pow2_longest_maxpkt64", make_block(coll_pow2_longest, 64))
    if not quick:
        yield ("GetDescriptorHandlerBlock", "pow2_longest_maxpkt16", make_block(coll_pow2_longest, 16))
        yield ("GetDescriptorHandlerDistributed", "pow2_longest_maxpkt64", make_distributed(coll_pow2_longest, 64))
    if not quick:
        yield ("GetDescriptorHandlerDistributed", "one_gap_maxpkt16", make_distributed(coll_one_gap, 16))
        yield ("GetDescriptorHandlerBlock", "one_gap_maxpkt64", make_block(coll_one_gap, 64))
        for mp in (8, 16, 32, 64):
            yield ("GetDescriptorHandlerBlock", f"big_maxpkt{mp}", make_block(coll_big, mp))
            yield ("GetDescriptorHandlerDistributed", f"big_maxpkt{mp}", make_distributed(coll_big, mp))
        yield ("GetDescriptorHandlerBlock", "minimal_maxpkt64", make_block(coll_minimal, 64))
        yield ("GetDescriptorHandlerDistributed", "minimal_maxpkt8", make_distributed(coll_minimal, 8))
        yield ("GetDescriptorHandlerMux", "block_big+distributed_runtime_maxpkt64", make_mux(mux_of_two(coll_big, coll_runtime), 64))
    for mp in ((8,) if quick else (8, 16, 32, 64)):
        yield ("StandardRequestHandler", f"get_descriptor_small_maxpkt{mp}", make_request_handler(coll_small, mp))
    for mp in ((8,) if quick else (8, 16, 32, 64)):
        yield ("GetDescriptorHandlerMux", f"block_small+distributed_runtime_maxpkt{mp}", make_mux(mux_of_two(coll_small, coll_runtime), mp))
    for mp in ((64,) if quick else (8, 64)):
        yield ("GetDescriptorHandlerMux", f"as_built_by_StandardRequestHandler_runtime_maxpkt{mp}",
               make_mux(mux_of_request_handler(coll_with_runtime), mp))
    for mp in ((8,) if quick else (8, 16, 32, 64)):
        yield ("GetDescriptorHandlerDistributed", f"small_maxpkt{mp}", make_distributed(coll_small, mp))
    # ---- caller side: the parents' parameters reach the handlers they build (non-default max packet sizes)
    AB, BR = {"avoid_blockram": True}, {"avoid_blockram": False}
    pk, st = make_plumbing_packets, make_plumbing_stride
    yield ("USBControlEndpoint", "plumbing_packets_block_small_maxpkt8", pk("endpoint", coll_small, 8, start_cover_depth=22))
    yield ("USBControlEndpoint", "plumbing_packets_distributed_small_maxpkt16", pk("endpoint", coll_small, 16, AB))
    yield ("USBControlEndpoint", "plumbing_stride_block_small_maxpkt8", st("endpoint", coll_small, 8, open_cover_depth=20))
    yield ("USBControlEndpoint", "plumbing_stride_distributed_small_maxpkt16", st("endpoint", coll_small, 16, AB))
    # USBDevice.add_standard_control_endpoint(descriptors, **kwargs): the keyword arguments reach the request handler, and the
    # control endpoint the device builds serves the collection in packets of the EP0 size it advertises (64)
    yield ("USBDevice", "plumbing_packets_distributed_small_maxpkt64", pk("device", coll_small, 64, AB))
    if not quick:
        yield ("USBDevice", "plumbing_packets_block_small_maxpkt64", pk("device", coll_small, 64, BR))
        yield ("USBDevice", "plumbing_stride_block_small_maxpkt64", st("device", coll_small, 64, BR))
        for mp in (8, 16, 32):
            yield ("USBControlEndpoint", f"plumbing_packets_mux_runtime_maxpkt{mp}", pk("endpoint", coll_with_runtime, mp, BR))
            yield ("USBControlEndpoint", f"plumbing_stride_mux_runtime_maxpkt{mp}", st("endpoint", coll_with_runtime, mp, BR))
            if mp != 8:
                yield ("USBControlEndpoint", f"plumbing_packets_block_small_maxpkt{mp}", pk("endpoint", coll_small, mp))
                yield ("USBControlEndpoint", f"plumbing_stride_block_small_maxpkt{mp}", st("endpoint", coll_small, mp))
            if mp != 16:
                yield ("USBControlEndpoint", f"plumbing_packets_distributed_small_maxpkt{mp}", pk("endpoint", coll_small, mp, AB))
                yield ("USBControlEndpoint", f"plumbing_stride_distributed_small_maxpkt{mp}", st("endpoint", coll_small, mp, AB))
        yield ("USBControlEndpoint", "plumbing_packets_distributed_big_maxpkt32", pk("endpoint", coll_big, 32, AB))
