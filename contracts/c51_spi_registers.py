"""C51 — SPIRegisterInterface / SPICommandInterface: a register transaction reads back the addressed register (or the
default), a write updates exactly that register with the transmitted value and strobes its write signal once, an aborted
transaction changes nothing.

Bus-level spec machine (ghosts; functions of sck / sdi / cs only — plus, for the read value, of what an observer of the
registers sees).  `edge` = falling edge of sck (previous cycle 1, now 0).  C = command bits (write flag + address), W = word.

    WAIT   : (power-on, and after a completed transaction) wait for cs low                       -> IDLE
    IDLE   : cs high -> CMD
    CMD    : n < C : an edge shifts sdi into the command (MSB first), n++ ; cs low -> IDLE (abort)
             n == C: the command is complete (is_write = first bit, addr = the rest)             -> T1 -> T2
    T2     : the read value rv := value of the addressed register *now* (default for unassigned addresses)  -> DATA
    DATA   : n < W : an edge shifts sdi into rx, n++ ;  sdo shows bit W-1-n of rv one cycle later (MSB first);
             cs low -> IDLE (abort);   n == W: transaction complete -> `done` for exactly one cycle, -> WAIT
Statement clauses (composite SPIRegisterInterface, which contains the real SPICommandInterface):
    read back   : in DATA with n bits exchanged, next cycle sdo == rv[W-1-n];  rv = register value / constant / default
    write       : write strobe of register k  <=>  done and is_write and addr == k   (one cycle: `done` lasts one cycle)
                  value_k' = rx if that strobe else value_k     (exactly that register, transmitted value, nothing else changes)
    read strobe : <=> done and not is_write and addr == k
    abort       : leaving CMD/DATA through cs low never produces `done`: no strobe, no register change.
"""
import z3
from amaranth import Signal
from hwv.contract import B, zx, bvc, bits
from luna.gateware.interface.spi import SPIRegisterInterface, SPICommandInterface

LEVEL = "proof"
EXPLANATION = ("Real SPIRegisterInterface (with the real SPICommandInterface inside; several register kinds: autonegotiation "
               "constant, memory-backed, SFR with strobes, write-only, unassigned) and SPICommandInterface alone; ghost = bus-level "
               "transaction tracker; invariant maps FSM, bit counter, shift registers, command/word registers to the ghost; "
               "ensures are iff/frame clauses for sdo, every strobe and every register. Unbounded 1-induction.")
WAIT, IDLE, CMD, T1, T2, DATA = range(6)
NW = 8


class Protocol:
    def __init__(self, c, ts, I, C, W, prefix=""):
        self.c, self.ts, self.C, self.W = c, ts, C, W
        g = lambda n, w, init=0: c.ghost(n, w, init=init)
        self.gs, self.n = g("phase", 3, WAIT), g("n", NW)
        self.prev = g("prev_sck", 1)
        self.csh, self.cmd = g("cmd_shift", C), g("cmd", C)
        self.rv, self.rx = g("rv", W), g("rx", W)
        self.done = g("done", 1)
        self.cs = I["i_cs"] == 1
        self.sdi = I["i_sdi"]
        self.edge = z3.And(self.prev == 1, I["i_sck"] == 0)
        self.sck = I["i_sck"]
        self.is_write = bits(self.cmd, C - 1) == 1
        self.addr = bits(self.cmd, C - 2, 0) if C >= 2 else None
        self.prefix = prefix
        assert max(C, W) + 1 < (1 << NW)

    def shl(self, x, k):
        WW = max(x.size(), NW)
        return z3.Extract(x.size() - 1, 0, zx(x, WW) << zx(k, WW))

    def lshr(self, x, k):
        WW = max(x.size(), NW)
        return z3.Extract(x.size() - 1, 0, z3.LShR(zx(x, WW), zx(k, WW)))

    def drive(self, word_to_send_now):
        c, C, W = self.c, self.C, self.W
        gs, n, cs, edge = self.gs, self.n, self.cs, self.edge
        ph = lambda k: gs == k
        pv = lambda k: bvc(k, 3)
        shift_in = lambda x: z3.Concat(bits(x, x.size() - 2, 0), self.sdi) if x.size() > 1 else self.sdi
        cmd_more, data_more = z3.ULT(n, C), z3.ULT(n, W)
        self.cmd_complete = z3.And(ph(CMD), z3.Not(cmd_more))
        self.complete = z3.And(ph(DATA), z3.Not(data_more))
        self.abort = z3.Or(z3.And(ph(CMD), cmd_more, z3.Not(cs)), z3.And(ph(DATA), data_more, z3.Not(cs)))
        c.set_next(self.prev, self.sck)
        c.set_next(gs, z3.If(ph(WAIT), z3.If(cs, pv(WAIT), pv(IDLE)),
                       z3.If(ph(IDLE), z3.If(cs, pv(CMD), pv(IDLE)),
                       z3.If(ph(CMD), z3.If(cmd_more, z3.If(cs, pv(CMD), pv(IDLE)), pv(T1)),
                       z3.If(ph(T1), pv(T2),
                       z3.If(ph(T2), pv(DATA),
                             z3.If(data_more, z3.If(cs, pv(DATA), pv(IDLE)), pv(WAIT))))))))
        counting = z3.Or(z3.And(ph(CMD), cmd_more), z3.And(ph(DATA), data_more))
        c.set_next(n, z3.If(z3.Or(ph(IDLE), self.cmd_complete, self.complete), bvc(0, NW),
                            z3.If(z3.And(counting, edge), n + 1, n)))
        c.set_next(self.csh, z3.If(z3.And(ph(CMD), cmd_more, edge), shift_in(self.csh), self.csh))
        c.set_next(self.cmd, z3.If(self.cmd_complete, self.csh, self.cmd))
        c.set_next(self.rv, z3.If(ph(T2), word_to_send_now, self.rv))
        c.set_next(self.rx, z3.If(ph(T2), bvc(0, W), z3.If(z3.And(ph(DATA), data_more, edge), shift_in(self.rx), self.rx)))
        c.set_next(self.done, z3.If(self.complete, bvc(1, 1), bvc(0, 1)))

    def invariants(self):
        c, ts, p, C, W = self.c, self.ts, self.prefix, self.C, self.W
        gs, n = self.gs, self.n
        fsm = ts.fsm(p + "fsm_state")
        c.inv("fsm_legal", fsm.legal())
        c.inv("phase_legal", z3.ULE(gs, DATA))
        for name, k in (("STALL", WAIT), ("IDLE", IDLE), ("RECEIVE_COMMAND", CMD), ("PROCESSING", T1), ("LATCH_OUTPUT", T2), ("SHIFT_DATA", DATA)):
            c.inv(f"state_{name}_iff_phase", fsm.is_(name) == (gs == k))
        c.inv("edge_detector", ts.sig(p + "past_sck") == self.prev)
        c.inv("bit_count_is_bits_exchanged", zx(ts.sig(p + "bit_count"), NW) == n)
        c.inv("command_bits_in_range", z3.Implies(gs == CMD, z3.ULE(n, C)))
        c.inv("data_bits_in_range", z3.Implies(gs == DATA, z3.ULE(n, W)))
        c.inv("turnaround_count_zero", z3.Implies(z3.Or(gs == T1, gs == T2), n == 0))
        c.inv("command_shift_register", ts.sig(p + "current_command") == self.csh)
        c.inv("command_register", ts.sig(p + "command") == self.cmd)
        c.inv("command_ready_in_first_turnaround_cycle", (ts.sig(p + "command_ready") == 1) == (gs == T1))
        c.inv("received_bits_below_count", z3.Implies(gs == DATA, self.lshr(self.rx, n) == 0))
        c.inv("word_shift_register_is_unsent_read_bits_then_received_bits",
              z3.Implies(gs == DATA, ts.sig(p + "current_word") == (self.shl(self.rv, n) | self.rx)))
        c.inv("word_complete_register", (ts.sig(p + "word_complete") == 1) == (self.done == 1))
        c.inv("done_only_in_wait", z3.Implies(self.done == 1, gs == WAIT))
        c.inv("word_received_is_transmitted_word", z3.Implies(self.done == 1, ts.sig(p + "word_received") == self.rx))

    def ensure_sdo(self, sdo):
        c, W = self.c, self.W
        for j in range(W):
            c.ensure(f"sdo_returns_read_value_bit_{W - 1 - j}", z3.Implies(z3.And(self.gs == DATA, self.n == j), c.nx(sdo) == bits(self.rv, W - 1 - j)),
                     clause="a register transaction reads back the current value of the addressed register (bit by bit, MSB first, "
                            "each bit on sdo from the cycle after the previous bit was clocked)")
        c.ensure("sdo_changes_only_in_data_phase", z3.Implies(self.gs != DATA, c.nx(sdo) == sdo), clause="(frame) sdo is only driven while data is exchanged")


def registers(address_size, register_size, default):
    def contract(c):
        A, W, C = address_size, register_size, address_size + 1
        d = SPIRegisterInterface(address_size=A, register_size=W, default_read_value=default, support_size_autonegotiation=True)
        r1 = d.add_register(1, name="r1")
        r2_rs, r2_ws = Signal(name="r2_rs"), Signal(name="r2_ws")
        r2 = d.add_register(2, name="r2", read_strobe=r2_rs, write_strobe=r2_ws, init=5 % (1 << W))
        s5_read, s5_wv, s5_ws, s5_rs = Signal(W, name="s5_read"), Signal(W, name="s5_wv"), Signal(name="s5_ws"), Signal(name="s5_rs")
        d.add_sfr(5, read=s5_read, write_signal=s5_wv, write_strobe=s5_ws, read_strobe=s5_rs)
        s6_wv, s6_ws = Signal(W, name="s6_wv"), Signal(name="s6_ws")
        d.add_sfr(6, write_signal=s6_wv, write_strobe=s6_ws)                      # write-only: reads the default
        ts = c.unit(d, {"i_sck": d.spi.sck, "i_sdi": d.spi.sdi, "i_cs": d.spi.cs, "o_sdo": d.spi.sdo, "o_idle": d.idle, "o_stalled": d.stalled,
                        "i_s5_read": s5_read, "o_s5_wv": s5_wv, "o_s5_ws": s5_ws, "o_s5_rs": s5_rs, "o_s6_wv": s6_wv, "o_s6_ws": s6_ws,
                        "o_r2_rs": r2_rs, "o_r2_ws": r2_ws, "o_r1": r1, "o_r2": r2})
        I, O = ts.inputs, ts.outputs
        P = Protocol(c, ts, I, C, W, prefix="interface.")
        ones = bvc((1 << W) - 1, W)
        dflt = bvc(default % (1 << W), W)
        addr = P.addr
        read_now = z3.If(addr == 0, ones, z3.If(addr == 1, O["o_r1"], z3.If(addr == 2, O["o_r2"], z3.If(addr == 5, I["i_s5_read"], dflt))))
        P.drive(read_now)
        P.invariants()
        # ---- read back
        P.ensure_sdo(O["o_sdo"])
        # ---- write: exactly the addressed register, transmitted value, strobe once
        wr = lambda k: z3.And(P.done == 1, P.is_write, addr == k)
        rd = lambda k: z3.And(P.done == 1, z3.Not(P.is_write), addr == k)
        r1_ws = ts.sig("r1_write_strobe")
        for k, val, ws_ in ((1, O["o_r1"], r1_ws), (2, O["o_r2"], O["o_r2_ws"])):
            c.ensure(f"register{k}_write_strobe_iff_completed_write_to_it", (ws_ == 1) == wr(k),
                     clause="for a write ... strobes its write signal once (only for the addressed register, only when the whole transaction completed)")
            c.ensure(f"register{k}_updated_only_by_completed_write_with_transmitted_value", c.nx(val) == z3.If(wr(k), P.rx, val),
                     clause="for a write, updates exactly that register with the transmitted value; an aborted transaction changes nothing")
        for k in (5, 6):
            c.ensure(f"sfr{k}_write_strobe_iff_completed_write_to_it", (O[f"o_s{k}_ws"] == 1) == wr(k),
                     clause="strobes its write signal once")
            c.ensure(f"sfr{k}_write_value_is_transmitted_value", z3.Implies(wr(k), O[f"o_s{k}_wv"] == P.rx), clause="with the transmitted value")
        c.ensure("register2_read_strobe_iff_completed_read", (O["o_r2_rs"] == 1) == rd(2), clause="(read strobe) once per completed read of that register")
        c.ensure("sfr5_read_strobe_iff_completed_read", (O["o_s5_rs"] == 1) == rd(5), clause="(read strobe) once per completed read of that register")
        strobes = [r1_ws, O["o_r2_ws"], O["o_s5_ws"], O["o_s6_ws"], O["o_r2_rs"], O["o_s5_rs"]]
        c.ensure("strobe_lasts_one_cycle", z3.Implies(P.done == 1, c.nx(P.done) == 0), clause="strobes its write signal once")
        c.ensure("no_completion_no_effect", z3.Implies(P.done == 0, z3.And(*[s == 0 for s in strobes], c.nx(O["o_r1"]) == O["o_r1"], c.nx(O["o_r2"]) == O["o_r2"])),
                 clause="an aborted transaction changes nothing (nothing changes unless a transaction has just completed)")
        c.ensure("idle_and_stalled_flags", z3.And((O["o_idle"] == 1) == (P.gs == IDLE), (O["o_stalled"] == 1) == (P.gs == WAIT)),
                 clause="(status) idle / stalled")
        one = 2 * (C + W) + 12                       # cycles needed for one complete transaction (2 cycles per sck period at least)
        r1c, r2c = one <= 80, 2 * one <= 80
        c.cover("write_register1_nonzero", z3.And(wr(1), P.rx != 0), reach=r1c)
        c.cover("write_sfr6", wr(6), reach=r1c)
        c.cover("read_register2", rd(2), reach=r1c)
        c.cover("read_unassigned_returns_default_bit", z3.And(P.gs == DATA, addr == 3, P.n == 1, P.rv == dflt), reach=r1c)
        c.cover("abort_in_data_phase", z3.And(P.abort, P.gs == DATA, P.n == W - 1, P.is_write), reach=r1c)
        c.cover("read_back_written_value", z3.And(P.gs == DATA, addr == 1, P.rv != 0, P.n == W - 1), reach=r2c)
        c.cover("command_phase", z3.And(P.gs == CMD, P.n == 1))
        c.cover_depth = min(2 * one, 80) if r2c else (one if r1c else 12)
        c.bmc_depth = max(c.bmc_depth, min(one + 2, 80))
    return contract


def command(command_size, word_size):
    def contract(c):
        C, W = command_size, word_size
        d = SPICommandInterface(command_size=C, word_size=W)
        ts = c.unit(d, {"i_sck": d.spi.sck, "i_sdi": d.spi.sdi, "i_cs": d.spi.cs, "o_sdo": d.spi.sdo, "i_word_to_send": d.word_to_send,
                        "o_command": d.command, "o_command_ready": d.command_ready, "o_word_received": d.word_received,
                        "o_word_complete": d.word_complete, "o_idle": d.idle, "o_stalled": d.stalled})
        I, O = ts.inputs, ts.outputs
        P = Protocol(c, ts, I, C, W)
        P.drive(I["i_word_to_send"])
        P.invariants()
        P.ensure_sdo(O["o_sdo"])
        c.ensure("command_ready_once_per_complete_command", (O["o_command_ready"] == 1) == (P.gs == T1), clause="command strobe once per received command")
        c.ensure("command_is_received_command", z3.Implies(O["o_command_ready"] == 1, O["o_command"] == P.cmd), clause="command = the C bits clocked in, MSB first")
        c.ensure("word_complete_iff_transaction_completed", (O["o_word_complete"] == 1) == (P.done == 1), clause="word strobe once per completed transaction; never for an aborted one")
        c.ensure("word_received_is_transmitted_word", z3.Implies(P.done == 1, O["o_word_received"] == P.rx), clause="the transmitted value")
        c.ensure("word_received_frame", z3.Implies(z3.Not(P.complete), c.nx(O["o_word_received"]) == O["o_word_received"]), clause="an aborted transaction changes nothing")
        c.ensure("command_frame", z3.Implies(z3.Not(P.cmd_complete), c.nx(O["o_command"]) == O["o_command"]), clause="(frame) command changes only when a command completes")
        c.ensure("idle_and_stalled_flags", z3.And((O["o_idle"] == 1) == (P.gs == IDLE), (O["o_stalled"] == 1) == (P.gs == WAIT)), clause="(status)")
        one = 2 * (C + W) + 12
        r1c = one <= 80
        c.cover("transaction_completed_nonzero", z3.And(P.done == 1, P.rx != 0, P.cmd != 0), reach=r1c)
        c.cover("abort_in_command", z3.And(P.abort, P.gs == CMD, P.n != 0) if C > 1 else z3.And(P.abort, P.gs == CMD))
        c.cover_depth = one if r1c else 12
    return contract


def contracts(tier):
    # (address spaces larger than the highest register in use: unassigned addresses whose low bits match a register)
    regs = [(5, 4, 0b1010)] if tier == "quick" else [(5, 4, 0b1010), (3, 4, 0b1010), (7, 8, 0), (3, 8, 0xA5), (15, 32, 0), (7, 16, 0xFFFF)]
    for a, w, dv in regs:
        yield ("SPIRegisterInterface", f"addr{a}_reg{w}_default{dv:x}", registers(a, w, dv))
    cmds = [(4, 4), (3, 5)] if tier == "quick" else [(4, 4), (3, 5), (8, 8), (8, 32), (16, 8), (1, 1), (2, 7)]
    for cs_, ws in cmds:
        yield ("SPICommandInterface", f"cmd{cs_}_word{ws}", command(cs_, ws))
