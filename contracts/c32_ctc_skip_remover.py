"""C32 — receive CTC (CTCSkipRemover) removes exactly the SKP symbols and nothing else.

Observer's view (ghosts, defined from the sink/source streams only):

    n_in    number of non-SKP symbols accepted so far (sink.valid & sink.ready, symbols of a word counted in lane order
            0..3), modulo 2^16
    n_out   number of symbols delivered so far (4 per source.valid & source.ready), modulo 2^16
    k       rigid: an arbitrary symbol index;  v / seen: the {ctrl,data} of the most recent accepted non-SKP symbol whose
            index is k (mod 2^16) / whether there has been one

Only the difference n_in - n_out (the symbols inside the unit, proved <= 7) is ever compared, so the modulus is harmless.
k is arbitrary, hence "output symbol number n equals non-SKP input symbol number n" holds for every n: same order, nothing
lost, nothing duplicated, nothing invented, no SKP passed on.  "Nothing lost" in the non-liveness reading: the unit never
refuses input, holds at most 7 symbols, and emits a word in exactly the cycles in which it holds 4 or more.

Abstraction map: the `p = n_in - n_out` pending symbols are the top p bytes of the 8-byte shift register (oldest at byte
8-p), `bytes_in_buffer == p`.
"""
import z3
from hwv.contract import B, bvc, bits, zx
from luna.gateware.usb.usb3.physical.ctc import CTCSkipRemover

SKP_SYM = (1 << 8) | 0x3C          # K28.1: ctrl=1, data=0x3C  (USB 3.2 table 6-2)
W = 16


def contract(c):
    d = CTCSkipRemover()
    ts = c.unit(d, {"sink_data": d.sink.data, "sink_ctrl": d.sink.ctrl, "sink_valid": d.sink.valid,
                    "sink_ready": d.sink.ready,
                    "source_data": d.source.data, "source_ctrl": d.source.ctrl, "source_valid": d.source.valid,
                    "source_ready": d.source.ready,
                    "skip_removed": d.skip_removed, "bytes_in_buffer": d.bytes_in_buffer})
    I, O = ts.inputs, ts.outputs
    dbuf, cbuf = ts.sig("data_buffer"), ts.sig("ctrl_buffer")
    # the fill counter register (the public `bytes_in_buffer` attribute is a narrower combinational copy of it)
    nbuf = [x for x in ts.state.values() if str(x) == "bytes_in_buffer"][0]

    c.require("downstream_always_ready", I["source_ready"] == 1,
              why="property statement: 'with the downstream always ready, as it is wired in the physical layer'")

    def isym(i):
        return z3.Concat(bits(I["sink_ctrl"], i), bits(I["sink_data"], 8 * i + 7, 8 * i))

    def osym(j):
        return z3.Concat(bits(O["source_ctrl"], j), bits(O["source_data"], 8 * j + 7, 8 * j))

    def bsym(j):
        return z3.Concat(bits(cbuf, j), bits(dbuf, 8 * j + 7, 8 * j))

    skp = bvc(SKP_SYM, 9)
    accept = z3.And(I["sink_valid"] == 1, O["sink_ready"] == 1)
    deliver = z3.And(O["source_valid"] == 1, I["source_ready"] == 1)

    n_in, n_out = c.ghost("n_in", W), c.ghost("n_out", W)
    k = c.rigid("k", W)
    v = c.ghost("v", 9)
    seen = c.ghost("seen", 1)
    cnt, v_n, seen_n = n_in, v, seen
    for i in range(4):
        take = z3.And(accept, isym(i) != skp)
        hit = z3.And(take, cnt == k)
        v_n = z3.If(hit, isym(i), v_n)
        seen_n = z3.If(hit, bvc(1, 1), seen_n)
        cnt = z3.If(take, cnt + 1, cnt)
    c.set_next(n_in, cnt)
    c.set_next(v, v_n)
    c.set_next(seen, seen_n)
    c.set_next(n_out, z3.If(deliver, n_out + 4, n_out))

    pending = n_in - n_out
    off = k - n_out                      # position of the witness relative to the next symbol to be delivered
    nb = zx(nbuf, W)

    # ---------------------------------------------------------------- abstraction invariant
    c.inv("fill_is_pending_symbols", nb == pending)
    c.inv("at_most_7_pending", z3.ULE(pending, 7))
    c.inv("unseen_witness_not_inside", z3.Implies(seen == 0, z3.Not(z3.ULT(off, pending))))
    c.inv("witness_is_not_skp", z3.Implies(seen == 1, v != skp))
    live = z3.And(seen == 1, z3.ULT(off, pending))
    c.inv("witness_position_in_buffer", z3.Implies(live, z3.Or(*[
        z3.And(pending == n, off == o, bsym(8 - n + o) == v) for n in range(1, 8) for o in range(n)])))

    # ---------------------------------------------------------------- ensures (statement)
    c.ensure("output_symbol_n_is_nonskp_input_symbol_n",
             z3.Implies(z3.And(deliver, z3.ULT(off, 4)),
                        z3.And(seen == 1, z3.Or(*[z3.And(off == j, osym(j) == v) for j in range(4)]))),
             clause="the output is the input symbol sequence with every SKP symbol removed, in the same order, without "
                    "loss or duplication (k arbitrary: the symbol delivered as number k is the k-th non-SKP symbol accepted)")
    c.ensure("no_skp_in_output",
             z3.Implies(z3.And(deliver, z3.ULT(off, 4)), z3.Or(*[z3.And(off == j, osym(j) != skp) for j in range(4)])),
             clause="every SKP symbol removed (k arbitrary: no delivered symbol is a SKP)")
    c.ensure("word_emitted_exactly_when_four_symbols_pending", (O["source_valid"] == 1) == z3.UGE(pending, 4),
             clause="regrouped into 4-symbol words; without loss (a full word is delivered as soon as, and only when, "
                    "four undelivered symbols are held)")
    c.ensure("never_more_than_7_symbols_held", z3.ULE(c.nx(pending), 7),
             clause="without loss (bounded latency: at most 7 symbols are ever inside the stage)")
    c.ensure("input_never_refused", O["sink_ready"] == 1,
             clause="without loss (the stage cannot stall the PHY; every input word is taken)")
    any_skp = z3.Or(*[isym(i) == skp for i in range(4)])
    c.ensure("skip_removed_iff_accepted_word_has_skp", (O["skip_removed"] == 1) == z3.And(I["sink_valid"] == 1, any_skp),
             clause="(docstring of the unit) skip_removed strobes when a SKP is removed")

    c.ensure("diagnostic_fill_output", zx(O["bytes_in_buffer"], W) == pending,
             clause="(diagnostic output of the unit) bytes_in_buffer is the number of symbols held")

    # ---------------------------------------------------------------- vacuity
    c.cover("witness_delivered_in_lane_1", z3.And(deliver, seen == 1, off == 1, z3.UGT(k, 8)))
    c.cover("witness_delivered_in_lane_3", z3.And(deliver, seen == 1, off == 3, z3.UGT(k, 8)))
    c.cover("seven_pending", pending == 7)
    c.cover("all_skp_word", z3.And(I["sink_valid"] == 1, *[isym(i) == skp for i in range(4)]))
    c.cover("skp_in_lane_2_only", z3.And(I["sink_valid"] == 1, isym(2) == skp, isym(0) != skp, isym(1) != skp, isym(3) != skp,
                                         pending == 5))
    c.cover_depth = 12


# ------------------------------------------------------------------------------------------------ caller side
def physical_layer_wiring(c):
    """USB3PhysicalLayer.elaborate() (real parent, open PIPE interface, every interface signal a free input; see
    c31.PhysicalLayerUnits): the CTCSkipRemover instance takes a PHY receive word every cycle, its downstream (the word aligner) is
    always ready - the statement's 'as it is wired in the physical layer', i.e. the unit contract's require - its output is the
    word aligner's input, and its diagnostic outputs are the layer's."""
    from .c31_scrambling import PhysicalLayerUnits, lemmas_receive_chain_head
    U = PhysicalLayerUnits(c)
    lemmas_receive_chain_head(c, U)
    c.lemma("layer_diagnostics_are_the_skip_removers",
            z3.And(U.S(U.d.skip_removed, U.rx_ctc.skip_removed), U.shows(U.d.ctc_bytes_in_buffer, U.rx_ctc.bytes_in_buffer)),
            clause="(diagnostic outputs) the layer's skip_removed / ctc_bytes_in_buffer are the unit's (the latter zero-extended, never truncated)")


def contracts(tier):
    yield ("CTCSkipRemover", "", contract)
    yield ("USB3PhysicalLayer", "wiring_rx_ctc", physical_layer_wiring)
