"""W6 — caller-side ("call" / wiring) obligations for the utility wrappers around leaf units that are already under contract.

C56 (debug/ila.py).  The leaf contract (c56_ila.py: `make`) covers IntegratedLogicAnalyzer alone.  The wrappers in the same file
are what a user instantiates; they create the analyzer, pass the parameters down, gate its trigger and read its buffer back:

  * `stream_ila(D, P, domain, widths)`      StreamILA with the REAL IntegratedLogicAnalyzer inside (located with ts.instance).
        - call obligations on the child's ports: its trigger input is the wrapper's trigger while the wrapper is idle and 0
          otherwise; the leaf contract re-proved on the child *with the wrapper's parameters and the wrapper's input ports*
          (capture lasts exactly D cycles, the value recorded is the wrapper's inputs P cycles ago at full width, complete,
          buffer word n written exactly once per capture) — a sample_depth / samples_pretrigger / signals / domain that did
          not reach the child refutes these; the read address presented to the child is the number of words already
          transferred (0, 1, .. D-1 in order);
        - end to end at the stream: the n-th word transferred after a trigger is the n-th recorded sample (rigid witness
          index n, value v captured when the spec sequencer records sample n), zero-extended to the power-of-two payload;
          first / last framing; valid only while sending; the read-out ends with the D-th transfer; a trigger while capturing
          or sending reaches nothing (the child's trigger is 0, buffer word n is not written).
  * `sync_serial_ila(D, P, widths)`         SyncSerialILA (IntegratedLogicAnalyzer + SPIDeviceInterface, both real).
  * `async_serial_ila_wiring(...)`          AsyncSerialILA: the stream hookup StreamILA -> UARTMultibyteTransmitter and the
                                            parameters reaching both children (connections only; each child has its own contract).

C52 (interface/i2c.py): `i2c_register_interface_wiring` — I2CRegisterInterface drives the real I2CInitiator's strobes only
while the initiator's `busy` is low (the one `require` of the C52 leaf contract), at most one strobe per cycle, and passes
pads / period_cyc / clk_stretch down.

Spec ghosts of the StreamILA contract (functions of the wrapper's ports only):
    phase      : IDLE / CAPT / SEND.  IDLE --trigger--> CAPT;  CAPT --capture finished (done)--> SEND;  SEND --D-th transfer--> IDLE
    busy,k,done: the leaf's capture sequencer, started only by a trigger in phase IDLE
    h[j], rec  : input history, rec = x(t-P) = the value recorded in a busy cycle
    n, v, have : rigid witness index, the value recorded when busy & k == n
    w          : words transferred (valid & ready) in the current read-out
    dv         : the as-built handshake timing: a word is offered, and after it was taken the next one is offered from the
                 second cycle on in which `ready` is seen (the buffer's read port is synchronous)
"""
import z3
from amaranth import Signal
from hwv.contract import B, zx, bvc, bv1, BindingError
from luna.gateware.debug.ila import IntegratedLogicAnalyzer, StreamILA, SyncSerialILA, AsyncSerialILA

KW = 16
IDLE, CAPT, SEND = 0, 1, 2


def _one(ts, suffix):
    """Path of the one signal whose hierarchical name ends in `suffix` — independent of the names the parent gave to its
    submodules (a renamed `m.submodules.x` must not unbind the contract)."""
    r = ts.find(suffix)
    if len({id(ts.paths[p]) for p in r}) != 1:
        raise BindingError(f"expected exactly one signal named {suffix!r} in the design, found {r}")
    return r[0]


def eqz(a, b):
    """a == b, the narrower side zero-extended: a register / port that has come out narrower than the parameters of the contract
    say (a width or a signal list that did not reach a child) refutes the clause instead of breaking the contract's construction."""
    W = max(a.size(), b.size())
    return zx(a, W) == zx(b, W)


def _mem(ts, suffix):
    r = [p for p in ts.mems if p == suffix or p.endswith("." + suffix)]
    if len(r) != 1:
        raise BindingError(f"expected exactly one memory named {suffix!r}, found {r}")
    return ts.mem(r[0])


def _clock_domains_lemma(c, ts, domain):
    want = "clk" if domain == "sync" else f"{domain}_clk"
    c.lemma("unit_is_clocked_by_the_requested_domain_only", z3.BoolVal(sorted(ts.clock_inputs) == [want]),
            clause=f"parameter reaching the children: domain — every register, the sample memory and its ports are clocked by "
                   f"'{domain}' (clock inputs of the elaborated unit: {sorted(ts.clock_inputs)})")


class Core:
    """The leaf contract of IntegratedLogicAnalyzer, stated on a child instance inside a parent: ghosts from the PARENT's ports
    (x = the parent's sample inputs, trig = the trigger the parent is supposed to forward), invariants over the child's registers,
    the leaf's ensures over the child's ports."""

    def __init__(self, c, ts, ila, x, trig, D, P):
        self.c, self.ts, self.ila, self.D, self.P = c, ts, ila, D, P
        SW = self.SW = x.size()
        busy = self.busy = c.ghost("busy", 1, init=0)
        k = self.k = c.ghost("k", KW, init=0)
        done = self.done = c.ghost("done", 1, init=0)
        last = self.last = k == D - 1
        accept = self.accept = z3.And(busy == 0, trig)
        c.set_next(busy, z3.If(busy == 1, z3.If(last, bvc(0, 1), bvc(1, 1)), z3.If(trig, bvc(1, 1), bvc(0, 1))))
        c.set_next(k, z3.If(z3.And(busy == 1, z3.Not(last)), k + 1, bvc(0, KW)))
        c.set_next(done, z3.If(z3.And(busy == 1, last), bvc(1, 1), z3.If(accept, bvc(0, 1), done)))
        h = [c.ghost(f"h{j}", SW, init=0) for j in range(P)]
        for j in range(P):
            c.set_next(h[j], x if j == 0 else h[j - 1])
        rec = self.rec = x if P == 0 else h[P - 1]
        AW = self.AW = max(1, (D - 1).bit_length())
        n = self.n = c.rigid("n", AW)
        c.require("witness_index_in_range", z3.ULT(zx(n, AW + 1), D))      # restricts the proof's own index, not the environment
        v = self.v = c.ghost("v", SW, init=0)
        have = self.have = c.ghost("have", 1, init=0)
        hit = self.hit = z3.And(busy == 1, k == zx(n, KW))
        c.set_next(v, z3.If(hit, rec, v))
        c.set_next(have, z3.If(hit, bvc(1, 1), have))

        fsm = self.fsm = ts.fsm(_one(ts, "ila_state_state"))
        mem, cell = _mem(ts, "ila_buffer")
        maw = mem.sort().domain().size()
        word_n = self.word_n = z3.Select(mem, zx(n, maw))
        c.inv("ila_fsm_legal", fsm.legal())
        c.inv("ila_sample_state_iff_capturing", fsm.is_("SAMPLE") == (busy == 1))
        c.inv("count_in_range", z3.ULT(k, D))
        c.inv("not_capturing_count_zero", z3.Implies(busy == 0, k == 0))
        c.inv("done_excludes_capturing", z3.Not(z3.And(busy == 1, done == 1)))
        c.inv("ila_write_enable_iff_capturing", (ts.sig(_one(ts, "write_port__en")) == 1) == (busy == 1))
        if D > 1:
            c.inv("ila_write_position_is_count", z3.Implies(busy == 1, zx(ts.sig(_one(ts, "write_position")), KW) == k))
        c.inv("ila_complete_register_is_done", (ts.of(ila.complete) == 1) == (done == 1))
        # (the delay pipeline's registers exist or not depending on samples_pretrigger: incidental registers, see Ctx.try_inv —
        #  a pre-trigger count that did not reach the child then refutes the recording clause instead of unbinding the contract)
        if P >= 1:
            c.try_inv("ila_delayed_inputs_is_history", lambda: eqz(ts.sig(_one(ts, "delayed_inputs")), h[P - 1]))
        for j in range(P - 1):
            c.try_inv(f"ila_synchronizer_stage{j}_is_history", lambda j=j: eqz(ts.sig(_one(ts, f"stage{j}")), h[j]))
        c.inv("witness_word_holds_recorded_sample", z3.Implies(have == 1, eqz(word_n, v)))
        c.inv("witness_recorded_once_passed", z3.Implies(z3.And(busy == 1, z3.UGT(k, zx(n, KW))), have == 1))
        c.inv("witness_recorded_when_done", z3.Implies(done == 1, have == 1))

    def ensures(self, number_is_n, what):
        """The leaf's clauses at the child's ports (what = how the parent's ports are named in the clause text)."""
        c, ts, ila = self.c, self.ts, self.ila
        busy, done, last, hit, rec, v, word_n = self.busy, self.done, self.last, self.hit, self.rec, self.v, self.word_n
        sampling, complete = ts.of(ila.sampling), ts.of(ila.complete)
        c.ensure("sampling_iff_capturing", (sampling == 1) == (busy == 1),
                 clause=f"after a trigger {what}, records exactly sample_depth consecutive samples (sampling is high for exactly those cycles)")
        c.ensure("capture_ends_after_exactly_depth_samples", z3.Implies(sampling == 1, (c.nx(sampling) == 0) == last),
                 clause="records exactly sample_depth consecutive samples (parameter reaching the child: sample_depth)")
        c.ensure("complete_iff_capture_finished", (complete == 1) == (done == 1),
                 clause="raises 'complete' (from the end of the capture until the next accepted trigger)")
        c.ensure("buffer_word_written_exactly_when_its_sample_is_taken",
                 z3.And(z3.Implies(hit, eqz(c.nx(word_n), rec)), z3.Implies(z3.Not(hit), c.nx(word_n) == word_n)),
                 clause=f"records ... samples of its inputs (delayed by the configured pre-trigger count): the child's sample input is "
                        f"{what}'s inputs at full width, samples_pretrigger reaches the child; nothing is written outside a capture, "
                        f"so no trigger during capture or read-out disturbs the buffer")
        if number_is_n is not None:
            c.ensure("readback_returns_nth_recorded_sample",
                     z3.Implies(z3.And(done == 1, number_is_n), eqz(c.nx(ts.of(ila.captured_sample)), v)),
                     clause="reading back sample n returns the n-th recorded sample (at the child's read port)")


def _inputs(widths):
    return [Signal(w, name=f"in{i}") for i, w in enumerate(widths)]


def _x(I, nsig):
    return z3.Concat(*[I[f"in{i}"] for i in reversed(range(nsig))]) if nsig > 1 else I["in0"]


def _param_lemma(c, ila, D, P, SW, sigs):
    c.lemma("child_parameters_are_the_wrappers",
            z3.BoolVal(ila.sample_depth == D and ila.samples_pretrigger == P and ila.sample_width == SW
                       and len(ila.signals) == len(sigs) and all(a is b for a, b in zip(ila.signals, sigs))),
            clause="parameters reaching the child: sample_depth, samples_pretrigger and the very signals handed to the wrapper "
                   "(the behavioural clauses re-prove the same on the netlist)")


# ============================================================================================================== StreamILA
def stream_ila(D, P, domain="sync", widths=(4, 1)):
    def contract(c):
        sigs = _inputs(widths)
        d = StreamILA(signals=sigs, sample_depth=D, samples_pretrigger=P, domain=domain)
        ports = {f"in{i}": s for i, s in enumerate(sigs)}
        ports.update({"trigger": d.trigger, "ready": d.stream.ready, "valid": d.stream.valid, "payload": d.stream.payload,
                      "first": d.stream.first, "last": d.stream.last, "sampling": d.sampling, "complete": d.complete})
        ts = c.unit(d, ports)
        c.functions.append("luna.gateware.debug.ila.IntegratedLogicAnalyzer.elaborate (instance inside StreamILA)")
        I, O = ts.inputs, ts.outputs
        ila = ts.instance(IntegratedLogicAnalyzer)
        SW = sum(widths)
        BW = 2 ** ((SW - 1).bit_length())
        x = _x(I, len(sigs))
        trig, ready = I["trigger"] == 1, I["ready"] == 1

        phase = c.ghost("phase", 2, init=IDLE)
        w = c.ghost("w", KW, init=0)
        dv = c.ghost("dv", 1, init=1)
        idle, capt, send = phase == IDLE, phase == CAPT, phase == SEND
        accept = z3.And(idle, trig)
        core = Core(c, ts, ila, x, accept, D, P)
        busy, done, n, v, have = core.busy, core.done, core.n, core.v, core.have
        xfer = z3.And(O["valid"] == 1, ready)
        last_xfer = z3.And(send, xfer, w == D - 1)
        pv = lambda p: bvc(p, 2)
        c.set_next(phase, z3.If(idle, z3.If(trig, pv(CAPT), pv(IDLE)),
                           z3.If(capt, z3.If(done == 1, pv(SEND), pv(CAPT)),
                                 z3.If(last_xfer, pv(IDLE), pv(SEND)))))
        c.set_next(w, z3.If(send, z3.If(last_xfer, bvc(0, KW), z3.If(xfer, w + 1, w)), bvc(0, KW)))
        c.set_next(dv, z3.If(z3.And(send, ready), ~dv, dv))

        # ---- refinement map of the wrapper's own registers
        fsm = ts.fsm("fsm_state")
        c.inv("fsm_legal", fsm.legal())
        c.inv("phase_legal", z3.ULE(phase, SEND))
        for name, p in (("IDLE", IDLE), ("SAMPLING", CAPT), ("SENDING", SEND)):
            c.inv(f"state_{name}_iff_phase", fsm.is_(name) == (phase == p))
        c.inv("idle_means_no_capture_running", z3.Implies(idle, busy == 0))
        c.inv("waiting_means_capturing_or_just_finished", z3.Implies(capt, z3.Or(busy == 1, done == 1)))
        c.inv("sending_means_capture_finished", z3.Implies(send, z3.And(busy == 0, done == 1)))
        c.inv("words_sent_in_range", z3.And(z3.ULT(w, D), z3.Implies(z3.Not(send), w == 0)))
        c.inv("offer_flag_register", ts.sig("data_valid") == dv)
        c.inv("first_register", O["first"] == bv1(z3.And(send, w == 0)))
        rp = ts.of(ila.captured_sample)
        if D > 1:
            addr = ts.of(ila.captured_sample_number)
            AW = addr.size()
            c.inv("read_address_is_words_sent", z3.Implies(send, zx(addr, KW) == w))
            c.inv("first_readout_starts_at_address_zero", z3.Implies(z3.And(z3.Not(send), dv == 1), addr == 0))
            at_n = w == zx(n, KW)
        else:
            at_n = z3.BoolVal(True)
        c.inv("offered_word_is_the_addressed_sample", z3.Implies(z3.And(send, dv == 1, at_n), eqz(rp, v)))
        mem, _cell = _mem(ts, "ila_buffer")
        maw = mem.sort().domain().size()
        c.inv("offered_word_is_the_addressed_buffer_word",
              z3.Implies(z3.And(send, dv == 1), rp == z3.Select(mem, zx(addr, maw) if D > 1 else bvc(0, maw))))

        # ---- call obligations: what the child sees
        c.ensure("inner_trigger_is_wrapper_trigger_only_while_idle", ts.of(ila.trigger) == bv1(accept),
                 clause="caller-side: the inner analyzer's trigger input is the wrapper's trigger while the wrapper is idle and 0 while it "
                        "is waiting for the capture or sending (no trigger reaches the analyzer before its buffer has been read out)")
        core.ensures((zx(ts.of(ila.captured_sample_number), KW) == zx(n, KW)) if D > 1 else z3.BoolVal(True), "at the wrapper")
        _param_lemma(c, ila, D, P, SW, sigs)
        _clock_domains_lemma(c, ts, domain)
        if D > 1:
            c.ensure("read_address_walks_the_buffer_in_order", z3.Implies(send, zx(ts.of(ila.captured_sample_number), KW) == w),
                     clause="caller-side: the read address presented to the analyzer while sending is the number of words already "
                            "transferred in this read-out: 0, 1, .. sample_depth-1 in order")
        c.lemma("payload_is_the_read_port_zero_extended", z3.And(O["payload"].size() == BW, eqz(O["payload"], rp)),
                clause="widths: the stream payload is bits_per_sample = sample_width rounded up to a power of two, the sample in its low bits")

        # ---- end to end at the stream
        c.ensure("nth_word_transferred_is_nth_recorded_sample", z3.Implies(z3.And(xfer, at_n), eqz(O["payload"], v)),
                 clause="reading back sample n returns the n-th recorded sample: the n-th word transferred on the stream after a trigger is "
                        "the n-th sample recorded after that trigger")
        c.ensure("valid_only_while_sending", z3.Implies(O["valid"] == 1, z3.And(send, have == 1)),
                 clause="stream.valid only while a completed capture is being read out")
        c.ensure("valid_is_the_offer_flag_while_sending", (O["valid"] == 1) == z3.And(send, dv == 1),
                 clause="[as-built handshake timing, not a clause of the statement] a word is offered until taken; the next one is offered "
                        "from the second cycle in which ready is seen (synchronous read port)")
        c.ensure("first_marks_word_zero", (O["first"] == 1) == z3.And(send, w == 0), clause="framing: `first` exactly on word 0 of a read-out")
        c.ensure("last_marks_word_depth_minus_one", (O["last"] == 1) == z3.And(send, w == D - 1),
                 clause="framing: `last` exactly on word sample_depth-1 of a read-out")
        c.ensure("exactly_depth_words_per_trigger",
                 z3.And(z3.Implies(xfer, z3.And(send, z3.ULT(w, D))),
                        z3.Implies(last_xfer, z3.And(c.nx(O["valid"]) == 0, c.nx(O["first"]) == 0, c.nx(O["last"]) == 0,
                                                     c.nx(ts.of(ila.trigger)) == c.nx(I["trigger"]))),
                        z3.Implies(z3.And(send, z3.Not(last_xfer)), c.nx(ts.of(ila.trigger)) == 0)),
                 clause="exactly sample_depth words per trigger: the read-out ends with, and only with, the transfer of word sample_depth-1 "
                        "(the wrapper accepts triggers again from the next cycle, not earlier); a new read-out needs a new trigger and a "
                        "new capture (valid only while sending)")
        c.ensure("offered_word_held_until_taken", z3.Implies(z3.And(O["valid"] == 1, z3.Not(ready)),
                 z3.And(c.nx(O["valid"]) == 1, c.nx(O["payload"]) == O["payload"], c.nx(O["first"]) == O["first"], c.nx(O["last"]) == O["last"])),
                 clause="a word offered on the stream is held unchanged until it is taken (also across triggers)")
        c.ensure("sampling_and_complete_are_the_analyzers", z3.And(O["sampling"] == ts.of(ila.sampling), O["complete"] == ts.of(ila.complete)),
                 clause="status passthrough: sampling / complete")
        c.ensure("trigger_while_busy_starts_nothing", z3.Implies(z3.Not(idle), z3.And(c.nx(O["sampling"]) == bv1(z3.And(busy == 1, z3.Not(core.last))),
                                                                                       z3.Implies(done == 1, c.nx(O["complete"]) == 1))),
                 clause="a trigger during capture or read-out changes nothing: no capture starts, complete stays, the buffer is not written")

        deep = 1 + D + 2 + 2 * D + 2
        reach = deep + P <= 24
        c.cover("word_n_transferred_nonzero", z3.And(xfer, at_n, v != 0), reach=reach)
        c.cover("last_word_transferred", last_xfer, reach=reach)
        c.cover("trigger_while_sending", z3.And(send, trig, O["valid"] == 1), reach=reach)
        c.cover("trigger_while_capturing", z3.And(capt, busy == 1, trig))
        c.cover("second_capture", z3.And(idle, done == 1, trig), reach=reach)
        c.cover_depth = deep + P + 1 if reach else 8
    return contract


# ========================================================================================================== SyncSerialILA
def sync_serial_ila(D, P, widths=(4, 1), pol=0, pha=1, domain="sync"):
    """SyncSerialILA = real IntegratedLogicAnalyzer + real SPIDeviceInterface.

    Bus-level ghosts (from spi.sck / spi.cs only; vocabulary of the C50 contract):
        prev, cnt, done : edge detector, sample edges seen in the current word, `done` = the sample edge completing a word
        p1              : a word was completed one cycle ago (the child's word_accepted)
        j               : index of the word the SPI shifter will load next: 0 while CS is low, 1 from the cycle after CS rose,
                          +1 after every completed word
        jm1, jm2        : j one and two cycles ago (the address register, the synchronous read port)
        age             : cycles since j changed (saturating)          z : consecutive cycles CS has been low (saturating)
    The SPI child loads its transmit shifter from word_out in every cycle with CS low and in every `done` cycle (C50: relatch).
    """
    def contract(c):
        sigs = _inputs(widths)
        kw = {} if domain == "sync" else {"domain": domain}
        d = SyncSerialILA(signals=sigs, sample_depth=D, samples_pretrigger=P, clock_polarity=pol, clock_phase=pha, **kw)
        ports = {f"in{i}": s for i, s in enumerate(sigs)}
        ports.update({"trigger": d.trigger, "sampling": d.sampling, "complete": d.complete,
                      "sck": d.spi.sck, "sdi": d.spi.sdi, "cs": d.spi.cs, "sdo": d.spi.sdo})
        ts = c.unit(d, ports)
        c.functions.append("luna.gateware.debug.ila.IntegratedLogicAnalyzer.elaborate (instance inside SyncSerialILA)")
        c.functions.append("luna.gateware.interface.spi.SPIDeviceInterface.elaborate (instance inside SyncSerialILA)")
        from luna.gateware.interface.spi import SPIDeviceInterface
        I, O = ts.inputs, ts.outputs
        ila = ts.instance(IntegratedLogicAnalyzer)
        spi = ts.instance(SPIDeviceInterface)
        SW = sum(widths)
        WS = 2 ** ((32 * ((SW + 31) // 32) - 1).bit_length())          # the statement of the wrapper: 32-bit chunks, power of two
        x = _x(I, len(sigs))
        core = Core(c, ts, ila, x, I["trigger"] == 1, D, P)
        done_, n, v = core.done, core.n, core.v
        AW = core.AW
        number = ts.of(ila.captured_sample_number) if D > 1 else None
        core.ensures((zx(number, KW) == zx(n, KW)) if D > 1 else z3.BoolVal(True), "at the wrapper")
        _param_lemma(c, ila, D, P, SW, sigs)
        _clock_domains_lemma(c, ts, domain)
        c.ensure("trigger_sampling_complete_passthrough",
                 z3.And(ts.of(ila.trigger) == I["trigger"], O["sampling"] == ts.of(ila.sampling), O["complete"] == ts.of(ila.complete)),
                 clause="caller-side: trigger / sampling / complete of the wrapper are the analyzer's")

        # ---- SPI hookup and parameters
        c.lemma("spi_child_is_on_the_wrappers_bus",
                z3.And(ts.of(spi.spi.sck) == I["sck"], ts.of(spi.spi.cs) == I["cs"], ts.of(spi.spi.sdi) == I["sdi"], O["sdo"] == ts.of(spi.spi.sdo)),
                clause="caller-side: the SPI transceiver's sck / cs / sdi are the wrapper's pins, the wrapper's sdo is the transceiver's")
        c.lemma("spi_word_out_is_the_read_port_zero_extended",
                z3.And(ts.of(spi.word_out).size() == WS, eqz(ts.of(spi.word_out), ts.of(ila.captured_sample))),
                clause="widths: bits_per_word = sample_width rounded up to 32-bit chunks and then to a power of two; the word handed to "
                       "the SPI transceiver is the analyzer's read port, zero-extended")
        c.lemma("spi_child_parameters",
                z3.BoolVal(spi.word_size == WS == d.bits_per_word and WS >= SW and d.bytes_per_sample * 8 == WS and spi.clock_polarity == pol
                           and spi.clock_phase == pha and spi.msb_first is True and not spi.cs_idles_high),
                clause="parameters reaching the SPI child: word_size = bits_per_word, clock polarity / phase, MSB first")

        # ---- bus-level ghosts
        CW = 8
        assert WS + 2 < (1 << CW)
        cs = I["cs"] == 1
        serial = (I["sck"] == 1) != bool(pol)
        prev = c.ghost("prev_serial", 1, init=0)
        c.set_next(prev, bv1(serial))
        leading, trailing = z3.And(prev == 0, serial), z3.And(prev == 1, z3.Not(serial))
        sample = z3.And(cs, trailing if pha else leading)
        cnt = c.ghost("cnt", CW, init=0)
        done = z3.And(sample, cnt == WS - 1)
        c.set_next(cnt, z3.If(z3.Not(cs), bvc(0, CW), z3.If(sample, z3.If(cnt == WS - 1, bvc(0, CW), cnt + 1), cnt)))
        p1 = c.ghost("p1", 1, init=0)
        c.set_next(p1, bv1(done))
        pcs = c.ghost("prev_cs", 1, init=0)
        c.set_next(pcs, bv1(cs))
        start = z3.And(pcs == 0, cs)
        j, jm1, jm2 = c.ghost("j", KW, init=0), c.ghost("jm1", KW, init=0), c.ghost("jm2", KW, init=0)
        jn = z3.If(z3.Not(cs), bvc(0, KW), z3.If(start, bvc(1, KW), z3.If(p1 == 1, j + 1, j)))
        c.set_next(j, jn); c.set_next(jm1, j); c.set_next(jm2, jm1)
        age = c.ghost("age", 2, init=3)
        c.set_next(age, z3.If(jn != j, bvc(0, 2), z3.If(age == 3, age, age + 1)))
        z = c.ghost("cs_low_for", 2, init=0)
        c.set_next(z, z3.If(cs, bvc(0, 2), z3.If(z == 3, z, z + 1)))
        dprev = c.ghost("done_prev", 1, init=0)
        c.set_next(dprev, done_)

        # ---- refinement map
        c.inv("spi_edge_detector_register", ts.sig(_one(ts, "past_clk")) == prev)
        c.inv("spi_bit_count_is_edges_in_word", zx(ts.sig(_one(ts, "bit_count")), CW) == cnt)
        c.inv("spi_word_accepted_is_completion_one_cycle_ago", (ts.of(spi.word_accepted) == 1) == (p1 == 1))
        c.inv("past_cs_register", ts.sig(_one(ts, "past_spi_cs")) == pcs)
        c.inv("edges_in_word_in_range", z3.ULT(cnt, WS))
        c.inv("deselected_means_no_edges", z3.Implies(pcs == 0, cnt == 0))
        c.inv("just_completed_means_no_edges", z3.Implies(p1 == 1, z3.And(cnt == 0, pcs == 1)))
        c.inv("no_completion_right_after_address_change", z3.Implies(z3.And(pcs == 1, z3.ULE(age, 1)), z3.ULE(cnt, zx(age, CW) + 1)))
        c.inv("pipeline_settles_in_two_cycles", z3.And(z3.Implies(z3.UGE(age, 1), jm1 == j), z3.Implies(z3.UGE(age, 2), jm2 == j)))
        c.inv("cs_low_history", z3.And(z3.Implies(z3.UGE(z, 1), z3.And(j == 0, pcs == 0)), z3.Implies(z3.UGE(z, 2), z3.UGE(age, 1)),
                                       z3.Implies(z == 3, z3.UGE(age, 2))))
        if D > 1:
            csn = ts.sig(_one(ts, "current_sample_number"))
            c.inv("word_counter_register", eqz(csn, z3.Extract(AW - 1, 0, j)))
            c.inv("address_register", eqz(number, z3.Extract(AW - 1, 0, jm1)))
            addressed_n = z3.And(z3.ULT(jm2, D), jm2 == zx(n, KW))
        else:
            addressed_n = z3.And(jm2 == 0)
        rp = ts.of(ila.captured_sample)
        c.inv("read_port_holds_the_addressed_sample", z3.Implies(z3.And(done_ == 1, dprev == 1, addressed_n), eqz(rp, v)))

        # ---- call obligations on the two children's ports
        if D > 1:
            c.ensure("spi_word_counter_addresses_the_buffer_in_order", eqz(number, z3.Extract(AW - 1, 0, jm1)),
                     clause="caller-side: the address presented to the analyzer is (one cycle delayed) the index of the next word of the SPI "
                            "transaction: 0 while CS is low, 1 once CS has risen (word 0 is already in the shifter), +1 per completed word")
        j_is_n = z3.And(z3.ULT(j, D), j == zx(n, KW)) if D > 1 else (j == 0)
        ready_ila = z3.And(done_ == 1, dprev == 1)
        c.ensure("word_loaded_at_word_boundary_is_the_next_sample", z3.Implies(z3.And(done, j_is_n, ready_ila), eqz(ts.of(spi.word_out), v)),
                 clause="caller-side: in the cycle in which the SPI transceiver completes word i-1 of a transaction and loads its shifter "
                        "for word i (i >= 1), word_out is the i-th recorded sample — for every SPI clock the edge detector can see, no "
                        "assumption on its rate (a word has >= 32 bits, the address pipeline settles in 3 cycles)")
        c.ensure("word_loaded_while_deselected_is_sample_zero",
                 z3.Implies(z3.And(z3.Not(cs), z == 3, j_is_n if D > 1 else z3.BoolVal(True), ready_ila), eqz(ts.of(spi.word_out), v)),
                 clause="caller-side: with CS low for at least four cycles, the word the SPI transceiver holds ready for the next "
                        "transaction (word 0) is recorded sample 0")
        c.ensure("address_pipeline_settled_when_a_word_completes", z3.Implies(done, z3.And(jm1 == j, jm2 == j)),
                 clause="the SPI word counter addresses the ILA memory in order (the address is stable for two cycles before every load)")

        c.cover("word_boundary_load_with_capture_complete", z3.And(done, ready_ila, j == 1 if D > 1 else j == 0), reach=False)
        c.cover("deselected_load_with_capture_complete", z3.And(z3.Not(cs), z == 3, ready_ila, v != 0), reach=(D + P + 8 <= 24))
        c.cover("second_word_addressed", z3.And(cs, jm2 == 1), reach=True)
        c.cover_depth = max(10, D + P + 8) if D + P + 8 <= 24 else 10
    return contract


# ========================================================================================================= AsyncSerialILA
def async_serial_ila_wiring(D, P, widths, divisor, domain="sync"):
    """Connections only: the real StreamILA's stream feeds the real UARTMultibyteTransmitter, parameters reach both.  The two
    children carry their own contracts (StreamILA above — for every `ready`; UARTMultibyteTransmitter in C49 — for every `valid`)."""
    def contract(c):
        from luna.gateware.interface.uart import UARTMultibyteTransmitter, UARTTransmitter
        sigs = _inputs(widths)
        d = AsyncSerialILA(signals=sigs, sample_depth=D, divisor=divisor, samples_pretrigger=P, domain=domain)
        ports = {f"in{i}": s for i, s in enumerate(sigs)}
        ports.update({"trigger": d.trigger, "sampling": d.sampling, "complete": d.complete, "tx": d.tx})
        ts = c.unit(d, ports)
        I, O = ts.inputs, ts.outputs
        sila = ts.instance(StreamILA)
        ila = ts.instance(IntegratedLogicAnalyzer)
        mb = ts.instance(UARTMultibyteTransmitter)
        u = ts.instance(UARTTransmitter)
        SW = sum(widths)
        BW = 2 ** ((SW - 1).bit_length())
        NB = (BW + 7) // 8
        c.lemma("uart_stream_is_the_stream_ilas_stream",
                z3.And(ts.of(mb.stream.valid) == ts.of(sila.stream.valid),
                       ts.of(mb.stream.payload).size() == 8 * NB, eqz(ts.of(mb.stream.payload), ts.of(sila.stream.payload)),
                       ts.of(sila.stream.ready) == ts.of(mb.stream.ready), O["tx"] == ts.of(mb.tx), ts.of(mb.tx) == ts.of(u.tx)),
                clause="caller-side: valid / payload (zero-extended to whole bytes) go from the StreamILA to the UART, ready comes back, "
                       "tx is the UART's line")
        c.lemma("trigger_and_status_are_the_stream_ilas",
                z3.And(ts.of(sila.trigger) == I["trigger"], O["sampling"] == ts.of(ila.sampling), O["complete"] == ts.of(ila.complete)),
                clause="caller-side: trigger / sampling / complete passthrough")
        c.lemma("parameters_reach_the_children",
                z3.BoolVal(mb.byte_width == NB == d.bytes_per_sample and mb.divisor == divisor and u.divisor == divisor
                           and sila.sample_depth == D and ila.sample_depth == D and ila.samples_pretrigger == P and ila.sample_width == SW
                           and sila.bits_per_sample == BW and all(a is b for a, b in zip(ila.signals, sigs)) and len(ila.signals) == len(sigs)),
                clause="parameters reaching the children: byte_width = bytes per (power-of-two) sample word, divisor, sample_depth, "
                       "samples_pretrigger, signals")
        _clock_domains_lemma(c, ts, domain)
        c.inv("no_state_needed", z3.BoolVal(True))
    return contract


# ==================================================================================================== I2CRegisterInterface
def i2c_register_interface_wiring(period_cyc, clk_stretch, data_bytes=2, address=0x2C):
    """C52's leaf contract assumes `strobes_only_when_not_busy` (documented interface of I2CInitiator).  The one caller in the
    tree is I2CRegisterInterface: with the real initiator inside, for every state and every input, no strobe is raised while the
    initiator is busy, at most one strobe is raised per cycle, and pads / period_cyc / clk_stretch reach the child."""
    def contract(c):
        from luna.gateware.interface.i2c import I2CBus, I2CInitiator, I2CRegisterInterface, I2CBusDriver
        pads = I2CBus()
        d = I2CRegisterInterface(pads, period_cyc=period_cyc, address=address, clk_stretch=clk_stretch, data_bytes=data_bytes)
        ts = c.unit(d, {"busy": d.busy, "address": d.address, "size": d.size, "done": d.done, "read_request": d.read_request,
                        "read_data": d.read_data, "write_request": d.write_request, "write_data": d.write_data,
                        "scl_pad_i": pads.scl.i, "sda_pad_i": pads.sda.i, "scl_pad_oe": pads.scl.oe, "sda_pad_oe": pads.sda.oe})
        c.functions.append("luna.gateware.interface.i2c.I2CInitiator.elaborate (instance inside I2CRegisterInterface)")
        ini = ts.instance(I2CInitiator)
        drv = ts.instance(I2CBusDriver)
        st = {k_: _term(ts, getattr(ini, k_)) for k_ in ("start", "stop", "write", "read")}
        busy = ts.of(ini.busy)
        anyreq = z3.Or(*[s_ == 1 for s_ in st.values()])
        c.lemma("strobes_only_when_initiator_not_busy", z3.Implies(busy == 1, z3.Not(anyreq)),
                clause="caller-side (discharges C52's require strobes_only_when_not_busy for the tree's one caller): start / stop / write / "
                       "read are raised only in cycles in which the initiator's busy is low")
        names = list(st)
        c.lemma("at_most_one_strobe_per_cycle",
                z3.And(*[z3.Not(z3.And(st[a] == 1, st[b] == 1)) for i_, a in enumerate(names) for b in names[i_ + 1:]]),
                clause="caller-side: never two operations requested at once (the statement is silent on the initiator's priority order)")
        c.lemma("parameters_reach_the_initiator",
                z3.BoolVal(ini.period_cyc == period_cyc and ini.clk_stretch == clk_stretch and drv.scl_t is pads.scl and drv.sda_t is pads.sda and ini.bus is drv),
                clause="parameters reaching the child: period_cyc, clk_stretch, the pads")
        c.lemma("pads_are_driven_by_the_initiators_bus_driver",
                z3.And(ts.outputs["scl_pad_oe"] == ~ts.of(drv.scl_o), ts.outputs["sda_pad_oe"] == ~ts.of(drv.sda_o)),
                clause="caller-side: the wrapper's pads are the initiator's open-drain outputs")
        _clock_domains_lemma(c, ts, "sync")
        c.inv("no_state_needed", z3.BoolVal(True))
    return contract


def _term(ts, sig):
    """A signal nothing drives does not appear in the netlist: every reader sees its reset value."""
    try:
        return ts.of(sig)
    except BindingError:
        return z3.BitVecVal(int(getattr(sig, "init", 0) or 0), len(sig))


def i2c_wrapper_contracts(tier):
    cfgs = [(8, True, 2), (4, False, 1)] if tier == "quick" else [(8, True, 2), (4, False, 1), (100, True, 4), (5, False, 3)]
    for pc, cstr, nb in cfgs:
        yield ("I2CRegisterInterface", f"wiring_period{pc}_{'stretch' if cstr else 'nostretch'}_bytes{nb}", i2c_register_interface_wiring(pc, cstr, nb))


def ila_wrapper_contracts(tier):
    if tier == "quick":
        cfgs = [(3, 0, "sync", (3,)), (5, 2, "usb", (4, 1)), (4, 1, "sync", (8, 1))]
    else:
        cfgs = [(dp, p, "sync", (4, 1)) for dp in (2, 3, 4, 5, 6, 7, 8, 16) for p in (dp % 4, (dp + 2) % 4)] + \
               [(3, 0, "sync", (3,)), (5, 2, "usb", (4, 1)), (6, 1, "usb", (8, 3, 1, 16)), (12, 3, "sync", (3,)), (4, 1, "sync", (8, 1)),
                (1, 1, "sync", (4, 1))]
    for dp, p, dom, ws in cfgs:
        yield ("StreamILA", f"depth{dp}_pre{p}_{dom}_w{sum(ws)}", stream_ila(dp, p, dom, ws))
    if tier == "quick":
        scfgs = [(4, 1, (4, 1), 0, 1, "sync"), (5, 2, (33,), 1, 0, "usb")]
    else:
        scfgs = [(4, 1, (4, 1), 0, 1, "sync"), (5, 2, (33,), 1, 0, "usb"), (3, 0, (32,), 0, 0, "sync"), (6, 3, (8, 3, 1, 16), 1, 1, "sync"),
                 (16, 1, (65,), 0, 1, "sync"), (2, 1, (1,), 0, 1, "usb"), (1, 0, (4, 1), 0, 1, "sync")]
    for dp, p, ws, pol, pha, dom in scfgs:
        yield ("SyncSerialILA", f"depth{dp}_pre{p}_{dom}_w{sum(ws)}_cpol{pol}_cpha{pha}", sync_serial_ila(dp, p, ws, pol, pha, dom))
    acfgs = [(5, 2, (4, 1), 3, "usb"), (4, 1, (12,), 10, "sync")] if tier == "quick" else \
            [(5, 2, (4, 1), 3, "usb"), (4, 1, (12,), 10, "sync"), (3, 0, (33,), 217, "sync"), (8, 1, (1,), 1, "usb")]
    for dp, p, ws, dv, dom in acfgs:
        yield ("AsyncSerialILA", f"wiring_depth{dp}_pre{p}_{dom}_w{sum(ws)}_div{dv}", async_serial_ila_wiring(dp, p, ws, dv, dom))
