"""C57 — the USB serial (CDC-ACM) device: request handlers and wiring   (PARTIAL — see EXPLANATION / BOUNDED).

What is under contract
 (A) `USBControlEndpoint` composed exactly as `USBSerialDevice.elaborate()` composes it (luna/gateware/usb/devices/acm.py):
     real `StandardRequestHandler` over the real CDC-ACM descriptor collection of `USBSerialDevice.create_descriptors()`,
     real `ACMRequestHandlers`, real `StallOnlyRequestHandler(vendor|reserved)`, real multiplexer + its fallback.
       * SET_LINE_CODING (class request 0x20) is accepted: every data-stage OUT packet is ACKed, the status stage is answered
         with a zero-length packet, it is never STALLed and changes no device state;
       * every other class request and every vendor / reserved-type request is STALLed (at each data-stage IN token and at
         the status stage), never answered with data, an ACK or a state change.
     Environment and the spec-side control-transfer ghost are those of C10 (`ControlEndpointEnv`).
 (B) the real `USBSerialDevice` on a raw UTMI bus (whole device: 3 stream endpoints + control endpoint, 2112 cells):
     wiring obligations — the `rx` stream is the read side of the OUT endpoint's FIFO (payload/first/last/valid, and
     `rx.ready` advances that FIFO), the two IN endpoints answer endpoint numbers 3 and 4, the OUT endpoint number 4, the
     user's `tx` stream feeds the endpoint-4 IN endpoint (and nothing feeds the status endpoint), `connect` gates the
     pull-up, and the control endpoint inside the device contains the three handlers of (A);
     + on the same netlist, for the control endpoint the device REALLY builds: handler set (one standard, one ACM, one stall
     handler + the multiplexer's fallback), every handler's inputs (setup packet, tokenizer, stage strobes, handshakes, rx)
     and the selection of its outputs through the real multiplexer, the setup decoder's hookup, the commit strobes
     (c10_unsupported_requests_stall.control_endpoint_obligations), `usb.connect`, and the instantiated endpoints'
     addresses / max packet sizes equal the endpoint descriptors the device advertises.

NOT covered (cannot be expressed as a contract on one unit; listed in the report): "enumerates under a standard host
sequence" (a scenario), and the end-to-end "bytes in order" clauses, which are the subject of the stream-endpoint
properties (C11/C13/C16) on the very endpoint classes instantiated here.
"""
import z3
from hwv.contract import B, bvc, bits, bv1, zx
from luna.gateware.usb.devices.acm import USBSerialDevice, ACMRequestHandlers
from luna.gateware.usb.usb2.request import StallOnlyRequestHandler
from luna.gateware.interface.utmi import UTMIInterface
from usb_protocol.types import USBRequestType
from . import spec
from .c10_unsupported_requests_stall import (ControlEndpointEnv, ST_DATA_OUT, ST_STATUS_IN, ST_STATUS_OUT, TYPE_STANDARD)

LEVEL = "other"
EXPLANATION = ("Partial: the CDC request handling of the control endpoint (as composed by USBSerialDevice) is proved by 1-induction; "
               "the device wiring is proved as combinational/structural obligations on the whole extracted USBSerialDevice. The "
               "enumeration scenario and the end-to-end byte-order clauses are not contracts on this unit (stream endpoints: "
               "C11/C13/C16).")
BOUNDED = []

TYPE_CLASS, TYPE_VENDOR, TYPE_RESERVED = 1, 2, 3
SET_LINE_CODING = 0x20


def make_handlers():
    def contract(c):
        dev = USBSerialDevice(bus=UTMIInterface(), idVendor=0x16d0, idProduct=0x0f3b)
        stall_condition = lambda setup: (setup.type == USBRequestType.VENDOR) | (setup.type == USBRequestType.RESERVED)
        env = ControlEndpointEnv(c, handlers="standard", ep=0, foreign_setup_tokens=False,
                                 descriptors=dev.create_descriptors(),
                                 extra_handlers=(ACMRequestHandlers(), StallOnlyRequestHandler(stall_condition)))
        ts, I, O = env.ts, env.I, env.O
        env.stage_invariants()
        stage = env.stage
        current = z3.Not(env.received)
        is_class = env.f_type == TYPE_CLASS
        slc = z3.And(is_class, env.f_request == SET_LINE_CODING)
        other = z3.And(env.f_type != TYPE_STANDARD, z3.Not(slc))          # other class, vendor and reserved-type requests
        due = z3.Or(env.data_due, env.status_due)
        no_state_change = z3.And(O["address_changed"] == 0, O["config_changed"] == 0, bits(O["clear_halt"], 0) == 0)
        data_out_received = z3.And(stage == ST_DATA_OUT, env.ep0, env.is_out, I["rx_rfr"] == 1)   # a data-stage OUT packet, time to answer

        # ---- SET_LINE_CODING is accepted
        c.ensure("set_line_coding_data_packets_acked",
                 z3.Implies(slc, (O["hout_ack"] == 1) == z3.Or(env.setup_ack, env.ping_probe, data_out_received)),
                 clause="accepts SET_LINE_CODING: each data-stage OUT packet is ACKed (no other ACK except the SETUP ACK / PING probe)")
        c.ensure("set_line_coding_status_zlp",
                 z3.Implies(z3.And(slc), z3.And((O["tx_valid"] == 1) == env.status_due,
                                                z3.Implies(env.status_due, z3.And(O["tx_last"] == 1, O["tx_first"] == 0)))),
                 clause="accepts SET_LINE_CODING: the status stage is answered with a zero-length packet, no other data is sent")
        c.ensure("set_line_coding_status_packet_is_data1",
                 z3.Implies(z3.And(slc, env.status_due), O["tx_pid_toggle"] == 1),
                 clause="accepts SET_LINE_CODING: the status-stage zero-length packet is sent as DATA1 (USB 2.0 8.5.3: the status "
                        "stage always uses DATA1; a host discards a DATA0 status packet and the request never completes)")
        c.ensure("set_line_coding_never_stalled", z3.Implies(slc, z3.And(O["hout_stall"] == 0, O["hout_nak"] == 0, no_state_change)),
                 clause="accepts SET_LINE_CODING: never STALLed / NAKed, and it changes no device state")
        # ---- the other class and vendor (and reserved) requests are STALLed
        handler_ack = z3.And(O["hout_ack"] == 1, z3.Not(env.setup_ack), z3.Not(env.ping_probe))
        c.ensure("other_class_and_vendor_requests_stalled",
                 z3.Implies(other, z3.And((O["hout_stall"] == 1) == due, O["tx_valid"] == 0, z3.Not(handler_ack), O["hout_nak"] == 0,
                                          no_state_change)),
                 clause="STALLs the other class and vendor requests: STALL at every data-stage IN token / status stage, never data, "
                        "an ACK or a state change")
        c.cover("set_line_coding_data_acked", z3.And(slc, data_out_received, O["hout_ack"] == 1))
        c.cover("set_line_coding_status_answered", z3.And(slc, env.status_due, O["tx_valid"] == 1))
        c.cover("vendor_request_stalled", z3.And(env.f_type == TYPE_VENDOR, O["hout_stall"] == 1))
        c.cover("other_class_request_stalled", z3.And(is_class, z3.Not(slc), O["hout_stall"] == 1))
        c.cover_depth = 26
        c.bmc_depth = 48
    return contract


def wiring(c, max_packet_size=None):
    utmi = UTMIInterface()
    kw = {} if max_packet_size is None else {"max_packet_size": max_packet_size}
    d = USBSerialDevice(bus=utmi, idVendor=0x16d0, idProduct=0x0f3b, **kw)
    ports = {"rx_data": utmi.rx_data, "rx_active": utmi.rx_active, "rx_valid": utmi.rx_valid, "tx_ready": utmi.tx_ready,
             "line_state": utmi.line_state, "session_end": utmi.session_end,
             "connect": d.connect,
             "o_valid": d.rx.valid, "o_payload": d.rx.payload, "o_first": d.rx.first, "o_last": d.rx.last, "o_ready": d.rx.ready,
             "i_valid": d.tx.valid, "i_payload": d.tx.payload, "i_first": d.tx.first, "i_last": d.tx.last, "i_ready": d.tx.ready,
             "term_select": utmi.term_select}
    ts = c.unit(d, ports)
    I, O = ts.inputs, ts.outputs
    # the real endpoint objects created inside USBSerialDevice.elaborate(), found through the elaborated fragments' origins
    from luna.gateware.usb.usb2.endpoints.stream import USBStreamInEndpoint, USBStreamOutEndpoint
    eps = []
    for frag in ts.design.fragments:
        for o in (getattr(frag, "origins", None) or ()):
            if isinstance(o, (USBStreamInEndpoint, USBStreamOutEndpoint)) and o not in eps:
                eps.append(o)
    kinds = sorted((type(o).__name__, o._endpoint_number) for o in eps)
    c.lemma("endpoint_set", z3.BoolVal(kinds == [("USBStreamInEndpoint", 3), ("USBStreamInEndpoint", 4), ("USBStreamOutEndpoint", 4)]),
            clause="the device consists of an IN endpoint 3 (CDC status), an OUT endpoint 4 and an IN endpoint 4 (serial data)")
    by = {(type(o).__name__, o._endpoint_number): o for o in eps}
    out4, in4, in3 = by[("USBStreamOutEndpoint", 4)], by[("USBStreamInEndpoint", 4)], by[("USBStreamInEndpoint", 3)]
    c.ensure("rx_stream_is_out_endpoint_stream",
             z3.And(O["o_valid"] == ts.of(out4.stream.valid), O["o_payload"] == ts.of(out4.stream.payload),
                    O["o_last"] == ts.of(out4.stream.last), O["o_first"] == ts.of(out4.stream.first),
                    ts.of(out4.stream.ready) == I["o_ready"]),
             clause="delivers bytes written by the host to its receive stream: `rx` is the OUT endpoint 4's output stream "
                    "(in-order delivery by that endpoint: C13/C16)")
    # every child below is the real instance (found by class, and by role where a class occurs more than once: "the FIFO
    # inside OUT endpoint 4", "the transfer manager inside IN endpoint n"), never a submodule path of USBSerialDevice/USBDevice
    from luna.gateware.usb.usb2.device import USBDevice
    from luna.gateware.usb.usb2.packet import USBTokenDetector, USBHandshakeDetector
    from luna.gateware.usb.usb2.transfer import USBInTransferManager
    from luna.gateware.memory import TransactionalizedFIFO
    from .c10_unsupported_requests_stall import inside
    fifo = inside(ts, TransactionalizedFIFO, out4)
    fifo_rd = ts.of(fifo.read_data)
    c.ensure("rx_stream_is_out_endpoint_fifo",
             z3.And(O["o_valid"] == ~ts.of(fifo.empty), O["o_payload"] == bits(fifo_rd, 7, 0),
                    O["o_last"] == bits(fifo_rd, 8), O["o_first"] == bits(fifo_rd, 9), ts.of(fifo.read_en) == I["o_ready"]),
             clause="... i.e. the read side of that endpoint's FIFO; `rx.ready` advances it")
    c.ensure("tx_stream_feeds_in_endpoint_4",
             z3.And(ts.of(in4.stream.valid) == I["i_valid"], ts.of(in4.stream.payload) == I["i_payload"],
                    ts.of(in4.stream.last) == I["i_last"], ts.of(in4.stream.first) == I["i_first"],
                    O["i_ready"] == ts.of(in4.stream.ready), ts.of(in3.stream.valid) == 0),
             clause="delivers bytes from its transmit stream to the host: `tx` is the input stream of IN endpoint 4 (in-order "
                    "delivery by that endpoint: C11); the status endpoint 3 is never fed")
    td, hsd = ts.instance(USBTokenDetector), ts.instance(USBHandshakeDetector)
    tok_ep = ts.of(td.interface.endpoint)
    c.ensure("endpoints_attached_to_the_device",
             z3.And(*[z3.And(ts.of(o.interface.tokenizer.endpoint) == tok_ep,
                             ts.of(o.interface.tokenizer.new_token) == ts.of(td.interface.new_token),
                             ts.of(o.interface.handshakes_in.ack) == ts.of(hsd.detected.ack)) for o in eps]),
             clause="every endpoint sees the device's token detector and handshake detector (the interface C11/C13 assume)")
    managers = [inside(ts, USBInTransferManager, o) for o in (in3, in4)]
    c.ensure("in_endpoints_active_for_their_number",
             z3.And(*[z3.Or(*[(ts.of(m.active) == 1) == (tok_ep == num) for m in managers]) for num in (3, 4)]),
             clause="the IN transfer managers are active exactly for tokens to endpoint 3 / endpoint 4")
    c.ensure("connect_gates_pullup", z3.Implies(I["connect"] == 0, O["term_select"] == 0),
             clause="`connect` is passed to the USB device (no termination / pull-up while not connected)")
    # ---- the control endpoint the device REALLY composes (part (A) above is proved on a copy of that composition): its
    #      handler set, and the hookup of every handler, of the multiplexer and of the setup decoder inside the device
    from luna.gateware.usb.usb2.control import USBControlEndpoint
    from luna.gateware.usb.request.standard import StandardRequestHandler
    from .c10_unsupported_requests_stall import control_endpoint_obligations, hier
    ce = ts.instance(USBControlEndpoint)
    below_ce = lambda h: hier(ts, h)[:-1] == hier(ts, ce)
    user_stall = [h for h in ts.instances(StallOnlyRequestHandler) if below_ce(h)]
    acm, std = ts.instances(ACMRequestHandlers), ts.instances(StandardRequestHandler)
    from luna.gateware.usb.usb2.request import USBRequestHandlerMultiplexer
    muxes = [h for h in ts.instances(USBRequestHandlerMultiplexer) if below_ce(h)]
    fallback = [h for h in ts.instances(StallOnlyRequestHandler) if muxes and hier(ts, h)[:-1] == hier(ts, muxes[0])]
    c.lemma("control_endpoint_handler_set", z3.BoolVal(len(acm) == 1 and len(std) == 1 and len(user_stall) == 1 and
                                                       below_ce(acm[0]) and below_ce(std[0]) and len(muxes) == 1 and
                                                       len(fallback) == 1),
            clause="the device's control endpoint is composed of exactly one StandardRequestHandler, one ACMRequestHandlers and one "
                   "StallOnlyRequestHandler (+ the multiplexer's own fallback), as part (A) assumes")
    control_endpoint_obligations(c, ts, ce, 0, {"setup_decoder", "request_interface", "commit", "handlers"},
                                 [("standard", std[0]), ("acm", acm[0]), ("stall_vendor", user_stall[0])])
    # (instance parameters) the endpoints built are the ones the device's own configuration descriptor advertises
    adv = []
    for t, _, raw in d.create_descriptors():
        if int(t) == 2:
            b, k = bytes(raw), 0
            while k < len(b):
                if b[k + 1] == 5:
                    adv.append((b[k + 2], b[k + 4] | (b[k + 5] << 8)))
                k += b[k]
    built = [((0x80 if isinstance(o, USBStreamInEndpoint) else 0) | o._endpoint_number, getattr(o, "_max_packet_size", None)) for o in eps]
    c.lemma("endpoints_match_the_advertised_descriptors", z3.BoolVal(sorted(adv) == sorted(built)),
            clause=f"(structural) endpoint addresses and max packet sizes of the instantiated endpoints {sorted(built)} equal the "
                   f"endpoint descriptors the device hands to the host {sorted(adv)}")
    # the OUT endpoint only accepts a packet while its FIFO has room for a maximum-size one: a buffer smaller than the size the
    # device advertises for that endpoint would make it NAK every packet for ever
    pref = ".".join(hier(ts, fifo)) + "."
    depths = [ts.nl.cells[idx].depth for p_, idx in ts.mems.items() if ts._strip(p_).startswith(ts._strip(pref))]
    adv_out4 = [sz for a, sz in adv if a == 0x04]
    c.lemma("rx_endpoint_buffer_holds_an_advertised_max_size_packet",
            z3.BoolVal(len(depths) == 1 and len(adv_out4) == 1 and depths[0] >= adv_out4[0]),
            clause=f"delivers bytes written by the host: the OUT endpoint's receive FIFO (depth {depths}) can hold a packet of the "
                   f"wMaxPacketSize the device advertises for it ({adv_out4}), so an empty FIFO accepts every legal packet")
    c.lemma("device_connect_is_usb_connect", ts.of(ts.instance(USBDevice).connect) == I["connect"],
            clause="`connect` is passed to the USB device")
    c.inv("trivial", z3.BoolVal(True))


def contracts(tier):
    yield ("USBControlEndpoint", "acm_handlers", make_handlers())
    yield ("USBSerialDevice", "utmi_wiring", wiring)
    yield ("USBSerialDevice", "utmi_wiring_maxpkt512", lambda c: wiring(c, 512))
    # caller side (parameter plumbing): the descriptors the serial device creates are the ones its control endpoint serves,
    # in packets of the EP0 size those descriptors advertise; and the standard request handler inside the device is the
    # configuration part (A) composes
    from .c09_get_descriptor import make_plumbing_packets, make_plumbing_stride
    yield ("USBSerialDevice", "plumbing_descriptors_reach_get_descriptor_handler", make_plumbing_packets("serial", None, 64))
    yield ("USBSerialDevice", "plumbing_get_descriptor_stride", make_plumbing_stride("serial", None, 64))
