"""C10 — unsupported or unclaimed control requests are STALLed, never answered.

Units under contract
  * `USBControlEndpoint` (luna/gateware/usb/usb2/control.py) with its real `USBSetupDecoder`, real
    `USBRequestHandlerMultiplexer` (+ the fallback `StallOnlyRequestHandler` it creates) and, per configuration,
      - `standard` : a real `StandardRequestHandler` (small descriptor set),
      - `nohandler`: no handler at all (every request is unclaimed -> fallback),
      - `std_skip` : a `StandardRequestHandler` with a skiplist (GET_STATUS is not claimed -> fallback).
  * `USBRequestHandlerMultiplexer` alone with two free handler interfaces: "no claim -> outputs are the fallback's".
  * (wiring) `USBRequestHandlerMultiplexer` with 3 free interfaces + own fallback, and with 2 + a given fallback interface:
    every field of the RequestHandlerInterface, both directions (see "Caller-side obligations" below; these helpers are
    also used by C06/C07/C08/C57).

Observation points.  Inputs are the endpoint's interface as the device gives it (token detector events, handshake
detector strobes, receive strobes, tx.ready).  The *setup request* is observed at the SetupPacket interface of the setup
decoder (`setup_decoder.packet`: `received` strobe + fields); that it equals the 8 bytes on the wire is C06's subject.

Spec side (from the statement): `unsupported(setup)` :=
      standard request other than GET_STATUS/CLEAR_FEATURE/SET_ADDRESS/SET_CONFIGURATION/GET_DESCRIPTOR/GET_CONFIGURATION
   or CLEAR_FEATURE whose recipient is not an endpoint or whose feature is not ENDPOINT_HALT
   or a non-standard request (no class/vendor handler is attached in these configurations)
   or (std_skip) a skip-listed request.
The abstract control-transfer stage (`stage`, USB 2.0 §8.5.3) is a ghost advanced by token / setup events for this
endpoint only; "first data-stage IN token" / "status stage" are defined on it.

Clauses (ensures) — for the whole time an unsupported request is the current one (from the cycle after the decoder's
`received` strobe until the next one):
   never_data           no tx.valid
   never_ack            no ACK other than the mandatory SETUP-packet ACK of the decoder and the PING flow-control probe
   never_state_change   no address_changed / config_changed / clear_endpoint_halt.enable
   stalled_...          STALL at the first data-stage IN token (ready-for-response) or at the status stage
   stall_only_when_due  no STALL (and never a NAK) at any other time
NOT covered here: GET_DESCRIPTOR for a descriptor that does not exist (C09).

Environment assumptions are `require`s with their justification (token-detector interface facts are ensures of C01;
"two bus events cannot complete in the same cycle" facts hold because all detectors watch the same UTMI byte stream).
"""
import z3
from hwv.contract import B, bvc, bits, bv1, zx
from luna.gateware.usb.usb2.control import USBControlEndpoint
from luna.gateware.usb.usb2.request import USBRequestHandlerMultiplexer, RequestHandlerInterface
from luna.gateware.interface.utmi import UTMIInterface
from . import spec

LEVEL = "proof"

# ---- constants from USB 2.0 chapter 9 (spec side)
TYPE_STANDARD = 0
REQ_GET_STATUS, REQ_CLEAR_FEATURE, REQ_SET_ADDRESS, REQ_GET_DESCRIPTOR = 0, 1, 5, 6
REQ_GET_CONFIGURATION, REQ_SET_CONFIGURATION = 8, 9
IMPLEMENTED = (REQ_GET_STATUS, REQ_CLEAR_FEATURE, REQ_SET_ADDRESS, REQ_SET_CONFIGURATION, REQ_GET_DESCRIPTOR,
               REQ_GET_CONFIGURATION)
RECIPIENT_ENDPOINT = 2
FEATURE_ENDPOINT_HALT = 0

ST_SETUP, ST_DATA_IN, ST_DATA_OUT, ST_STATUS_IN, ST_STATUS_OUT = range(5)
STAGE_NAMES = {ST_SETUP: "SETUP", ST_DATA_IN: "DATA_IN", ST_DATA_OUT: "DATA_OUT", ST_STATUS_IN: "STATUS_IN",
               ST_STATUS_OUT: "STATUS_OUT"}


def small_descriptors():
    from usb_protocol.emitters import DeviceDescriptorCollection
    d = DeviceDescriptorCollection()
    with d.DeviceDescriptor() as dd:
        dd.idVendor, dd.idProduct = 0x1234, 0x5678
        dd.iManufacturer, dd.iProduct, dd.iSerialNumber = "a", "b", "c"
        dd.bNumConfigurations = 1
    with d.ConfigurationDescriptor() as cd:
        with cd.InterfaceDescriptor() as idesc:
            idesc.bInterfaceNumber = 0
            with idesc.EndpointDescriptor() as e:
                e.bEndpointAddress = 0x81
                e.wMaxPacketSize = 64
    return d


class ControlEndpointEnv:
    """The real USBControlEndpoint + its environment + the spec-side ghost of the control transfer.
    Shared by the C10, C07 and C08 contracts."""

    def __init__(self, c, handlers="standard", ep=0, extra_handlers=(), skiplist=(), foreign_setup_tokens=True,
                 descriptors=None):
        self.c, self.ep = c, ep
        u = self.utmi = UTMIInterface()
        ce = self.ce = USBControlEndpoint(utmi=u, endpoint_number=ep)
        if handlers in ("standard", "std_skip"):
            ce.add_standard_request_handlers(descriptors or small_descriptors(), skiplist=skiplist)
        for h in extra_handlers:
            ce.add_request_handler(h)
        i = ce.interface
        ports = {"rx_data": u.rx_data, "rx_active": u.rx_active, "rx_valid": u.rx_valid}
        for n in ("pid", "address", "endpoint", "new_token", "ready_for_response", "is_in", "is_out", "is_setup", "is_ping"):
            ports["tok_" + n] = getattr(i.tokenizer, n)
        for n in ("ack", "nak", "stall", "nyet"):
            ports["hin_" + n] = getattr(i.handshakes_in, n)
        for n in ("ack", "nak", "stall"):
            ports["hout_" + n] = getattr(i.handshakes_out, n)
        ports.update({
            "tx_valid": i.tx.valid, "tx_first": i.tx.first, "tx_last": i.tx.last, "tx_payload": i.tx.payload,
            "tx_ready": i.tx.ready, "tx_pid_toggle": i.tx_pid_toggle,
            "address_changed": i.address_changed, "new_address": i.new_address,
            "config_changed": i.config_changed, "new_config": i.new_config, "active_config": i.active_config,
            "speed": i.speed, "clear_halt": i.clear_endpoint_halt_out.as_value(),
            "rx_next": i.rx.next, "rx_payload": i.rx.payload, "rx_valid_s": i.rx.valid,
            "rx_complete": i.rx_complete, "rx_rfr": i.rx_ready_for_response, "rx_invalid": i.rx_invalid,
            "timer_tx_allowed": i.timer.tx_allowed, "timer_tx_timeout": i.timer.tx_timeout,
            "timer_rx_timeout": i.timer.rx_timeout, "timer_start": i.timer.start,
            "crc_start": i.data_crc.start, "crc_crc": i.data_crc.crc})
        ts = self.ts = c.unit(ce, ports)
        I, O = self.I, self.O = ts.inputs, ts.outputs
        # the endpoint's real children, found by class (whatever USBControlEndpoint.elaborate calls the submodules and in
        # whatever order it creates them); their registers / FSMs are addressed through the instance (instance_reg, ...)
        from luna.gateware.usb.usb2.request import USBSetupDecoder
        from luna.gateware.usb.usb2.packet import USBDataPacketDeserializer
        sdi = self.setup_decoder = inside(ts, USBSetupDecoder, ce)
        dhi = inside(ts, USBDataPacketDeserializer, sdi)

        def sd(n):
            """a register of the setup decoder, by the decoder's own name for the flip-flop (signal paths are ambiguous: the
            decoder's module also sees its deserializer's `length`)"""
            return instance_reg(ts, sdi, n)
        # ---- the setup request as reported by the setup decoder (SetupPacket interface)
        self.received = sd("received") == 1
        self.f_type, self.f_request, self.f_value = sd("type"), sd("request"), sd("value")
        self.f_index, self.f_length, self.f_recipient = sd("index"), sd("length"), sd("recipient")
        self.f_is_in = sd("is_in_request") == 1
        self.fields = [self.f_type, self.f_request, self.f_value, self.f_index, self.f_length, self.f_recipient,
                       sd("is_in_request")]
        self.setup_ack = ts.of(sdi.ack) == 1
        self.new_packet = instance_reg(ts, dhi, "new_packet") == 1
        self.dec = instance_fsm(ts, sdi)
        self.ctl = instance_fsm(ts, ce)

        # ---- token events (interface of the token detector; C01)
        new_token = self.new_token = I["tok_new_token"] == 1
        pid = I["tok_pid"]
        self.is_in, self.is_out = I["tok_is_in"] == 1, I["tok_is_out"] == 1
        self.is_setup, self.is_ping = I["tok_is_setup"] == 1, I["tok_is_ping"] == 1
        self.ep0 = I["tok_endpoint"] == ep              # the most recent token targets this endpoint
        self.rfr = I["tok_ready_for_response"] == 1
        c.require("token_flags_decode_pid", z3.And(self.is_in == (pid == spec.PID_IN), self.is_out == (pid == spec.PID_OUT),
                                                    self.is_setup == (pid == spec.PID_SETUP), self.is_ping == (pid == spec.PID_PING)),
                  why="TokenDetectorInterface: is_in/is_out/is_setup/is_ping decode the reported PID (ensures of C01)")
        prev_pid = c.ghost("prev_pid", 4, init=0)
        prev_ep = c.ghost("prev_ep", 4, init=0)
        self.prev_pid, self.prev_ep = prev_pid, prev_ep
        c.set_next(prev_pid, pid)
        c.set_next(prev_ep, I["tok_endpoint"])
        c.require("token_fields_change_only_with_new_token",
                  z3.Implies(z3.Not(new_token), z3.And(pid == prev_pid, I["tok_endpoint"] == prev_ep)),
                  why="TokenDetectorInterface: pid/endpoint change only together with a new_token strobe (ensures of C01); "
                      "power-on values are 0")
        c.require("token_pid_is_a_token_pid", z3.Implies(new_token, z3.Or(self.is_in, self.is_out, self.is_setup, self.is_ping)),
                  why="TokenDetectorInterface: new_token only for IN/OUT/SETUP/PING (ensures of C01)")
        if not foreign_setup_tokens:
            c.require("setup_tokens_target_this_endpoint", z3.Implies(z3.And(new_token, self.is_setup), self.ep0),
                      why="scope: this property quantifies over setup packets sent to the control endpoint; SETUP tokens "
                          "addressed to other endpoint numbers are the subject of C07 (and C06), where they are not assumed away")
        # ---- the token detector, the handshake detector and the setup decoder's deserializer all watch the same UTMI
        #      receive stream.  A strobe of the token / handshake detector is raised in the cycle after its packet ended,
        #      so the line was idle in the previous cycle; two packets cannot end in the same cycle.
        rx_active, rx_valid = I["rx_active"] == 1, I["rx_valid"] == 1
        prev_active = self.prev_active = c.ghost("prev_active", 1, init=0)
        c.set_next(prev_active, I["rx_active"])
        c.require("utmi_wf", z3.Implies(rx_valid, z3.And(rx_active, prev_active == 1)),
                  why="UTMI receive protocol: rx_valid only while rx_active, never in the first rx_active cycle (as in C01/C04)")
        hs_any = z3.Or(*[I["hin_" + n] == 1 for n in ("ack", "nak", "stall", "nyet")])
        self.hs_any = hs_any
        c.require("detector_strobes_follow_end_of_packet", z3.Implies(z3.Or(new_token, hs_any), prev_active == 0),
                  why="token / handshake strobes are raised the cycle after the packet ended (C01, C04): the line was idle in "
                      "the previous cycle")
        c.require("one_packet_one_strobe", z3.And(z3.Not(z3.And(new_token, hs_any)),
                                                  z3.Implies(z3.Or(new_token, hs_any), z3.And(z3.Not(self.new_packet), z3.Not(self.received)))),
                  why="a packet is either a token, a handshake or a data packet; and a token/handshake packet cannot end in the "
                      "cycle in which (or the cycle after) a DATA packet ends: packets on one UTMI stream are at least two cycles "
                      "long and separated by an idle cycle")
        c.require("response_window_after_token", z3.Implies(z3.Or(self.rfr, I["rx_rfr"] == 1), z3.Not(new_token)),
                  why="ready_for_response is raised an inter-packet delay (>= 1 cycle) after the token strobe (USBTokenDetector); "
                      "the receiver's rx_ready_for_response an inter-packet delay after a DATA packet, never with a token strobe")
        # ---- spec-side control-transfer stage (USB 2.0 §8.5.3), advanced only by events for THIS endpoint
        self.setup_token = z3.And(new_token, self.is_setup, self.ep0)
        self.rcv = z3.And(self.received, self.ep0)     # a SETUP transaction for this endpoint has been decoded
        stage = self.stage = c.ghost("stage", 3, init=ST_SETUP)
        after_setup = z3.If(self.f_length != 0, z3.If(self.f_is_in, bvc(ST_DATA_IN, 3), bvc(ST_DATA_OUT, 3)), bvc(ST_STATUS_IN, 3))
        tok0 = z3.And(new_token, self.ep0)
        c.set_next(stage,
                   z3.If(self.setup_token, bvc(ST_SETUP, 3),
                   z3.If(stage == ST_SETUP, z3.If(self.rcv, after_setup, stage),
                   z3.If(z3.And(stage == ST_DATA_IN, tok0, z3.Or(self.is_out, self.is_ping)), bvc(ST_STATUS_OUT, 3),
                   z3.If(z3.And(stage == ST_DATA_OUT, tok0, self.is_in), bvc(ST_STATUS_IN, 3), stage)))))
        # the moments at which the device has to answer
        self.data_due = z3.And(stage == ST_DATA_IN, self.rfr, self.ep0, self.is_in)          # data-stage IN token, time to respond
        self.status_due = z3.Or(z3.And(stage == ST_STATUS_IN, self.rfr, self.ep0, self.is_in),
                                z3.And(stage == ST_STATUS_OUT, I["rx_rfr"] == 1, self.ep0, self.is_out))
        self.ping_probe = z3.And(z3.Or(stage == ST_DATA_OUT, stage == ST_STATUS_OUT), self.rfr, self.ep0, self.is_ping)
        # has the device had an opportunity to answer since the current request was reported?
        answered = self.answered = c.ghost("answered", 1, init=0)
        c.set_next(answered, z3.If(self.received, bvc(0, 1), z3.If(z3.Or(self.data_due, self.status_due), bvc(1, 1), answered)))

    # ---- abstraction map of the stage FSM and the setup decoder (shared invariants)
    def stage_invariants(self):
        c, ts = self.c, self.ts
        c.inv("ctl_fsm_legal", self.ctl.legal())
        c.inv("dec_fsm_legal", self.dec.legal())
        for code, name in STAGE_NAMES.items():
            c.inv(f"ctl_{name.lower()}_iff_stage", self.ctl.is_(name) == (self.stage == code))
        c.inv("stage_legal", z3.ULE(self.stage, ST_STATUS_OUT))
        # while the decoder waits for the DATA0 of a SETUP for us, and while it reports it, the transfer is in the SETUP stage
        c.inv("decoding_implies_setup_stage", z3.Implies(z3.Or(self.dec.is_("READ_DATA"), self.received), self.stage == ST_SETUP))
        c.inv("received_not_while_reading", z3.Implies(self.received, z3.Not(self.dec.is_("READ_DATA"))))
        # the decoder reads a SETUP for this endpoint only: the last token was that SETUP token
        c.inv("decoding_last_token_is_our_setup", z3.Implies(z3.Or(self.dec.is_("READ_DATA"), self.received),
                                                              z3.And(self.prev_ep == self.ep, self.prev_pid == spec.PID_SETUP)))

    def handler(self):
        """the real StandardRequestHandler instance of the endpoint (found by class)"""
        from luna.gateware.usb.request.standard import StandardRequestHandler
        return inside(self.ts, StandardRequestHandler, self.ce)

    def handler_fsm(self):
        return instance_fsm(self.ts, self.handler())

    def handler_child_fsm(self, is_transmitter):
        """FSM of one of the StandardRequestHandler's two sub-units, by role: its constant-response transmitter is the
        StreamSerializer it instantiates directly; its GET_DESCRIPTOR handler is its other direct child."""
        from hwv.extract import BindingError
        from luna.gateware.stream.generator import StreamSerializer
        ts, h = self.ts, self.handler()
        kids = {}
        for obj in ts.design.elaboratables:
            if type(obj).__module__.startswith("amaranth") or obj is h:
                continue
            if hier(ts, obj)[:-1] == hier(ts, h):
                kids.setdefault(hier(ts, obj), obj)          # (an elaborate() returning another Elaboratable: one module)
        pick = [o for o in kids.values() if isinstance(o, StreamSerializer) == is_transmitter]
        if len(pick) != 1:
            raise BindingError(f"StandardRequestHandler: expected one {'StreamSerializer' if is_transmitter else 'GET_DESCRIPTOR handler'} "
                               f"child, found {[type(o).__name__ for o in pick]}")
        return instance_fsm(ts, pick[0])

    def transfer_invariants(self):
        """(StandardRequestHandler configurations; used by C07 and C08)  Spec-side history `data_asked`, the PHY-progress
        assumption, and the part of the abstraction map that ties the current request to the stage and the handler's FSM
        and stream generators to the current transfer."""
        c, ts, stage = self.c, self.ts, self.stage
        h = self.handler_fsm()
        tx = self.tx_fsm = self.handler_child_fsm(is_transmitter=True)
        gd = self.gd_fsm = self.handler_child_fsm(is_transmitter=False)
        current = z3.Not(self.received)
        std = self.f_type == TYPE_STANDARD
        # a data-stage IN token of the current transfer has been answerable
        data_asked = self.data_asked = c.ghost("data_asked", 1, init=0)
        c.set_next(data_asked, z3.If(self.received, bvc(0, 1), z3.If(self.data_due, bvc(1, 1), data_asked)))
        c.require("no_transmission_pending_at_setup_token",
                  z3.Implies(self.setup_token, z3.And(tx.is_("IDLE"), gd.is_("IDLE"))),
                  why="half-duplex bus + PHY progress: the host cannot deliver the next SETUP token before the PHY has drained the "
                      "packet the endpoint was sending (tx.ready fairness is not expressible as a one-step input constraint)")
        in_with_data = self.in_with_data = z3.And(self.f_is_in, self.f_length != 0)
        out_with_data = z3.And(z3.Not(self.f_is_in), self.f_length != 0)
        c.inv("data_in_stage_request", z3.Implies(stage == ST_DATA_IN, in_with_data))
        c.inv("data_out_stage_request", z3.Implies(stage == ST_DATA_OUT, out_with_data))
        c.inv("status_out_stage_request", z3.Implies(stage == ST_STATUS_OUT, in_with_data))
        c.inv("status_in_stage_request", z3.Implies(stage == ST_STATUS_IN, z3.Not(in_with_data)))
        c.inv("data_asked_only_in_transfers_with_in_data_stage",
              z3.Implies(z3.And(data_asked == 1, current),
                         z3.And(in_with_data, z3.Or(stage == ST_DATA_IN, stage == ST_STATUS_OUT, stage == ST_SETUP))))
        c.inv("data_asked_implies_answered", z3.Implies(data_asked == 1, self.answered == 1))
        c.inv("handler_fsm_legal", h.legal())
        c.inv("tx_fsm_legal", tx.legal())
        c.inv("gd_fsm_legal", gd.legal())
        c.inv("handler_serves_current_request", z3.Implies(z3.And(current, std), z3.Or(h.is_("IDLE"), handler_state_for(self, h))))
        # the handler's stream generators only run when a data-stage IN token of the current transfer asked for data
        c.inv("generators_idle_in_setup_stage", z3.Implies(stage == ST_SETUP, z3.And(tx.is_("IDLE"), gd.is_("IDLE"))))
        c.inv("generators_run_only_when_asked", z3.Implies(z3.Or(z3.Not(tx.is_("IDLE")), z3.Not(gd.is_("IDLE"))), data_asked == 1))


DISPATCH = {REQ_GET_STATUS: "GET_STATUS", REQ_CLEAR_FEATURE: "CLEAR_FEATURE", REQ_SET_ADDRESS: "SET_ADDRESS",
            REQ_SET_CONFIGURATION: "SET_CONFIGURATION", REQ_GET_DESCRIPTOR: "GET_DESCRIPTOR",
            REQ_GET_CONFIGURATION: "GET_CONFIGURATION"}


def handler_state_for(env, h):
    """spec: which StandardRequestHandler state serves the current (standard) request"""
    e = h.is_("UNHANDLED")
    for req, name in DISPATCH.items():
        e = z3.If(env.f_request == req, h.is_(name), e)
    return e


def unsupported_standard(env):
    """statement: a standard request the device does not implement; CLEAR_FEATURE other than ENDPOINT_HALT on an endpoint"""
    std = env.f_type == TYPE_STANDARD
    unimpl = z3.And(std, z3.And(*[env.f_request != r for r in IMPLEMENTED]))
    bad_clear = z3.And(std, env.f_request == REQ_CLEAR_FEATURE,
                       z3.Or(env.f_recipient != RECIPIENT_ENDPOINT, env.f_value != FEATURE_ENDPOINT_HALT))
    return unimpl, bad_clear


def make(cfg):
    def contract(c):
        skip = ()
        if cfg == "std_skip":
            skip = (lambda setup: setup.request == REQ_GET_STATUS,)
        env = ControlEndpointEnv(c, handlers=cfg, skiplist=skip, foreign_setup_tokens=False)
        ts, I, O = env.ts, env.I, env.O
        env.stage_invariants()
        nonstd = env.f_type != TYPE_STANDARD
        if cfg == "nohandler":
            unimpl = bad_clear = z3.BoolVal(False)
            unclaimed = z3.BoolVal(True)
        else:
            unimpl, bad_clear = unsupported_standard(env)
            unclaimed = nonstd
            if cfg == "std_skip":
                skipped = z3.And(env.f_type == TYPE_STANDARD, env.f_request == REQ_GET_STATUS)
                unclaimed = z3.Or(nonstd, skipped)
                unimpl = z3.And(unimpl, z3.Not(skipped))
        U = z3.Or(unimpl, bad_clear, unclaimed)
        current = z3.Not(env.received)            # the request has been reported (strobe over) and is the current one

        # ---- abstraction map of the request handler: its FSM state is a function of the current request
        if cfg != "nohandler":
            h = env.handler_fsm()
            c.inv("handler_fsm_legal", h.legal())
            claimed_std = z3.And(env.f_type == TYPE_STANDARD, z3.Not(unclaimed))
            # unimplemented standard request: UNHANDLED until the first opportunity to answer, IDLE afterwards
            c.inv("unimplemented_is_unhandled_until_answered",
                  z3.Implies(z3.And(current, unimpl), z3.If(env.answered == 1, h.is_("IDLE"), h.is_("UNHANDLED"))))
            c.inv("clear_feature_state", z3.Implies(z3.And(current, bad_clear), h.is_("CLEAR_FEATURE")))
            status_sent = instance_path(ts, env.handler(), "clear_feature_status_sent")      # (incidental register: probed)
            if ts.has(status_sent):
                c.inv("bad_clear_feature_never_sends_status", z3.Implies(z3.And(current, bad_clear), ts.sig(status_sent) == 0))
            if cfg == "std_skip":
                c.inv("skipped_is_idle", z3.Implies(z3.And(current, env.f_type == TYPE_STANDARD, unclaimed), h.is_("IDLE")))

        handler_ack = z3.And(O["hout_ack"] == 1, z3.Not(env.setup_ack), z3.Not(env.ping_probe))
        c.ensure("never_data", z3.Implies(z3.And(U, current), O["tx_valid"] == 0),
                 clause="an unsupported / unclaimed request is never answered with data")
        c.ensure("never_ack", z3.Implies(U, z3.Not(handler_ack)),
                 clause="... never answered with an ACK (the only ACKs are the decoder's mandatory ACK of the SETUP packet itself "
                        "and the PING flow-control probe of the stage FSM)")
        c.ensure("never_state_change", z3.Implies(U, z3.And(O["address_changed"] == 0, O["config_changed"] == 0,
                                                              bits(O["clear_halt"], 0) == 0)),
                 clause="... never answered with a state change (address, configuration, endpoint halt)")
        first_due = z3.And(z3.Or(env.data_due, env.status_due), env.answered == 0)
        c.ensure("stalled_at_first_data_in_or_status", z3.Implies(z3.And(U, current, first_due), O["hout_stall"] == 1),
                 clause="... is STALLed at its first data-stage IN token or at its status stage")
        c.ensure("stall_only_when_due", z3.Implies(z3.And(U, current, O["hout_stall"] == 1), z3.Or(env.data_due, env.status_due)),
                 clause="(frame) a STALL is only issued in answer to a data-stage IN token or the status stage")
        c.ensure("never_nak", z3.Implies(U, O["hout_nak"] == 0), clause="(frame) and never a NAK")
        # the fallback keeps stalling; the two StandardRequestHandler paths are pinned down exactly:
        if cfg != "nohandler":
            c.ensure("unclaimed_stalled_every_time", z3.Implies(z3.And(unclaimed, current),
                                                                (O["hout_stall"] == 1) == z3.Or(env.data_due, env.status_due)),
                     clause="any non-standard request that no handler claims is STALLed (fallback handler, every opportunity)")
            c.ensure("bad_clear_feature_stalled_every_time", z3.Implies(z3.And(bad_clear, current),
                                                                        (O["hout_stall"] == 1) == z3.Or(env.data_due, env.status_due)),
                     clause="CLEAR_FEATURE other than ENDPOINT_HALT on an endpoint is STALLed at its first data-stage IN token or "
                            "at its status stage (and keeps being STALLed until the next SETUP)")
        else:
            c.ensure("unclaimed_stalled_every_time", (O["hout_stall"] == 1) == z3.Or(env.data_due, env.status_due),
                     clause="any request that no handler claims is STALLed (fallback handler, every opportunity)")

        # ---- vacuity guards
        c.cover("unsupported_request_reported", z3.And(env.rcv, U))
        c.cover("stall_issued", z3.And(U, O["hout_stall"] == 1))
        if cfg != "nohandler":
            c.cover("unimplemented_standard_stalled_in_data_stage", z3.And(unimpl, env.data_due, O["hout_stall"] == 1))
            c.cover("bad_clear_feature_stalled", z3.And(bad_clear, env.status_due, O["hout_stall"] == 1))
            c.cover("nonstandard_stalled", z3.And(nonstd, O["hout_stall"] == 1))
        c.cover_depth = 22
        c.bmc_depth = 48
    return contract


def mux_contract(c):
    """USBRequestHandlerMultiplexer: if no handler claims, every output is the fallback's (the StallOnlyRequestHandler the
    multiplexer creates itself): no data, no ACK/NAK, no state change, STALL iff data_requested | status_requested."""
    mux = USBRequestHandlerMultiplexer()
    a, b = RequestHandlerInterface(), RequestHandlerInterface()
    mux.add_interface(a); mux.add_interface(b)
    sh = mux.shared
    ports = {"data_requested": sh.data_requested, "status_requested": sh.status_requested,
             "tx_valid": sh.tx.valid, "tx_first": sh.tx.first, "tx_last": sh.tx.last, "tx_payload": sh.tx.payload,
             "ack": sh.handshakes_out.ack, "nak": sh.handshakes_out.nak, "stall": sh.handshakes_out.stall,
             "address_changed": sh.address_changed, "config_changed": sh.config_changed,
             "clear_halt": sh.clear_endpoint_halt.as_value(), "tx_data_pid": sh.tx_data_pid}
    for nm, x in (("a", a), ("b", b)):
        ports.update({f"{nm}_claim": x.claim, f"{nm}_tx_valid": x.tx.valid, f"{nm}_tx_first": x.tx.first,
                      f"{nm}_tx_last": x.tx.last, f"{nm}_tx_payload": x.tx.payload,
                      f"{nm}_ack": x.handshakes_out.ack, f"{nm}_nak": x.handshakes_out.nak, f"{nm}_stall": x.handshakes_out.stall,
                      f"{nm}_address_changed": x.address_changed, f"{nm}_new_address": x.new_address,
                      f"{nm}_config_changed": x.config_changed, f"{nm}_new_config": x.new_config,
                      f"{nm}_clear_halt": x.clear_endpoint_halt.as_value(), f"{nm}_tx_data_pid": x.tx_data_pid})
    ports.update({"new_address": sh.new_address, "new_config": sh.new_config})
    ts = c.unit(mux, ports)
    I, O = ts.inputs, ts.outputs
    none = z3.And(I["a_claim"] == 0, I["b_claim"] == 0)
    due = z3.Or(I["data_requested"] == 1, I["status_requested"] == 1)
    c.ensure("unclaimed_outputs_are_fallback_stall",
             z3.Implies(none, z3.And(O["tx_valid"] == 0, O["ack"] == 0, O["nak"] == 0, O["address_changed"] == 0,
                                     O["config_changed"] == 0, bits(O["clear_halt"], 0) == 0, (O["stall"] == 1) == due)),
             clause="any request that no handler claims is never answered with data, an ACK or a state change, and is STALLed")
    for nm, other in (("a", "b"), ("b", "a")):
        only = z3.And(I[f"{nm}_claim"] == 1, I[f"{other}_claim"] == 0)
        c.ensure(f"sole_claimer_{nm}_drives_outputs",
                 z3.Implies(only, z3.And(*[O[k] == I[f"{nm}_{k}"] for k in
                                           ("tx_valid", "tx_first", "tx_last", "tx_payload", "ack", "nak", "stall", "address_changed",
                                            "new_address", "config_changed", "new_config", "clear_halt", "tx_data_pid")])),
                 clause="(frame) a claiming handler's outputs are passed through unchanged")
    c.lemma("cover_placeholder", z3.BoolVal(True))


# ======================================================================================================================
#  Caller-side ("call" / wiring) obligations of the USB2 control path.
#
#  The leaf contracts above (and C06/C07/C08/C57) cut at interfaces: the RequestHandlerInterface between the control
#  endpoint and its request handlers, the SetupPacket / tokenizer / timer / CRC interfaces of the setup decoder.  Their
#  `require`s and observation points assume that the parent connects each unit the intended way.  The functions below state
#  that, field by field, on the netlist of the REAL parents (`USBRequestHandlerMultiplexer`, `USBControlEndpoint` with its
#  real children found by `ts.instance(...)`), as valid formulas over ALL values of every other signal and register
#  (`c.lemma`: no invariant, no require).  They are yielded from the contract files of the properties that rely on them
#  (C06: setup-decoder hookup; C07: request-handler interface + multiplexer; C08: commit strobes; C10: multiplexer;
#  C57: the composition USBSerialDevice really builds).
# ======================================================================================================================
def flat(obj):
    """name -> Signal for every signal of an interface object: Record fields (recursively), plain Signals and data Views
    (`Signal(StructLayout)`).  Field lists are taken from the objects themselves, so a field added to an interface is
    automatically part of the obligations (or trips `every_interface_field_is_classified`)."""
    from amaranth.hdl import Signal
    from amaranth.hdl.rec import Record
    out = {}

    def walk(prefix, x):
        if isinstance(x, Record):
            for fname, f in x.fields.items():
                walk(f"{prefix}_{fname}" if prefix else fname, f)
        elif isinstance(x, Signal):
            out[prefix] = x
        elif hasattr(x, "as_value") and isinstance(x.as_value(), Signal):
            out[prefix] = x.as_value()
    if isinstance(obj, Record):
        walk("", obj)
    else:
        for k, v in vars(obj).items():
            if not k.startswith("_"):
                walk(k, v)
    return out


# RequestHandlerInterface: direction of every field as documented in its docstring (I = input to the request handler)
RHI_TO_HANDLER_GROUPS = {            # group name -> predicate on the flat field name
    "setup": lambda n: n.startswith("setup_"),
    "tokenizer": lambda n: n.startswith("tokenizer_"),
    "stage_strobes_and_config": lambda n: n in ("data_requested", "status_requested", "active_config"),
    "handshakes_in": lambda n: n.startswith("handshakes_in_"),
    "rx": lambda n: n in ("rx_valid", "rx_next", "rx_payload", "rx_ready_for_response", "rx_invalid"),
}
RHI_FROM_HANDLER_GROUPS = {
    "tx": lambda n: n in ("tx_valid", "tx_first", "tx_last", "tx_payload"),
    "tx_data_pid": lambda n: n == "tx_data_pid",
    "handshakes_out": lambda n: n.startswith("handshakes_out_"),
    "commit_strobes": lambda n: n in ("address_changed", "new_address", "config_changed", "new_config", "clear_endpoint_halt"),
}
RHI_SPECIAL = ("claim", "tx_ready", "rx_expected")     # claim selects; tx.ready flows back to the selected handler only;
                                                       # rx_expected is connected nowhere in the library


def rhi_groups(x, table):
    f = flat(x)
    return {g: {n: s for n, s in f.items() if pred(n)} for g, pred in table.items()}


def rhi_unclassified(x):
    known = set(RHI_SPECIAL)
    for table in (RHI_TO_HANDLER_GROUPS, RHI_FROM_HANDLER_GROUPS):
        for fields in rhi_groups(x, table).values():
            known |= set(fields)
    return sorted(set(flat(x)) - known)


def wires(ts):
    """-> (of, same).  of(sig): the signal's term; a signal that is neither driven nor read anywhere in the design is not part
    of the netlist and rests at its reset value.  same(sink, source_term): `sink == source_term`; vacuous when nothing reads
    (and nothing drives) `sink`, since it cannot then influence anything."""
    from hwv.extract import BindingError

    def of(sig):
        try:
            return ts.of(sig)
        except BindingError:
            return bvc(sig.init, len(sig))

    def same(sink, source):
        try:
            v = ts.of(sink)
        except BindingError:
            return z3.BoolVal(True)
        return v == source
    return of, same


def exactly(k, claims):
    return z3.And(*[(cl == 1) if j == k else (cl == 0) for j, cl in enumerate(claims)])


def mux_obligations(c, ts, shared, handler_ifs, fallback_if, names=None):
    """The wiring a `USBRequestHandlerMultiplexer` must provide between `shared` and the handler interfaces
    `handler_ifs` (+ the fallback's), stated on the netlist `ts` (the multiplexer alone with free interfaces, or a real
    parent containing it together with real handlers).

      * fan-out: EVERY handler (and the fallback) sees every handler-input field of `shared`, whatever anybody claims;
      * selection: if exactly one handler claims, EVERY output field of `shared` is that handler's, for all values of the
        other handlers' (and the fallback's) output lines; if nobody claims, they are the fallback's;
      * `tx.ready` is passed back to the selected interface and to nobody else.
    Several simultaneous claims are outside the documented use ("only one handler will be driving at a time"): unspecified."""
    of, same = wires(ts)
    names = names or [f"h{k}" for k in range(len(handler_ifs))]
    allifs = list(zip(names, handler_ifs)) + [("fallback", fallback_if)]
    c.lemma("every_interface_field_is_classified", z3.BoolVal(rhi_unclassified(shared) == []),
            clause="(structural) every field of RequestHandlerInterface is covered by a wiring obligation: " + str(rhi_unclassified(shared)))
    sh_in = rhi_groups(shared, RHI_TO_HANDLER_GROUPS)
    for nm, x in allifs:
        mine = rhi_groups(x, RHI_TO_HANDLER_GROUPS)
        for g, fields in sh_in.items():
            c.lemma(f"{nm}_sees_shared_{g}", z3.And(*[same(mine[g][f], of(s)) for f, s in fields.items()]),
                    clause=f"every request handler sees the shared interface's {g} lines ({', '.join(fields)}), unconditionally")
    claims = [of(x.claim) for x in handler_ifs]
    sh_out = rhi_groups(shared, RHI_FROM_HANDLER_GROUPS)
    cases = [(nm, x, exactly(k, claims)) for k, (nm, x) in enumerate(zip(names, handler_ifs))]
    cases.append(("fallback", fallback_if, z3.And(*[cl == 0 for cl in claims])))
    for nm, x, cond in cases:
        mine = rhi_groups(x, RHI_FROM_HANDLER_GROUPS)
        why = "no handler claims: the fallback" if nm == "fallback" else f"only {nm} claims: it"
        for g, fields in sh_out.items():
            c.lemma(f"{nm}_selected_drives_shared_{g}",
                    z3.Implies(cond, z3.And(*[same(s, of(mine[g][f])) for f, s in fields.items()])),
                    clause=f"{why} drives the shared {g} lines ({', '.join(fields)}), whatever the other interfaces carry")
        # NOTE (as built, reported): when NO handler claims, the amaranth Encoder's `o` rests at 0, so handler 0 also sees
        # the shared tx.ready next to the fallback; no leaf contract relies on its absence (they take tx.ready as a free
        # input), so only the exactly-one-claim case pins the other interfaces' tx.ready to 0.
        others = [] if nm == "fallback" else [y for _, y in allifs if y is not x]
        c.lemma(f"{nm}_selected_gets_tx_ready",
                z3.Implies(cond, z3.And(same(x.tx.ready, of(shared.tx.ready)), *[same(y.tx.ready, 0) for y in others])),
                clause=f"{why} sees the shared tx.ready" + (" (and no other interface does)" if others else ""))


def make_mux_wiring(n, own_fallback):
    """USBRequestHandlerMultiplexer alone, `n` free handler interfaces; fallback = the StallOnlyRequestHandler the
    multiplexer creates (own_fallback=False) or a free interface given with set_fallback_interface()."""
    def contract(c):
        from luna.gateware.usb.usb2.request import StallOnlyRequestHandler
        mux = USBRequestHandlerMultiplexer()
        ifs = [RequestHandlerInterface() for _ in range(n)]
        for x in ifs:
            mux.add_interface(x)
        fb = None
        if own_fallback:
            fb = RequestHandlerInterface()
            mux.set_fallback_interface(fb)
        ports = {}
        for k, x in enumerate(ifs):
            ports.update({f"h{k}_{nm}": s for nm, s in flat(x).items()})
        if fb is not None:
            ports.update({f"fb_{nm}": s for nm, s in flat(fb).items()})
        ports.update({f"sh_{nm}": s for nm, s in flat(mux.shared).items()})
        ts = c.unit(mux, ports)
        if fb is None:
            fb = ts.instance(StallOnlyRequestHandler).interface
            of, _ = wires(ts)
            due = z3.Or(of(mux.shared.data_requested) == 1, of(mux.shared.status_requested) == 1)
            c.lemma("default_fallback_only_stalls",
                    z3.And(*[of(s) == (bv1(due) if nm == "handshakes_out_stall" else (1 if nm == "tx_data_pid" else 0))
                             for g in rhi_groups(fb, RHI_FROM_HANDLER_GROUPS).values() for nm, s in g.items()]),
                    clause="the fallback the multiplexer creates itself only ever STALLs (at data_requested / status_requested): "
                           "no data, no ACK/NAK, no state change, DATA1")
        mux_obligations(c, ts, mux.shared, ifs, fb)
    return contract


def control_endpoint_ports(ce):
    """every signal of the control endpoint's EndpointInterface + the UTMI receive lines, as named ports (undriven ones
    become free inputs; a signal that is not a port and not driven would silently be its reset value)"""
    u = ce.utmi
    ports = {"rx_data": u.rx_data, "rx_active": u.rx_active, "rx_valid": u.rx_valid}
    ports.update({"i_" + n: s for n, s in flat(ce.interface).items()})
    return ports


def hier(ts, obj):
    """hierarchical instance name (tuple of submodule names below the top) of a real sub-Elaboratable of the design"""
    return tuple(ts.design.fragments[ts.design.elaboratables[obj]].name[1:])


# ---- "the registers / signals / FSM of instance X": addressed through the real child OBJECT (found by class or by role:
#      ts.instance(Class), an attribute of the parent, whose ports are connected to what), never through the name the parent
#      happens to give the submodule.  The module of an instance is identified in the netlist by hier(); a name below is the
#      child's own (leaf-internal) Python-level signal name, which no refactoring of the parent can change.
def within(ts, obj, parent):
    """is the instance `obj` the instance `parent` itself or (transitively) one of its submodules?"""
    h, p = hier(ts, obj), hier(ts, parent)
    return h[:len(p)] == p


def inside(ts, cls, parent):
    """the one instance of class `cls` built inside the real instance `parent` (directly or deeper) -- "the setup decoder OF
    this control endpoint", "the FIFO OF that OUT endpoint": role, not name"""
    from hwv.extract import BindingError
    found = [x for x in ts.instances(cls) if x is not parent and within(ts, x, parent)]
    if len(found) != 1:
        raise BindingError(f"expected exactly one {cls.__name__} inside the {type(parent).__name__} instance at "
                           f"{'.'.join(hier(ts, parent)) or 'top'}, found {len(found)}")
    return found[0]


def instance_regs(ts, obj, deep=False):
    """[(own signal name or None, z3 state variable)] of every flip-flop in the module of the real sub-Elaboratable `obj`
    (deep=True: and in the modules below it), in netlist (creation) order"""
    from amaranth.hdl import _nir as nir
    h = ("top",) + hier(ts, obj)
    out = []
    for key, var in ts.state.items():
        if key[0] != 'ff':
            continue
        mod = tuple(ts.nl.modules[ts.nl.cells[key[1]].module_idx].name)
        if mod == h or (deep and mod[:len(h)] == h):
            sig = ts.ff_signal.get(key)
            out.append((ts._strip(sig.name) if sig is not None else None, var))
    return out


def instance_path(ts, obj, name):
    """hierarchical path of the signal `name` (the child's own name for it) inside the real sub-Elaboratable `obj`"""
    return ".".join(hier(ts, obj) + (name,))


def instance_sig(ts, obj, name):
    return ts.sig(instance_path(ts, obj, name))


def instance_fsm(ts, obj, name="fsm_state"):
    return ts.fsm(instance_path(ts, obj, name))


def instance_reg(ts, obj, name, width=None):
    """state variable of the flip-flop the child `obj` itself calls `name`.  If the child no longer has a register of that
    name but holds exactly one flip-flop of `width` bits, that one is meant (recorded as a followed rename: the contract is
    then degraded, see DESIGN §11.7)."""
    from hwv.extract import BindingError
    regs = instance_regs(ts, obj)
    hit = [v for n, v in regs if n == name]
    if len(hit) == 1:
        return hit[0]
    if not hit and width is not None:
        alt = [(n, v) for n, v in regs if v.size() == width]
        if len(alt) == 1:
            ts.rebound.append(f"{instance_path(ts, obj, name)} -> {alt[0][1]} (the only {width}-bit register of that {type(obj).__name__})")
            return alt[0][1]
    raise BindingError(f"no register {name!r} in the {type(obj).__name__} instance at {'.'.join(hier(ts, obj)) or 'top'} (has {[n for n, _ in regs]})")


def control_endpoint_obligations(c, ts, ce, ep, groups, handlers=()):
    """Wiring of the real `USBControlEndpoint` `ce` inside the netlist `ts` (the endpoint alone, or a device containing it).
    groups ⊆ {"setup_decoder", "request_interface", "commit", "handlers"}; `handlers`: [(name, real handler object)]."""
    from luna.gateware.usb.usb2.request import USBSetupDecoder, StallOnlyRequestHandler
    from luna.gateware.usb.usb2.packet import USBDataPacketDeserializer
    of, same = wires(ts)
    i = ce.interface
    sd = inside(ts, USBSetupDecoder, ce)              # the children OF THIS control endpoint, by class
    mux = inside(ts, USBRequestHandlerMultiplexer, ce)
    rh = mux.shared                                   # the post-multiplexer RequestHandlerInterface ("request_handler")
    ctl = instance_fsm(ts, ce)
    tok = i.tokenizer
    targeted = of(tok.endpoint) == ep
    eq_all = lambda sink, source: z3.And(*[same(sink[n], of(source[n])) for n in sink])

    if "setup_decoder" in groups:
        c.lemma("setup_decoder_speed_is_interface_speed", same(sd.speed, of(i.speed)),
                clause="the setup decoder's `speed` (which selects 'ACK at once' at high speed vs. 'wait for the inter-packet "
                       "timer') is the device speed given on the endpoint interface")
        c.lemma("setup_decoder_sees_interface_tokenizer", eq_all(flat(sd.tokenizer), flat(tok)),
                clause="every field of the setup decoder's tokenizer interface is the endpoint interface's (the token "
                       "detector's events: require token_detector_contract of C06)")
        c.lemma("setup_decoder_sees_interface_timer",
                z3.And(*[same(getattr(sd.timer, f), of(getattr(i.timer, f))) for f in ("tx_allowed", "tx_timeout", "rx_timeout")]),
                clause="the setup decoder's tx_allowed / tx_timeout / rx_timeout are the interface's inter-packet timer outputs (C05)")
        c.lemma("setup_decoder_starts_interface_timer", same(i.timer.start, of(sd.timer.start)),
                clause="the interface's timer start is the setup decoder's (its only user in the control endpoint): the gap is "
                       "measured from the end of the SETUP data packet")
        c.lemma("setup_decoder_sees_interface_crc", z3.And(same(sd.data_crc.crc, of(i.data_crc.crc)),
                                                           same(i.data_crc.start, of(sd.data_crc.start))),
                clause="the setup decoder checks against the interface's shared CRC16 unit and is the one to (re)start it "
                       "(require crc_unit_contract of C06)")
        dh = inside(ts, USBDataPacketDeserializer, sd)
        c.lemma("setup_decoder_watches_the_endpoints_utmi_bus", z3.BoolVal(sd.utmi is ce.utmi and dh.utmi is ce.utmi),
                clause="(structural) the setup decoder and its deserializer are built on the control endpoint's own UTMI bus")
        dec = instance_fsm(ts, sd)
        c.ensure("setup_decoder_arms_only_on_setup_tokens_for_this_endpoint",
                 z3.Implies(dec.is_("IDLE"), c.nx(dec.is_("READ_DATA")) ==
                            z3.And(of(tok.new_token) == 1, of(tok.pid) == spec.PID_SETUP, targeted)),
                 clause="(instance parameter endpoint_number) the decoder starts reading a setup packet exactly on a SETUP token "
                        "addressed to THIS control endpoint's number")
        c.lemma("setup_ack_reaches_the_interface", z3.Implies(of(sd.ack) == 1, of(i.handshakes_out.ack) == 1),
                clause="the setup decoder's ACK request is issued on the endpoint's handshake lines")
        c.lemma("setup_packet_reaches_the_request_handlers", eq_all(flat(rh.setup), flat(sd.packet)),
                clause="what the decoder reports (received strobe and every field) is what the request handlers are given")

    ping_ack = z3.And(ctl.is_("DATA_OUT", "STATUS_OUT"), targeted, of(tok.ready_for_response) == 1, of(tok.is_ping) == 1)
    if "request_interface" in groups:
        c.lemma("handlers_get_decoded_setup_packet", eq_all(flat(rh.setup), flat(sd.packet)),
                clause="the shared request-handler interface carries the setup decoder's packet: every field + received strobe")
        c.lemma("handlers_get_interface_tokenizer", eq_all(flat(rh.tokenizer), flat(tok)),
                clause="... and every field of the endpoint interface's tokenizer")
        c.lemma("handlers_get_interface_handshakes_in", eq_all(flat(rh.handshakes_in), flat(i.handshakes_in)),
                clause="... and the detected handshakes (ack / nak / stall / nyet, each its own line)")
        c.lemma("handlers_get_active_config", same(rh.active_config, of(i.active_config)),
                clause="... and the device's active configuration")
        c.lemma("handler_tx_stream_is_interface_tx",
                z3.And(*[same(getattr(i.tx, f), of(getattr(rh.tx, f))) for f in ("valid", "first", "last", "payload")],
                       same(rh.tx.ready, of(i.tx.ready))),
                clause="the endpoint's transmit stream is the (multiplexed) handler stream, ready flows back")
        c.lemma("handler_data_pid_is_interface_tx_pid_toggle", same(i.tx_pid_toggle, zx(of(rh.tx_data_pid), 2)),
                clause="the data PID of the endpoint's packets is the (multiplexed) handler's tx_data_pid")
        c.lemma("interface_handshakes_out",
                z3.And(same(i.handshakes_out.ack, bv1(z3.Or(of(sd.ack) == 1, of(rh.handshakes_out.ack) == 1, ping_ack))),
                       same(i.handshakes_out.nak, of(rh.handshakes_out.nak)),
                       same(i.handshakes_out.stall, of(rh.handshakes_out.stall))),
                clause="ACK = setup decoder's ACK | handlers' ACK | PING probe of the stage FSM; NAK and STALL are the handlers' own "
                       "lines (not swapped, not merged)")
        gate = z3.And(ctl.is_("DATA_OUT"), targeted, of(tok.is_out) == 1)
        rxpairs = [(rh.rx.valid, i.rx.valid), (rh.rx.next, i.rx.next), (rh.rx.payload, i.rx.payload),
                   (rh.rx_ready_for_response, i.rx_ready_for_response), (rh.rx_invalid, i.rx_invalid)]
        c.lemma("handlers_get_rx_only_in_own_out_data_stage",
                z3.And(*[same(a, z3.If(gate, of(b), bvc(0, of(b).size()))) for a, b in rxpairs]),
                clause="the handlers see the receive stream / rx strobes exactly while the stage is DATA_OUT and the last token is "
                       "an OUT for this endpoint, and see nothing otherwise")
    if "commit" in groups:
        c.lemma("commit_strobes_are_the_handlers",
                z3.And(same(i.address_changed, of(rh.address_changed)), same(i.new_address, of(rh.new_address)),
                       same(i.config_changed, of(rh.config_changed)), same(i.new_config, of(rh.new_config)),
                       same(i.clear_endpoint_halt_out.as_value(), of(rh.clear_endpoint_halt.as_value())),
                       same(rh.active_config, of(i.active_config))),
                clause="address_changed / new_address / config_changed / new_config / clear_endpoint_halt of the endpoint are the "
                       "(multiplexed) request handler's, each on its own line; the handlers see the device's active configuration")
    if "handlers" in groups:
        # the real multiplexer inside the real endpoint, between the real handlers
        fb = [h for h in ts.instances(StallOnlyRequestHandler) if hier(ts, h)[:-1] == hier(ts, mux)]
        c.lemma("one_fallback_stall_handler", z3.BoolVal(len(fb) == 1 and all(fb[0] is not x for _, x in handlers)),
                clause="(structural) the multiplexer's fallback is the StallOnlyRequestHandler it instantiates itself")
        mux_obligations(c, ts, rh, [h.interface for _, h in handlers], fb[0].interface, names=[n for n, _ in handlers])
        # ... end to end: what the sole claimer drives is what leaves the endpoint
        claims = [of(h.interface.claim) for _, h in handlers]
        for k, (nm, h) in enumerate(handlers):
            x = h.interface
            c.lemma(f"{nm}_sole_claimer_drives_the_endpoint_outputs",
                    z3.Implies(exactly(k, claims), z3.And(
                        *[same(getattr(i.tx, f), of(getattr(x.tx, f))) for f in ("valid", "first", "last", "payload")],
                        same(i.tx_pid_toggle, zx(of(x.tx_data_pid), 2)),
                        same(i.handshakes_out.ack, bv1(z3.Or(of(sd.ack) == 1, of(x.handshakes_out.ack) == 1, ping_ack))),
                        same(i.handshakes_out.nak, of(x.handshakes_out.nak)), same(i.handshakes_out.stall, of(x.handshakes_out.stall)),
                        same(i.address_changed, of(x.address_changed)), same(i.new_address, of(x.new_address)),
                        same(i.config_changed, of(x.config_changed)), same(i.new_config, of(x.new_config)),
                        same(i.clear_endpoint_halt_out.as_value(), of(x.clear_endpoint_halt.as_value())))),
                    clause=f"while only {nm} claims, the endpoint's tx stream, data PID, handshakes and commit strobes are that "
                           "handler's (whatever the other handlers' registers hold)")
            c.lemma(f"{nm}_is_given_the_decoded_setup_packet", eq_all(flat(x.setup), flat(sd.packet)),
                    clause=f"{nm} decodes the setup decoder's packet")


def make_control_endpoint_wiring(composition, groups, ep=0):
    """The real USBControlEndpoint, composed with real handlers:
         "standard": StandardRequestHandler only (USBDevice.add_standard_control_endpoint);
         "acm"     : StandardRequestHandler + ACMRequestHandlers + StallOnlyRequestHandler(vendor|reserved) (USBSerialDevice)."""
    def contract(c):
        from luna.gateware.usb.request.standard import StandardRequestHandler
        from luna.gateware.usb.usb2.request import StallOnlyRequestHandler
        ce = USBControlEndpoint(utmi=UTMIInterface(), endpoint_number=ep)
        ce.add_standard_request_handlers(small_descriptors())
        extra = []
        if composition == "acm":
            from luna.gateware.usb.devices.acm import ACMRequestHandlers
            from usb_protocol.types import USBRequestType
            extra = [("acm", ACMRequestHandlers()),
                     ("stall_vendor", StallOnlyRequestHandler(lambda setup: (setup.type == USBRequestType.VENDOR) |
                                                                             (setup.type == USBRequestType.RESERVED)))]
            for _, h in extra:
                ce.add_request_handler(h)
        ts = c.unit(ce, control_endpoint_ports(ce))
        handlers = [("standard", ts.instance(StandardRequestHandler))] + extra
        control_endpoint_obligations(c, ts, ce, ep, groups, handlers)
        if c.ensures and not c.invs:
            c.inv("no_state_needed", z3.BoolVal(True))
    return contract


# ======================================================================================================================
#  Caller-side "parameter plumbing": the request handler a parent builds IS the configuration the leaf contracts verify.
#
#  USBDevice.add_standard_control_endpoint(descriptors, **kw) and USBControlEndpoint.add_standard_request_handlers(
#  descriptors, **kw) hand their keyword arguments (skiplist / blacklist / avoid_blockram) and the endpoint's max_packet_size
#  to StandardRequestHandler.  The leaf proofs (C07/C08/C09/C10/C14) are about handlers constructed directly with those
#  parameters.  `instance_is_unit` states, on the netlist of the real parent, that the StandardRequestHandler instance its
#  elaborate() created has the same registers (names, widths, reset values) and -- with the reference's registers / ports
#  replaced by the instance's -- the same next-state and output functions as a reference StandardRequestHandler(descriptors,
#  <the parameters the parent was given>) elaborated on its own.  A dropped / defaulted / swapped parameter changes the
#  instance's functions (claim, FSM dispatch, packet length, start_position stride, handler variant) and refutes a lemma.
# ======================================================================================================================
def request_handler_ports(h):
    """(inputs, outputs): flat name -> Signal of a request handler's RequestHandlerInterface, by documented direction"""
    x = h.interface
    ins, outs = {}, {}
    for g in rhi_groups(x, RHI_TO_HANDLER_GROUPS).values():
        ins.update(g)
    for g in rhi_groups(x, RHI_FROM_HANDLER_GROUPS).values():
        outs.update(g)
    f = flat(x)
    ins["tx_ready"] = f["tx_ready"]
    outs["claim"] = f["claim"]
    return ins, outs


def _unit_registers(t, path):
    """relative name -> [state keys] of the registers below module path `path` ('' = the whole netlist).  ROM read-port
    registers have no signal name: they are named by their module and their ordinal within it."""
    from collections import defaultdict
    out, nth = defaultdict(list), defaultdict(int)
    want = tuple(path.split(".")) if path else ()
    for k, v in t.state.items():
        if k[0] == "rp":
            mod = tuple(t.nl.modules[t.nl.cells[k[1]].module_idx].name[1:])
            if mod[:len(want)] != want:
                continue
            rel = ".".join(mod[len(want):])
            nth[rel] += 1
            out[f"{rel}.<read port {nth[rel]}>"].append(k)
            continue
        name = t._strip(str(v))[len(t.prefix):]
        if not path:
            out[name].append(k)
        elif name.startswith(path + "."):
            out[name[len(path) + 1:]].append(k)
    return dict(out)


def instance_is_unit(c, ts, inst, ref, ports_of, label, clause):
    """Call obligation for a parameterised sub-unit (see the banner above).  inst: the real instance inside `ts`;
    ref: the same class constructed with the contracted parameters; ports_of(obj) -> (inputs, outputs) name -> Signal."""
    from hwv.extract import TS, BindingError
    rin, rout = ports_of(ref)
    iin, iout = ports_of(inst)
    rports = {f"i_{n}": x for n, x in rin.items()}
    rports.update({f"o_{n}": x for n, x in rout.items()})
    tr = TS(ref, rports, prefix=label + ".")
    path = ".".join(hier(ts, inst))
    c.functions.append(f"{type(ref).__module__}.{type(ref).__qualname__}.elaborate (reference configuration for the instance at {path})")
    sub = []
    for n, x in iin.items():
        if f"i_{n}" in tr.inputs:
            try:
                sub.append((tr.inputs[f"i_{n}"], ts.of(x)))
            except BindingError:          # nothing in the parent reads or drives it (then the unit does not read it either)
                pass
    for n, v in tr.inputs.items():        # clock / reset inputs of the domain: the parent's
        if not n.startswith("i_") and n in ts.inputs:
            sub.append((v, ts.inputs[n]))
    mine, theirs = _unit_registers(ts, path), _unit_registers(tr, "")
    shape = lambda t, r: {n: [(t.state[k].sort().kind(), t.state[k].size() if z3.is_bv(t.state[k]) else 0, str(t.init[k])) for k in ks]
                          for n, ks in r.items()}
    ok = bool(mine) and shape(ts, mine) == shape(tr, theirs)
    diff = sorted(set(mine) ^ set(theirs))[:6]
    c.lemma(f"{label}_instance_has_the_registers_of_the_contracted_configuration", z3.BoolVal(ok),
            clause=clause + " (same registers, widths and reset values" + (f"; differing: {diff}" if diff else "") + ")")
    if not ok:
        return tr
    pairs = [(km, kt) for n in sorted(mine) for km, kt in zip(mine[n], theirs[n])]
    sub += [(tr.state[kt], ts.state[km]) for km, kt in pairs]
    c.lemma(f"{label}_next_state_functions_are_the_contracted_ones",
            z3.And(*[ts.next[km] == z3.substitute(tr.next[kt], *sub) for km, kt in pairs]), clause=clause)
    outs = []
    for n, x in iout.items():
        if f"o_{n}" in tr.outputs:
            try:
                outs.append(ts.of(x) == z3.substitute(tr.outputs[f"o_{n}"], *sub))
            except BindingError:          # an output nothing in the parent looks at
                pass
    c.lemma(f"{label}_output_functions_are_the_contracted_ones", z3.And(*outs), clause=clause)
    return tr


SKIP_GET_STATUS = (lambda setup: setup.request == REQ_GET_STATUS,)


def make_handler_plumbing(via, kwargs, ref_kwargs, descriptors=small_descriptors, max_packet_size=64, what=""):
    """The StandardRequestHandler inside the real parent
         via="endpoint": USBControlEndpoint(utmi, max_packet_size=max_packet_size).add_standard_request_handlers(d, **kwargs)
         via="device"  : USBDevice(bus=utmi).add_standard_control_endpoint(d, **kwargs)         [EP0 size: the default, 64]
       is StandardRequestHandler(d, max_packet_size=max_packet_size, **ref_kwargs)."""
    def contract(c):
        import warnings
        from luna.gateware.usb.request.standard import StandardRequestHandler
        utmi = UTMIInterface()
        with warnings.catch_warnings():
            warnings.simplefilter("ignore", DeprecationWarning)
            if via == "endpoint":
                top = USBControlEndpoint(utmi=utmi, max_packet_size=max_packet_size)
                top.add_standard_request_handlers(descriptors(), **kwargs)
                ports = control_endpoint_ports(top)
            else:
                from luna.gateware.usb.usb2.device import USBDevice
                top = USBDevice(bus=utmi)
                top.add_standard_control_endpoint(descriptors(), **kwargs)
                ports = {n_: getattr(utmi, n_) for n_ in ("rx_data", "rx_active", "rx_valid", "tx_ready", "line_state", "session_end")}
                ports.update(connect=top.connect, low_speed_only=top.low_speed_only, full_speed_only=top.full_speed_only)
            ref = StandardRequestHandler(descriptors(), max_packet_size=max_packet_size, **ref_kwargs)
        ts = c.unit(top, ports)
        srh = ts.instance(StandardRequestHandler)
        instance_is_unit(c, ts, srh, ref, request_handler_ports, "std_ref",
                         clause=what or f"the parent's parameters reach the standard request handler: the instance is "
                                        f"StandardRequestHandler(descriptors, max_packet_size={max_packet_size}, {', '.join(ref_kwargs)})")
        c.cosim_cycles = 8
    return contract


def contracts(tier):
    yield ("USBControlEndpoint", "standard", make("standard"))
    yield ("USBControlEndpoint", "nohandler", make("nohandler"))
    yield ("USBControlEndpoint", "std_skip", make("std_skip"))
    yield ("USBRequestHandlerMultiplexer", "two_handlers", mux_contract)
    yield ("USBRequestHandlerMultiplexer", "wiring_3_handlers", make_mux_wiring(3, own_fallback=False))
    yield ("USBRequestHandlerMultiplexer", "wiring_2_handlers_given_fallback", make_mux_wiring(2, own_fallback=True))
    # caller side: the keyword arguments of the convenience constructors reach the handler (skip-listed requests are the
    # fallback's to STALL only if the skiplist really arrives)
    yield ("USBControlEndpoint", "plumbing_blacklist_is_skiplist",
           make_handler_plumbing("endpoint", {"blacklist": SKIP_GET_STATUS}, {"skiplist": SKIP_GET_STATUS}, what=
                                 "a skip-listed request is not claimed: the deprecated `blacklist` keyword of add_standard_request_handlers "
                                 "reaches the handler as its skiplist"))
    yield ("USBDevice", "plumbing_skiplist_reaches_handler",
           make_handler_plumbing("device", {"skiplist": SKIP_GET_STATUS, "avoid_blockram": True}, {"skiplist": SKIP_GET_STATUS, "avoid_blockram": True},
                                 what="a skip-listed request is not claimed: USBDevice.add_standard_control_endpoint(descriptors, skiplist=..., "
                                      "avoid_blockram=...) builds StandardRequestHandler(descriptors, max_packet_size=64, skiplist=..., avoid_blockram=...)"))
