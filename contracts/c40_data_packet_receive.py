"""C40 — each received data packet is reported good or bad exactly once (DataPacketReceiver).

Unit: the real DataPacketReceiver.  Its two CRC submodules (HeaderPacketCRC, DataPacketPayloadCRC) are used through their
contracts, which are proved for the real units in C30 (word/3B/2B/1B steps = bit-serial definition, clear reseeds with
priority, hold otherwise, output = inverted bit-reversed register): while the receiver is elaborated, the two class names in
luna.gateware.usb.usb3.link.data are bound to subclasses whose elaborate() is empty, so the units' `crc` outputs become free
inputs of the receiver netlist; they are constrained by `require`s over two ghost registers (h16, g32) which follow the
*call signals the real receiver code drives* (clear / advance_* / data_input).  `crc*_call_discipline` ensures discharge the
callee's precondition (at most one advance at a time).  Nothing of DataPacketReceiver.elaborate() is replaced.

Spec side.  A data packet on the (aligned, descrambled, SKP-free) word stream is: SHP SHP SHP EPF; DW0 (type field = DATA),
DW1 (data_length in [31:16]), DW2; DW3 = {crc5[31:27], link control word[26:16], crc16[15:0]}; SDP SDP SDP EPF; data_length
payload bytes; the CRC-32 of the payload in the four bytes immediately after the last payload byte.  All of it is read over
*valid* words only: a word with sink.valid = 0 is not part of the stream.  The ghost automaton `ph` below is the phase of
that grammar.  "CRC-16 of the header words" / "CRC-32 of the payload" are the callee registers h16 / g32 together with the
two `*_covers_exactly_*` ensures, which pin the call signals to the grammar events (reseeded while hunting, advanced
exactly over DW0..DW2 / over exactly min(remaining,4) bytes of each valid payload word, never otherwise): the same
arrangement as C03 (ghost register follows the calls; ensures say the calls cover exactly the payload).

Reading of the statement that is recorded here:
  * "data packet received" = a data packet header with valid CRC-5 and CRC-16 followed by the DPP start framing.  A header
    whose CRCs are wrong is never reported good (clause good ⇒ header CRCs valid); it is not reported bad either — the
    unit returns to hunting for the next header (the retry is the header receiver's job, C37).  This is how the unit is
    documented ("If either of our CRCs fail, this isn't going to be followed by a DPP we care about").
  * a control symbol inside the payload bytes ends the packet with `packet_bad` (the one report of that packet).
  * data_length <= 1024 (USB 3.2 max DPP payload; MAX_PACKET_SIZE) is an assumption on the traffic.
"""
import contextlib
import z3
from amaranth import Module, Signal
from hwv.contract import B, bvc, bits, bv1, zx
import luna.gateware.usb.usb3.link.data as data_mod
from luna.gateware.usb.usb3.link.crc import HeaderPacketCRC, DataPacketPayloadCRC
from . import spec

SHP, SDP, EPF = 0xFB, 0x5C, 0xF7                       # USB 3.2 table 6-1: K27.7, K28.2, K23.7
HPSTART = SHP | SHP << 8 | SHP << 16 | EPF << 24
DPPSTART = SDP | SDP << 8 | SDP << 16 | EPF << 24
TYPE_DATA = 0b01000                                     # USB 3.2 table 8-2: Data Packet Header
HUNT, DW0, DW1, DW2, DW3, HDRCHK, PAYLOAD, CRCCHK = range(8)


@contextlib.contextmanager
def open_crc_units(mod=data_mod):
    """Bind the CRC class names used by the elaborate() methods of module `mod` to open (empty-bodied) subclasses."""
    made = {"crc16": [], "crc32": []}
    p16, p32 = Signal(16, name="crc16_out"), Signal(32, name="crc32_out")

    class OpenCRC16(HeaderPacketCRC):
        def __init__(self, *a, **k):
            super().__init__(*a, **k)
            self.crc = p16
            made["crc16"].append(self)

        def elaborate(self, platform):
            return Module()

    class OpenCRC32(DataPacketPayloadCRC):
        def __init__(self, *a, **k):
            super().__init__(*a, **k)
            self.crc = p32
            made["crc32"].append(self)

        def elaborate(self, platform):
            return Module()

    old = mod.HeaderPacketCRC, getattr(mod, "DataPacketPayloadCRC", None)
    mod.HeaderPacketCRC = OpenCRC16
    if old[1] is not None:
        mod.DataPacketPayloadCRC = OpenCRC32
    try:
        yield p16, p32, made
    finally:
        mod.HeaderPacketCRC = old[0]
        if old[1] is not None:
            mod.DataPacketPayloadCRC = old[1]


def mask(k):
    return z3.If(k == 0, bvc(0, 4), z3.If(k == 1, bvc(1, 4), z3.If(k == 2, bvc(3, 4), z3.If(k == 3, bvc(7, 4), bvc(15, 4)))))


def popcount4(v):
    return sum((zx(bits(v, i), 16) for i in range(1, 4)), zx(bits(v, 0), 16))


def receiver(c):
    with open_crc_units() as (p16, p32, made):
        d = data_mod.DataPacketReceiver()
        s, src = d.sink, d.source
        ts = c.unit(d, {"sink_valid": s.valid, "sink_data": s.data, "sink_ctrl": s.ctrl, "crc16_out": p16, "crc32_out": p32,
                        "good": d.packet_good, "bad": d.packet_bad, "src_valid": src.valid, "src_data": src.data,
                        "src_first": src.first, "src_last": src.last})
    c.functions.append("callee contracts: luna.gateware.usb.usb3.link.crc.HeaderPacketCRC / DataPacketPayloadCRC (proved in C30)")
    I, O = ts.inputs, ts.outputs
    u16, u32 = made["crc16"][0], made["crc32"][0]
    of = ts.of
    valid, data, ctrl = I["sink_valid"] == 1, I["sink_data"], I["sink_ctrl"]

    # ------------------------------------------------------------ callee contracts (C30) over the call signals
    h16 = c.ghost("crc16_unit_reg", 16, init=0xFFFF)
    g32 = c.ghost("crc32_unit_reg", 32, init=0xFFFFFFFF)
    T16, T32 = spec.CRC16_USB3_TAPS, spec.CRC32_TAPS
    c.set_next(h16, z3.If(of(u16.clear) == 1, bvc(0xFFFF, 16),
                          z3.If(of(u16.advance_crc) == 1, spec.crc_step(h16, of(u16.data_input), T16), h16)))
    adv = [(u32.advance_word, 32), (u32.advance_3B, 24), (u32.advance_2B, 16), (u32.advance_1B, 8)]
    nxt32 = g32
    for sig, nb in reversed(adv):
        nxt32 = z3.If(of(sig) == 1, spec.crc_step(g32, of(u32.data_input), T32, nbits=nb), nxt32)
    c.set_next(g32, z3.If(of(u32.clear) == 1, bvc(0xFFFFFFFF, 32), nxt32))
    c.require("crc16_unit_contract", I["crc16_out"] == spec.crc_field(h16),
              why="contract of HeaderPacketCRC proved in C30: clear reseeds to all ones, advance_crc feeds the 32-bit data_input "
                  "LSB first through x^16+x^12+x^3+x+1, crc = inverted bit-reversed register")
    c.require("crc32_unit_contract", I["crc32_out"] == spec.crc_field(g32),
              why="contract of DataPacketPayloadCRC proved in C30: clear reseeds, advance_word/3B/2B/1B feed the low 4/3/2/1 bytes "
                  "of data_input through CRC-32, crc = inverted bit-reversed register (at most one advance per cycle: ensured below)")

    # ------------------------------------------------------------ spec: grammar of the valid-word stream
    ph = c.ghost("phase", 3, init=HUNT)
    glen = c.ghost("data_length", 16, init=0)          # DW1[31:16] of the header being received
    dw3 = c.ghost("dw3", 32, init=0)
    rem = c.ghost("bytes_remaining", 16, init=0)       # payload bytes not yet seen
    sent = c.ghost("bytes_emitted", 16, init=0)        # payload bytes put on the source stream for this packet (observed)
    prevw = c.ghost("last_payload_word", 32, init=0)
    lastk = c.ghost("last_word_bytes", 3, init=0)      # payload bytes in the last payload word (4: CRC starts on a word boundary)

    is_hp = z3.And(valid, data == HPSTART, ctrl == 0xF)
    is_dpp = z3.And(valid, data == DPPSTART, ctrl == 0xF)
    crc5_ok = bits(dw3, 31, 27) == spec.usb2_crc5(bits(dw3, 26, 16))
    crc16_ok = bits(dw3, 15, 0) == spec.crc_field(h16)
    hdr_ok = z3.And(crc5_ok, crc16_ok)
    k = z3.If(z3.UGE(rem, 4), bvc(4, 3), bits(rem, 2, 0))            # payload bytes in the current word
    ctrl_in_payload = (ctrl & mask(k)) != 0
    accept = z3.And(ph == HDRCHK, hdr_ok, is_dpp)                    # a data packet (valid header + DPP start) begins
    last_word = z3.And(ph == PAYLOAD, valid, z3.Not(ctrl_in_payload), z3.ULE(rem, 4))
    P = lambda v: bvc(v, 3)
    def cases(*pairs, default):
        e = default
        for cond, val in reversed(pairs):
            e = z3.If(cond, val, e)
        return e
    c.set_next(ph, cases(
        (ph == HUNT, z3.If(is_hp, P(DW0), P(HUNT))),
        (ph == DW0, z3.If(valid, z3.If(bits(data, 4, 0) == TYPE_DATA, P(DW1), P(HUNT)), P(DW0))),
        (ph == DW1, z3.If(valid, P(DW2), P(DW1))),
        (ph == DW2, z3.If(valid, P(DW3), P(DW2))),
        (ph == DW3, z3.If(valid, P(HDRCHK), P(DW3))),
        (ph == HDRCHK, cases((z3.Not(hdr_ok), P(HUNT)),
                             (is_dpp, z3.If(glen == 0, P(CRCCHK), P(PAYLOAD))),
                             (valid, P(HUNT)), default=P(HDRCHK))),
        (ph == PAYLOAD, cases((z3.Not(valid), P(PAYLOAD)), (ctrl_in_payload, P(HUNT)), (z3.UGT(rem, 4), P(PAYLOAD)), default=P(CRCCHK))),
        default=z3.If(valid, P(HUNT), P(CRCCHK))))
    c.set_next(glen, z3.If(z3.And(ph == DW1, valid), bits(data, 31, 16), glen))
    c.set_next(dw3, z3.If(z3.And(ph == DW3, valid), data, dw3))
    c.set_next(rem, z3.If(accept, glen, z3.If(z3.And(ph == PAYLOAD, valid, z3.UGT(rem, 4)), rem - 4, rem)))
    c.set_next(sent, z3.If(accept, bvc(0, 16), sent + popcount4(O["src_valid"])))
    c.set_next(prevw, z3.If(z3.And(ph == PAYLOAD, valid), data, prevw))
    c.set_next(lastk, z3.If(accept, bvc(4, 3), z3.If(z3.And(ph == PAYLOAD, valid), k, lastk)))
    c.require("data_length_at_most_1024", z3.Implies(z3.And(ph == DW1, valid), z3.ULE(bits(data, 31, 16), 1024)),
              why="USB 3.2: a DPP carries at most 1024 bytes (DataPacketReceiver.MAX_PACKET_SIZE)")

    # ------------------------------------------------------------ abstraction map
    fsm = ts.fsm("fsm_state")
    c.inv("fsm_legal", fsm.legal())
    for st, code in (("WAIT_FOR_HPSTART", HUNT), ("RECEIVE_DW0", DW0), ("RECEIVE_DW1", DW1), ("RECEIVE_DW2", DW2),
                     ("RECEIVE_DW3", DW3), ("CHECK_HEADER", HDRCHK), ("RECEIVE_PAYLOAD", PAYLOAD), ("CHECK_CRC32", CRCCHK)):
        c.inv(f"{st.lower()}_is_phase", fsm.is_(st) == (ph == code))
    hdr_phases = z3.Or(ph == DW0, ph == DW1, ph == DW2, ph == DW3, ph == HDRCHK)
    c.inv("crc32_unit_seeded_before_payload", z3.Implies(hdr_phases, g32 == 0xFFFFFFFF))
    c.inv("length_register", z3.Implies(z3.Or(ph == DW2, ph == DW3, ph == HDRCHK), bits(ts.sig("HeaderPacket__dw1"), 31, 16) == glen))
    c.inv("length_legal", z3.Implies(z3.UGE(ph, DW2), z3.ULE(glen, 1024)))
    c.inv("dw3_fields_captured", z3.Implies(ph == HDRCHK, z3.And(
        ts.sig("HeaderPacket__crc16") == bits(dw3, 15, 0), ts.sig("HeaderPacket__crc5") == bits(dw3, 31, 27),
        ts.sig("expected_crc5") == spec.usb2_crc5(bits(dw3, 26, 16)))))
    c.inv("packet_entered_only_after_valid_header", z3.Implies(z3.Or(ph == PAYLOAD, ph == CRCCHK), hdr_ok))
    c.inv("payload_counters", z3.Implies(ph == PAYLOAD, z3.And(
        zx(ts.sig("data_bytes_remaining"), 16) == rem, z3.UGE(rem, 1), sent + rem == glen, z3.ULE(rem, glen))))
    c.inv("payload_first_flag", z3.Implies(ph == PAYLOAD, (ts.sig("first") == 1) == (sent == 0)))
    c.inv("check_state", z3.Implies(ph == CRCCHK, z3.And(
        z3.UGE(lastk, 1), z3.ULE(lastk, 4), ts.sig("previous_valid") == mask(lastk), sent == glen,
        z3.Implies(lastk != 4, ts.sig("previous_word") == prevw))))

    # ------------------------------------------------------------ ensures (statement)
    good, bad = O["good"] == 1, O["bad"] == 1
    check_word = z3.If(lastk == 3, z3.Concat(bits(data, 23, 0), bits(prevw, 31, 24)),
                 z3.If(lastk == 2, z3.Concat(bits(data, 15, 0), bits(prevw, 31, 16)),
                 z3.If(lastk == 1, z3.Concat(bits(data, 7, 0), bits(prevw, 31, 8)), data)))
    crc32_ok = check_word == spec.crc_field(g32)
    in_packet = z3.Or(ph == PAYLOAD, ph == CRCCHK)
    c.ensure("good_iff_crc32_word_after_payload_matches", good == z3.And(ph == CRCCHK, valid, crc32_ok),
             clause="'good' is reported iff the header CRCs and the payload CRC32 are valid [the four bytes immediately after the "
                    "last payload byte equal the CRC-32 of the payload], ... after its payload, independently of idle (not-valid) "
                    "words the receive path inserts")
    c.ensure("good_only_after_valid_header", z3.Implies(in_packet, hdr_ok),
             clause="'good' is reported iff the header CRCs ... are valid: a packet is only entered after a header whose CRC-5 over "
                    "the link control word and CRC-16 over DW0..DW2 are correct")
    c.ensure("bad_iff_crc32_mismatch_or_control_symbol_in_payload",
             bad == z3.Or(z3.And(ph == CRCCHK, valid, z3.Not(crc32_ok)), z3.And(ph == PAYLOAD, valid, ctrl_in_payload)),
             clause="exactly one of 'packet good' or 'packet bad' is reported: bad exactly when the CRC32 word does not match (or the "
                    "payload is cut short by a control symbol)")
    c.ensure("never_both", z3.Not(z3.And(good, bad)), clause="exactly one of 'packet good' or 'packet bad'")
    c.ensure("a_report_ends_the_packet", z3.Implies(z3.Or(good, bad), z3.And(in_packet, z3.Not(c.nx(in_packet)))),
             clause="exactly one ... is reported, once: a report is only made for a packet in progress and that packet is then over "
                    "(no second report for it)")
    c.ensure("a_packet_ends_only_with_a_report", z3.Implies(z3.And(in_packet, z3.Not(c.nx(in_packet))), z3.Xor(good, bad)),
             clause="For every data packet received, exactly one of 'packet good' or 'packet bad' is reported")
    c.ensure("no_report_on_idle_words", z3.Implies(z3.Not(valid), z3.And(z3.Not(good), z3.Not(bad), z3.Implies(in_packet, c.nx(ph) == ph))),
             clause="independently of idle (not-valid) words the receive path inserts: an invalid word changes nothing and reports nothing")
    c.ensure("payload_stream_words", z3.And(
        z3.Implies(z3.And(ph == PAYLOAD, valid), z3.And(O["src_valid"] == mask(k), O["src_data"] == data,
                                                        (O["src_last"] == 1) == z3.ULE(rem, 4), (O["src_first"] == 1) == (sent == 0))),
        z3.Implies(z3.Not(z3.And(ph == PAYLOAD, valid)), O["src_valid"] == 0)),
        clause="the payload stream carries exactly [the payload bytes]: byte lanes valid for min(remaining,4) bytes of each valid "
               "payload word, data passed through, first/last mark the first/last word, nothing outside the payload")
    c.ensure("payload_stream_carries_exactly_data_length_bytes",
             z3.And(z3.Implies(ph == CRCCHK, sent == glen), z3.Implies(last_word, sent + popcount4(O["src_valid"]) == glen),
                    z3.Implies(in_packet, z3.ULE(sent, glen))),
             clause="the payload stream carries exactly data-length bytes (bytes emitted on source.valid lanes, summed over the packet)")
    pv = z3.And(ph == PAYLOAD, valid)
    c.ensure("crc32_covers_exactly_the_payload_bytes", z3.And(
        (of(u32.clear) == 1) == (ph == HUNT),
        (of(u32.advance_word) == 1) == z3.And(pv, k == 4), (of(u32.advance_3B) == 1) == z3.And(pv, k == 3),
        (of(u32.advance_2B) == 1) == z3.And(pv, k == 2), (of(u32.advance_1B) == 1) == z3.And(pv, k == 1),
        of(u32.data_input) == data),
        clause="the payload CRC32 [is that of the payload]: the CRC-32 unit is reseeded exactly while hunting for a header, and is "
               "advanced exactly once per valid payload word over exactly the min(remaining,4) payload bytes of that word (LSB "
               "first), never otherwise -- so its register is the CRC-32 of the payload bytes seen so far (callee precondition of "
               "C30: at most one advance strobe, never with clear)")
    c.ensure("crc16_covers_exactly_the_three_header_words", z3.And(
        (of(u16.clear) == 1) == (ph == HUNT),
        (of(u16.advance_crc) == 1) == z3.And(z3.Or(ph == DW0, ph == DW1, ph == DW2), valid),
        of(u16.data_input) == data),
        clause="the header CRCs: the CRC-16 unit is reseeded while hunting and advanced exactly over the valid words DW0, DW1, DW2 of "
               "the header, so in the header check its register is the CRC-16 of those three words")
    # ------------------------------------------------------------ covers
    c.cover("good_packet_unaligned", z3.And(good, glen == 5))
    c.cover("good_packet_aligned", z3.And(good, glen == 4, g32 != 0xFFFFFFFF))
    c.cover("good_zero_length_packet", z3.And(good, glen == 0))
    c.cover("bad_crc32", z3.And(bad, ph == CRCCHK))
    c.cover("bad_control_symbol", z3.And(bad, ph == PAYLOAD))
    c.cover("idle_word_before_crc", z3.And(ph == CRCCHK, z3.Not(valid)))
    c.cover("idle_word_in_payload", z3.And(ph == PAYLOAD, z3.Not(valid), sent != 0))
    c.cover("header_crc_failure", z3.And(ph == HDRCHK, z3.Not(hdr_ok)))
    c.cover_depth = 14


# ===================================================================================== wiring (caller-side obligations)
def link_and_protocol_layer_wiring(c):
    """Real USB3LinkLayer (open interfaces): the DataPacketReceiver instance looks at the physical layer's receive stream, and its
    reports / payload stream / header are the link layer's data_source* outputs; real USB3ProtocolLayer (open link layer): those are
    handed to the endpoint interface unchanged."""
    from .c37_header_receive import LinkLayerUnits, lemmas_receive_stream
    from .c46_ss_in_endpoint import stream_same, record_same, TX_STREAM
    U = LinkLayerUnits(c)
    S, d, rx, ts = U.S, U.d, U.data_rx, U.ts
    lemmas_receive_stream(c, U, [("data_packet_receiver", rx.sink)], clause="For every data packet received: the receiver sees the physical layer's receive stream")
    c.lemma("link_layer_reports_are_the_receivers", z3.And(S(d.data_source_complete, rx.packet_good), S(d.data_source_invalid, rx.packet_bad)),
            clause="exactly one of 'packet good' or 'packet bad' is reported: the link layer's data_source_complete / data_source_invalid are "
                   "the receiver's packet_good / packet_bad")
    c.lemma("link_layer_payload_stream_and_header_are_the_receivers",
            z3.And(stream_same(ts, d.data_source, rx.source, TX_STREAM), record_same(ts, d.data_header_from_host, rx.header)),
            clause="the payload stream carries exactly data-length bytes: data_source (valid, payload, first, last) and data_header_from_host "
                   "(every field) are the receiver's")


def protocol_layer_rx_wiring(c):
    from .c46_ss_in_endpoint import open_protocol_layer, same, stream_same, record_same, TX_STREAM
    d, link, ts = open_protocol_layer(c)
    ep = d.endpoint_interface
    c.lemma("endpoint_interface_rx_is_link_data_source",
            z3.And(stream_same(ts, ep.rx, link.data_source, TX_STREAM), record_same(ts, ep.rx_header, link.data_header_from_host),
                   same(ts, ep.rx_complete, link.data_source_complete), same(ts, ep.rx_invalid, link.data_source_invalid)),
            clause="reported ... once: the endpoint interface's rx stream, rx_header (every field), rx_complete and rx_invalid are the link layer's")
    c.cosim_cycles = 16


def contracts(tier):
    yield ("DataPacketReceiver", "", receiver)
    yield ("USB3LinkLayer", "wiring_data_rx", link_and_protocol_layer_wiring)
    yield ("USB3ProtocolLayer", "wiring_data_rx", protocol_layer_rx_wiring)


LEVEL = "proof"
EXPLANATION = ("Unbounded inductive proof for the real DataPacketReceiver with its CRC units used through their C30 contracts. On the "
               "unchanged tree the check reports genuine defects (CHECK_CRC32 repeats after 'good' and ignores sink.valid; a zero-length "
               "payload's CRC32 word is never compared; a control symbol in the last payload word yields two 'bad' reports); "
               "proposed_fixes/C40_check_crc32_once_and_zlp.diff makes every obligation pass.")
ASSUMPTIONS = ["data_length <= 1024", "CRC unit contracts (C30)",
               "a header with wrong CRC-5/CRC-16 is neither reported good nor bad (reading of 'data packet received')"]
