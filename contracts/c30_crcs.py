"""C30 — every CRC implementation equals its standard (bit-serial) definition.

The XOR networks are compared with the unrolled bit-serial definition by the GF(2) affine normaliser (complete for this
fragment; z3 does not terminate on the 64-input CRC32 miter).  The registers' control (clear / advance priority / hold)
is proved on the netlist with the control inputs fixed to each combination, again by normal form, and by z3 for the
clear/hold cases.  The spec functions are validated on published vectors (CRC-32 check 0xCBF43926, CRC-16/USB 0xB4C8, a
captured USB3 link management packet, the repo's own token/data packet captures).
"""
import z3
from amaranth import Elaboratable, Module, Signal
from hwv.contract import B, bvc, bits
from luna.gateware.usb.usb2.packet import USBTokenDetector, USBDataPacketCRC, DataCRCInterface
from luna.gateware.usb.usb3.link.crc import compute_usb_crc5, HeaderPacketCRC, DataPacketPayloadCRC
from . import spec


class _Wrap(Elaboratable):
    """Calls the real combinational CRC5 function on an 11-bit input (the function builds Amaranth expressions)."""
    def __init__(self, fn):
        self.fn, self.i, self.o = fn, Signal(11), Signal(5)

    def elaborate(self, platform):
        m = Module()
        m.d.comb += self.o.eq(self.fn(self.i))
        return m


def crc5(fn, where):
    def contract(c):
        w = _Wrap(fn)
        ts = c.unit(w, {"i": w.i, "o": w.o}, under_contract=where)
        c.comb("crc5_equals_bit_serial_definition", ts.outputs["o"], spec.usb2_crc5(ts.inputs["i"]), method="gf2",
               clause="CRC5: x^5+x^2+1, seed 11111, 11 protected bits LSB first, remainder inverted, MSB first")
        c.comb("crc5_equals_bit_serial_definition_z3", ts.outputs["o"], spec.usb2_crc5(ts.inputs["i"]), method="z3",
               clause="same, cross-checked by z3 (2^11 inputs)")
    return contract


def fixed(e, I, **ctl):
    """next-state term with the 1-bit control inputs fixed to constants (then folded)."""
    subs = [(I[n], bvc(v, 1)) for n, v in ctl.items()]
    return z3.simplify(z3.substitute(e, *subs))


def at(**ctl):
    return ctl


def usb2_crc16(c):
    d = USBDataPacketCRC()
    a, b = DataCRCInterface(), DataCRCInterface()
    d.add_interface(a); d.add_interface(b)
    ts = c.unit(d, {"rx_data": d.rx_data, "rx_valid": d.rx_valid, "tx_data": d.tx_data, "tx_valid": d.tx_valid,
                    "start_a": a.start, "start_b": b.start, "crc_a": a.crc, "crc_b": b.crc})
    I, O = ts.inputs, ts.outputs
    reg = ts.sig("crc")
    nxt = c.nx(reg)
    ctl0 = dict(usb_rst=0, start_a=0, start_b=0, rx_valid=0, tx_valid=0)
    T = spec.CRC16_USB2_TAPS
    c.comb("rx_byte_advances_by_definition", fixed(nxt, I, **{**ctl0, "rx_valid": 1}), spec.crc_step(reg, I["rx_data"], T), at={**ctl0, "rx_valid": 1},
           method="gf2", clause="a received byte advances the CRC16 register exactly as 8 steps of the bit-serial x^16+x^15+x^2+1 CRC")
    c.comb("tx_byte_advances_by_definition", fixed(nxt, I, **{**ctl0, "tx_valid": 1}), spec.crc_step(reg, I["tx_data"], T), at={**ctl0, "tx_valid": 1},
           method="gf2", clause="a transmitted byte advances the CRC16 register by the same definition")
    c.comb("rx_has_priority", fixed(nxt, I, **{**ctl0, "rx_valid": 1, "tx_valid": 1}), spec.crc_step(reg, I["rx_data"], T), at={**ctl0, "rx_valid": 1, "tx_valid": 1},
           method="gf2", clause="(receive data is used when both valids are high)")
    c.ensure("start_reseeds", z3.Implies(z3.Or(I["start_a"] == 1, I["start_b"] == 1), nxt == 0xFFFF),
             clause="initial value all ones")
    c.ensure("holds_without_data", z3.Implies(z3.And(I["start_a"] == 0, I["start_b"] == 0, I["rx_valid"] == 0, I["tx_valid"] == 0),
                                              nxt == reg), clause="the register only changes on start or data")
    c.inv("true", z3.BoolVal(True))
    for o in ("crc_a", "crc_b"):
        c.comb(f"{o}_is_inverted_msb_first", O[o], spec.crc_field(reg), method="gf2", clause="output inversion and reflection")
    c.cover("nonzero", z3.And(I["rx_valid"] == 1, reg != 0xFFFF))


def usb3_hdr_crc16(c):
    d = HeaderPacketCRC()
    ts = c.unit(d, {"clear": d.clear, "data_input": d.data_input, "advance_crc": d.advance_crc, "crc": d.crc})
    I, O = ts.inputs, ts.outputs
    reg = ts.sig("crc$1") if ts.has("crc$1") else [ts.of(s) for p, s in ts.paths.items() if p.startswith("crc") and p != "crc"][0]
    nxt = c.nx(reg)
    c.comb("word_advances_by_definition", fixed(nxt, I, ss_rst=0, clear=0, advance_crc=1),
           spec.crc_step(reg, I["data_input"], spec.CRC16_USB3_TAPS), method="gf2", at=dict(ss_rst=0, clear=0, advance_crc=1),
           clause="a header word advances the CRC16 register as 32 steps of the bit-serial x^16+x^12+x^3+x+1 CRC, LSB first")
    c.ensure("clear_reseeds", z3.Implies(I["clear"] == 1, nxt == 0xFFFF), clause="initial value all ones; clear has priority")
    c.ensure("holds_without_advance", z3.Implies(z3.And(I["clear"] == 0, I["advance_crc"] == 0), nxt == reg))
    c.inv("true", z3.BoolVal(True))
    c.comb("output_is_inverted_msb_first", O["crc"], spec.crc_field(reg), method="gf2", clause="output inversion and reflection")
    c.cover("advanced", z3.And(reg != 0xFFFF, I["advance_crc"] == 1))


def usb3_crc32(c):
    d = DataPacketPayloadCRC()
    names = ["clear", "data_input", "advance_word", "advance_3B", "advance_2B", "advance_1B", "crc", "next_crc_3B",
             "next_crc_2B", "next_crc_1B"]
    ts = c.unit(d, {n: getattr(d, n) for n in names})
    I, O = ts.inputs, ts.outputs
    (key, reg), = [(k, v) for k, v in ts.state.items() if k[0] == "ff"]
    nxt = c.nx(reg)
    T = spec.CRC32_TAPS
    adv = {"advance_word": 32, "advance_3B": 24, "advance_2B": 16, "advance_1B": 8}
    z = dict(ss_rst=0, clear=0, advance_word=0, advance_3B=0, advance_2B=0, advance_1B=0)
    for nm, nb in adv.items():
        c.comb(f"{nm}_by_definition", fixed(nxt, I, **{**z, nm: 1}), spec.crc_step(reg, I["data_input"], T, nbits=nb), at={**z, nm: 1},
               method="gf2", clause=f"{nm}: the register advances by {nb} steps of the bit-serial CRC-32 over the low {nb // 8} byte(s), LSB first")
    c.ensure("clear_reseeds", z3.Implies(I["clear"] == 1, nxt == 0xFFFFFFFF), clause="initial value all ones; clear has priority")
    c.ensure("holds_without_advance", z3.Implies(z3.And(*[I[n] == 0 for n in ["clear"] + list(adv)]), nxt == reg))
    c.inv("true", z3.BoolVal(True))
    c.comb("crc_output_is_inverted_msb_first", O["crc"], spec.crc_field(reg), method="gf2", clause="output inversion and reflection")
    for nm, nb in (("next_crc_3B", 24), ("next_crc_2B", 16), ("next_crc_1B", 8)):
        c.comb(f"{nm}_is_crc_of_trailing_bytes", O[nm], spec.crc_field(spec.crc_step(reg, I["data_input"], T, nbits=nb)),
               method="gf2", clause=f"{nm}: the CRC-32 including the {nb // 8} trailing byte(s) of the word, without advancing the register")
    c.cover("advanced", z3.And(reg != 0xFFFFFFFF, I["advance_2B"] == 1))


def contracts(tier):
    yield ("USB2TokenCRC5", "", crc5(USBTokenDetector._generate_crc_for_token,
                                     "luna.gateware.usb.usb2.packet.USBTokenDetector._generate_crc_for_token"))
    yield ("USB3LinkCRC5", "", crc5(compute_usb_crc5, "luna.gateware.usb.usb3.link.crc.compute_usb_crc5"))
    yield ("USBDataPacketCRC", "", usb2_crc16)
    yield ("HeaderPacketCRC", "", usb3_hdr_crc16)
    yield ("DataPacketPayloadCRC", "", usb3_crc32)
