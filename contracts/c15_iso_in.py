"""C15 — isochronous IN endpoints send exactly the requested bytes per frame (USBIsochronousStreamInEndpoint).

Observer ghosts (from the endpoint's inputs only; they *prescribe* what the endpoint has to do):
    framed  a start of frame has been seen since power-on
    req     bytes requested for the current frame = bytes_in_frame in the cycle of the most recent new_frame
    sent    payload bytes taken by the transmitter since that new_frame
    pidx    data packets completed since that new_frame
    ph      IDLE / SEND (a data packet is being transmitted) / ZLP (a zero-length packet is signalled in this cycle)
    psent   bytes of the current packet taken by the transmitter
  a *poll* is a response slot for an IN token to this endpoint number.  The monitor answers a poll in IDLE with a data
  packet of min(max_packet, req-sent) bytes if sent < req, with a ZLP otherwise.

Environment assumptions:
  * bytes_in_frame <= 3 x max packet size at new_frame (the property's quantifier; docstring of the class),
  * no start-of-frame while the endpoint is transmitting (half-duplex bus: the host does not send SOF during the
    device's packet) and new_frame never coincides with a response slot (both come from the token detector: new_frame
    one cycle after a SOF packet, the response slot an inter-packet delay after a later IN token: C01).

Not part of the statement, not claimed: the `frame_finished` strobe (it is raised one cycle after *every* SEND_DATA cycle in
which one byte is left, i.e. repeatedly while the transmitter stalls on the last byte, before that byte is sent).
"""
import z3
from hwv.contract import B, bvc, bits, zx
from luna.gateware.usb.usb2.endpoints.isochronous_stream_in import USBIsochronousStreamInEndpoint

LEVEL = "proof"
EXPLANATION = ("1-induction on the netlist of the real USBIsochronousStreamInEndpoint: bytes_left_in_frame / bytes_left_in_packet / "
               "next_data_pid / FSM are functions of the observer ghosts (requested, sent, packets completed) for any counts.")
ASSUMPTIONS = [
    "C15: bytes_in_frame <= 3 x max_packet_size when new_frame is raised",
    "C15: no new_frame while the endpoint is transmitting, and new_frame never coincides with a response slot for this endpoint",
]
IDLE, SEND, ZLP = 0, 1, 2
NW = 13


def make(MAX, epnum=4):
    def contract(c):
        d = USBIsochronousStreamInEndpoint(endpoint_number=epnum, max_packet_size=MAX)
        itf = d.interface
        ports = {"i_s_valid": d.stream.valid, "i_s_payload": d.stream.payload, "o_s_ready": d.stream.ready,
                 "i_bytes_in_frame": d.bytes_in_frame, "i_new_frame": itf.tokenizer.new_frame,
                 "i_tok_endpoint": itf.tokenizer.endpoint, "i_tok_is_in": itf.tokenizer.is_in, "i_tok_rfr": itf.tokenizer.ready_for_response,
                 "i_tx_ready": itf.tx.ready, "o_tx_valid": itf.tx.valid, "o_tx_first": itf.tx.first, "o_tx_last": itf.tx.last,
                 "o_tx_payload": itf.tx.payload, "o_pid": itf.tx_pid_toggle,
                 "o_data_requested": d.data_requested, "o_frame_finished": d.frame_finished}
        ts = c.unit(d, ports)
        I, O, n = ts.inputs, ts.outputs, c.nx
        W = lambda e: zx(e, NW)
        K = lambda v: bvc(v, NW)
        poll = z3.And(I["i_tok_endpoint"] == epnum, I["i_tok_is_in"] == 1, I["i_tok_rfr"] == 1)
        new_frame, tx_ready = I["i_new_frame"] == 1, I["i_tx_ready"] == 1
        valid, first, last = O["o_tx_valid"] == 1, O["o_tx_first"] == 1, O["o_tx_last"] == 1

        framed = c.ghost("framed", 1)
        req, sent = c.ghost("req", NW), c.ghost("sent", NW)
        pidx = c.ghost("pidx", 2)
        ph = c.ghost("ph", 2, init=IDLE)
        psent = c.ghost("psent", NW)
        idle, send, zlp = ph == IDLE, ph == SEND, ph == ZLP
        left = req - sent                                            # bytes of this frame not yet sent
        final = z3.Or(psent == MAX - 1, left == 1)                   # the byte on offer completes the packet (full) or the frame
        xfer = z3.And(send, tx_ready)
        done = z3.And(xfer, final)

        c.require("requested_bytes_within_three_packets", z3.Implies(new_frame, z3.ULE(W(I["i_bytes_in_frame"]), 3 * MAX)),
                  why="property quantifier: per-frame byte counts 0..3 x max packet size (class docstring: at most N x maxPacketSize, N<=3)")
        c.require("no_start_of_frame_while_transmitting", z3.Not(z3.And(new_frame, z3.Or(send, zlp))),
                  why="half-duplex bus: the host does not send a SOF packet while the device is transmitting its data packet")
        c.require("start_of_frame_and_response_slot_exclusive", z3.Not(z3.And(new_frame, poll)),
                  why="new_frame is raised one cycle after a SOF packet, ready_for_response an inter-packet delay after a later IN "
                      "token; the token detector starts its timer for non-SOF tokens only (C01)")

        c.set_next(framed, z3.If(new_frame, bvc(1, 1), framed))
        c.set_next(req, z3.If(new_frame, W(I["i_bytes_in_frame"]), req))
        c.set_next(sent, z3.If(new_frame, K(0), z3.If(xfer, sent + 1, sent)))
        c.set_next(pidx, z3.If(new_frame, bvc(0, 2), z3.If(done, pidx + 1, pidx)))
        c.set_next(psent, z3.If(send, z3.If(done, K(0), z3.If(xfer, psent + 1, psent)), K(0)))
        c.set_next(ph, z3.If(idle, z3.If(poll, z3.If(left != 0, bvc(SEND, 2), bvc(ZLP, 2)), bvc(IDLE, 2)),
                        z3.If(send, z3.If(done, bvc(IDLE, 2), bvc(SEND, 2)), bvc(IDLE, 2))))

        # packets the frame needs, and the PID of packet number pidx: DATA2/DATA1/DATA0, DATA1/DATA0 or DATA0
        npk = z3.If(z3.UGT(req, 2 * MAX), bvc(3, 2), z3.If(z3.UGT(req, MAX), bvc(2, 2), bvc(1, 2)))
        pid_spec = npk - 1 - pidx

        # ---- abstraction
        fsm = ts.fsm("fsm_state")
        blf, blp = ts.sig("bytes_left_in_frame"), ts.sig("bytes_left_in_packet")
        c.inv("fsm_legal", fsm.legal())
        c.inv("ph_legal", z3.ULE(ph, 2))
        c.inv("idle", fsm.is_("IDLE") == idle)
        c.inv("send_data", fsm.is_("SEND_DATA") == send)
        c.inv("send_zlp", fsm.is_("SEND_ZLP") == zlp)
        c.inv("before_first_frame_nothing_requested", z3.Implies(framed == 0, z3.And(req == 0, sent == 0, pidx == 0)))
        c.inv("requested_bound", z3.And(z3.ULE(req, 3 * MAX), z3.ULE(sent, req)))
        c.inv("frame_counter", W(blf) == left)
        c.inv("packet_counter_sending", z3.Implies(send, z3.And(W(blp) == MAX - psent, z3.ULT(psent, MAX), left != 0)))
        c.inv("packet_counter_between_packets", z3.Implies(z3.And(z3.Not(send), framed == 1), W(blp) == MAX))
        c.inv("psent_zero_unless_sending", z3.Implies(z3.Not(send), psent == 0))
        c.inv("packets_before_are_full", z3.Implies(left != 0, sent == zx(pidx, NW) * MAX + psent))
        c.inv("pidx_bound", z3.ULE(zx(pidx, NW) * MAX, sent + (MAX - 1)))
        c.inv("pid_register", z3.Implies(framed == 1, O["o_pid"] == pid_spec))
        c.inv("pid_register_before_first_frame", z3.Implies(framed == 0, O["o_pid"] == 0))
        c.inv("first_register", (ts.of(itf.tx.first) == 1) == z3.And(send, psent == 0))

        # ---- ensures
        c.ensure("transmits_exactly_when_answering_a_poll", valid == z3.Or(send, zlp),
                 clause="data is sent only as the answer to an IN token for this endpoint: a data packet while bytes of the frame are left, else a ZLP")
        c.ensure("poll_with_bytes_left_starts_data_packet", z3.Implies(z3.And(idle, poll, left != 0), z3.And(n(valid), n(first), z3.Not(valid))),
                 clause="in every frame the endpoint sends the requested bytes: an IN token while bytes are left is answered with a data packet")
        c.ensure("poll_with_nothing_left_gets_zlp",
                 z3.Implies(z3.And(idle, poll, left == 0), z3.And(n(valid), n(last), z3.Not(n(first)), z3.Not(c.nx(valid, 2)))),
                 clause="an IN token in a frame with nothing (left) to send gets a zero-length packet")
        c.ensure("packet_ends_at_max_packet_size_or_frame_end", z3.Implies(send, z3.And(last == final, first == (psent == 0))),
                 clause="split into packets of at most the max packet size; the frame's last packet carries the remaining bytes")
        c.ensure("packet_length_at_most_max", z3.Implies(send, z3.ULT(psent, MAX)), clause="packets of at most the max packet size")
        c.ensure("never_more_than_requested", z3.And(z3.ULE(sent, req), z3.Implies(send, z3.ULT(sent, req))),
                 clause="exactly the number of bytes requested for that frame (never more; a byte is only offered while bytes are left)")
        c.ensure("packet_continues_until_its_final_byte", z3.Implies(z3.And(send, z3.Not(done)), n(valid)),
                 clause="exactly the number of bytes requested: a packet is not cut short")
        c.ensure("non_final_packets_are_full", z3.Implies(z3.And(done, left != 1), psent == MAX - 1),
                 clause="split into packets of the max packet size; only the packet that completes the frame may be shorter")
        c.ensure("bytes_in_order_from_stream_zero_filled",
                 z3.Implies(send, z3.And(O["o_tx_payload"] == z3.If(I["i_s_valid"] == 1, I["i_s_payload"], bvc(0, 8)),
                                         (O["o_s_ready"] == 1) == tx_ready)),
                 clause="taken in order from its stream (each byte sent is the stream's current byte, consumed exactly when the transmitter takes it), zero-filled while the stream has no data")
        c.ensure("stream_untouched_outside_data_packets", z3.Implies(z3.Not(send), O["o_s_ready"] == 0),
                 clause="taken in order from its stream: no stream byte is consumed outside a data packet")
        c.ensure("pid_by_packets_needed", z3.Implies(send, O["o_pid"] == pid_spec),
                 clause="labelled DATA2/DATA1/DATA0, DATA1/DATA0 or DATA0 according to how many packets the frame needs")
        c.ensure("pid_of_empty_frame_zlp", z3.Implies(z3.And(zlp, req == 0), O["o_pid"] == 0),
                 clause="a frame with zero bytes: the ZLP is DATA0")
        c.ensure("pid_fixed_when_packet_starts", z3.Implies(z3.And(idle, poll, left != 0), z3.And(O["o_pid"] == pid_spec, n(O["o_pid"]) == O["o_pid"])),
                 clause="the PID is already selected when the packet is announced")
        c.ensure("request_latched_at_start_of_frame", z3.Implies(new_frame, z3.And(n(req) == W(I["i_bytes_in_frame"]), n(sent) == 0)),
                 clause="the number of bytes requested for that frame (latched at the start of the frame)")

        # ---- vacuity
        small = MAX <= 8
        c.cover("three_packet_frame_data2", z3.And(send, O["o_pid"] == 2))
        c.cover("second_of_three_data1", z3.And(send, O["o_pid"] == 1, req == 2 * MAX + 1), reach=small)
        c.cover("third_of_three_data0_short", z3.And(done, O["o_pid"] == 0, req == 2 * MAX + 1, psent == 0), reach=small)
        c.cover("zlp_after_frame_done", z3.And(zlp, req != 0), reach=small)
        c.cover("zlp_empty_frame", z3.And(zlp, req == 0, framed == 1))
        c.cover("zero_fill", z3.And(xfer, I["i_s_valid"] == 0))
        c.cover("stream_byte", z3.And(xfer, I["i_s_valid"] == 1, I["i_s_payload"] == 0x5A))
        c.cover("stall", z3.And(send, z3.Not(tx_ready), psent == min(1, MAX - 1)))
        if MAX > 3:
            c.cover("short_single_packet", z3.And(done, req == 3, psent == 2))
        c.cover_depth = 3 * MAX + 16 if small else 14
    return contract


def contracts(tier):
    sizes = (8, 64, 1024) if tier == "quick" else (1, 2, 8, 16, 64, 512, 1023, 1024)
    for m in sizes:
        yield ("USBIsochronousStreamInEndpoint", f"max{m}", make(m))
