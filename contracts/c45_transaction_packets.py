"""C45 — Transaction packet requests produce the requested transaction packet (TransactionPacketGenerator).

Statement: "Each request to send an ACK, STALL, NRDY or ERDY made while the generator is ready produces exactly one
transaction packet of that subtype, carrying the device address, endpoint number, retry flag and sequence number present
when the request was made."

Spec side (USB 3.2 §8.5, Transaction Packets; header DW0/DW1 bit positions):
    DW0: [4:0] Type = 00100b (TRANSACTION)   [24:5] route string   [31:25] device address
    DW1: [3:0] SubType (ACK=1, NRDY=2, ERDY=3, STALL=5)   [6] Rty (ACK)   [7] direction   [11:8] endpoint number
         [20:16] NumP (ACK, ERDY)   [25:21] Seq Num (ACK)
Spec machine (ghosts; driven only by the request strobes / fields on the interface and by the header queue handshake):
    pend   : NONE | ACK | STALL | NRDY | ERDY   -- the request accepted and not yet delivered
    g_addr, g_ep, g_retry, g_seq                 -- the values on the inputs in the cycle the request was made
    multi                                         -- the accepted request cycle had more than one strobe (see below)
    NONE --(some strobe)--> kind          kind --(header_source.valid & ready: the packet is taken)--> NONE
A packet is *produced* in a cycle with header_source.valid & header_source.ready.

Simultaneous strobes: the statement's "each request ... produces exactly one packet of that subtype" cannot hold for
two strobes in the same cycle with one header queue; no require is added for it.  The main clauses are stated for cycles
with exactly one strobe; for several strobes in one cycle the contract demands one packet whose subtype is one of the
requested ones (and the same latched fields).

Endpoint number: the interface field is 7 bits wide, the packet field 4 bits: the packet carries the low 4 bits.

Caller side: USB3ProtocolLayer (handshake interface and address reach the generator; its packets reach the link layer's header
sink through the header arbiter) and USBSuperSpeedDevice (`device_wiring`: the generator's address input is the device's address
register - 0 after power-on, cleared on link reset, new_address of the endpoint multiplexer after address_changed - and is the same
register the link layer puts into data headers; likewise current_configuration).

Finding on the unchanged tree (see proposed_fixes/C45_erdy_request_sends_erdy.diff): DISPATCH_REQUESTS sends a
`send_erdy` request to the SEND_NRDY state; the packet produced has SubType NRDY.
"""
import z3
from hwv.contract import B, bits, zx, bvc
from amaranth import Elaboratable, Module
from luna.gateware.usb.usb3.protocol.transaction import TransactionPacketGenerator

LEVEL = "proof"
EXPLANATION = ("Real TransactionPacketGenerator. Ghost = pending request kind + address/endpoint/retry/sequence sampled "
               "from the interface inputs in the request cycle. Invariant: FSM state <-> pending kind, latched registers = "
               "sampled values. Ensures: ready iff nothing pending; header valid iff pending (held until taken, then "
               "dropped: exactly one packet per accepted request, none without); type/subtype/address/endpoint/retry/"
               "sequence of the offered header as sampled; done iff packet taken. Unbounded 1-induction.")
ASSUMPTIONS = ["the 'ss' domain reset is not asserted",
               "clauses for 'each request' are stated for cycles with exactly one request strobe; with several strobes in "
               "one cycle one packet of one of the requested subtypes is produced (proved), the others are dropped"]

NONE, ACK, STALL, NRDY, ERDY = 0, 1, 2, 3, 4
SUBTYPE = {ACK: 1, NRDY: 2, ERDY: 3, STALL: 5}                       # USB 3.2 table 8-12
STATE = {ACK: "SEND_ACK", STALL: "SEND_STALL", NRDY: "SEND_NRDY", ERDY: "SEND_ERDY"}
NAME = {ACK: "ack", STALL: "stall", NRDY: "nrdy", ERDY: "erdy"}
TYPE_TRANSACTION = 4
DIR_OUT, DIR_IN = 0, 1


def generator(c):
    d = TransactionPacketGenerator()
    i, q, h = d.interface, d.header_source, d.header_source.header
    ts = c.unit(d, {"address": d.address, "ep": i.endpoint_number, "retry": i.retry_required,
                    "seq": i.next_sequence, "send_ack": i.send_ack, "send_stall": i.send_stall,
                    "send_nrdy": i.send_nrdy, "send_erdy": i.send_erdy, "ready": i.ready, "done": i.done,
                    "hdr_valid": q.valid, "hdr_ready": q.ready, "dw0": h.dw0, "dw1": h.dw1, "dw2": h.dw2})
    I, O = ts.inputs, ts.outputs
    strobe = {ACK: I["send_ack"], STALL: I["send_stall"], NRDY: I["send_nrdy"], ERDY: I["send_erdy"]}
    nreq = sum((zx(s, 3) for s in strobe.values()), bvc(0, 3))
    anyreq = nreq != 0
    only = {k: z3.And(strobe[k] == 1, nreq == 1) for k in strobe}

    pend = c.ghost("pend", 3, init=NONE)
    mask = c.ghost("req_mask", 4, init=0)          # strobes present in the accepted request cycle (bit k-1 = kind k)
    g_addr = c.ghost("g_addr", 7, init=0)
    g_ep = c.ghost("g_ep", 7, init=0)
    g_retry = c.ghost("g_retry", 1, init=0)
    g_seq = c.ghost("g_seq", 5, init=0)
    idle = pend == NONE
    taken = z3.And(z3.Not(idle), I["hdr_ready"] == 1)         # the pending packet is taken by the header queue
    single_kind = z3.If(only[ACK], bvc(ACK, 3), z3.If(only[STALL], bvc(STALL, 3), z3.If(only[NRDY], bvc(NRDY, 3), bvc(ERDY, 3))))
    # several strobes: priority in the order the statement lists them is NOT imposed; we record the set and resolve the
    # kind as "highest-numbered requested kind" only to have a deterministic spec machine; the ensures for that case
    # accept any requested subtype.
    multi_kind = z3.If(strobe[ERDY] == 1, bvc(ERDY, 3), z3.If(strobe[NRDY] == 1, bvc(NRDY, 3),
                 z3.If(strobe[STALL] == 1, bvc(STALL, 3), bvc(ACK, 3))))
    new_kind = z3.If(nreq == 1, single_kind, multi_kind)
    req_mask_now = z3.Concat(strobe[ERDY], strobe[NRDY], strobe[STALL], strobe[ACK])
    c.set_next(pend, z3.If(idle, z3.If(anyreq, new_kind, bvc(NONE, 3)), z3.If(taken, bvc(NONE, 3), pend)))
    c.set_next(mask, z3.If(z3.And(idle, anyreq), req_mask_now, mask))
    for g, src in ((g_addr, I["address"]), (g_ep, I["ep"]), (g_retry, I["retry"]), (g_seq, I["seq"])):
        c.set_next(g, z3.If(z3.And(idle, anyreq), src, g))
    single = z3.Or(mask == 1, mask == 2, mask == 4, mask == 8)

    # ---- refinement map
    fsm = ts.fsm("fsm_state")
    c.inv("fsm_legal", fsm.legal())
    c.inv("pend_legal", z3.ULE(pend, ERDY))
    c.inv("dispatch_iff_nothing_pending", fsm.is_("DISPATCH_REQUESTS") == idle)
    c.inv("mask_records_request", z3.Implies(z3.Not(idle), mask != 0))
    for k in (ACK, STALL, NRDY, ERDY):
        c.inv(f"pending_kind_was_requested_{NAME[k]}", z3.Implies(pend == k, bits(mask, k - 1) == 1))
        # single request of kind k  <=>  the FSM is in that kind's send state
        c.inv(f"{STATE[k].lower()}_iff_{NAME[k]}_pending", z3.Implies(single, fsm.is_(STATE[k]) == (pend == k)))
    # several strobes at once: the FSM sends one of the requested kinds
    c.inv("multi_request_state_is_a_requested_kind", z3.Implies(z3.And(z3.Not(idle), z3.Not(single)), z3.Or(
        *[z3.And(fsm.is_(STATE[k]), bits(mask, k - 1) == 1) for k in (ACK, STALL, NRDY, ERDY)])))
    c.try_inv("latched_address", lambda: z3.Implies(z3.Not(idle), ts.sig("device_address") == g_addr))
    c.try_inv("latched_endpoint", lambda: z3.Implies(z3.Not(idle), ts.sig("endpoint_number") == g_ep))
    c.try_inv("latched_retry", lambda: z3.Implies(z3.Not(idle), ts.sig("data_error") == g_retry))
    c.try_inv("latched_sequence", lambda: z3.Implies(z3.Not(idle), ts.sig("next_sequence") == g_seq))

    # ---- header fields at the spec's bit positions
    dw0, dw1 = O["dw0"], O["dw1"]
    f_type, f_route, f_addr = bits(dw0, 4, 0), bits(dw0, 24, 5), bits(dw0, 31, 25)
    f_sub, f_rty, f_dir, f_ep = bits(dw1, 3, 0), bits(dw1, 6), bits(dw1, 7), bits(dw1, 11, 8)
    f_nump, f_seq = bits(dw1, 20, 16), bits(dw1, 25, 21)
    valid = O["hdr_valid"] == 1
    produced = z3.And(valid, I["hdr_ready"] == 1)

    # ---- ensures
    c.ensure("ready_iff_no_request_outstanding", (O["ready"] == 1) == idle,
             clause="'while the generator is ready': ready is offered exactly when no accepted request is still undelivered")
    c.ensure("packet_offered_iff_request_outstanding", valid == z3.Not(idle),
             clause="each request made while ready produces exactly one transaction packet: a header is offered from the cycle "
                    "after the request until the header queue takes it, and no header is offered without a request")
    c.ensure("request_accepted_starts_packet_next_cycle", z3.Implies(z3.And(O["ready"] == 1, anyreq), c.nx(O["hdr_valid"]) == 1),
             clause="each request made while the generator is ready produces a packet")
    c.ensure("no_request_no_packet", z3.Implies(z3.And(O["ready"] == 1, z3.Not(anyreq)), c.nx(O["hdr_valid"]) == 0),
             clause="exactly one packet per request: none without a request")
    c.ensure("exactly_one_packet_then_ready_again", z3.Implies(produced, z3.And(c.nx(O["hdr_valid"]) == 0, c.nx(O["ready"]) == 1)),
             clause="exactly one transaction packet per request; afterwards the generator is ready for the next request")
    c.ensure("packet_held_until_taken", z3.Implies(z3.And(valid, I["hdr_ready"] == 0),
             z3.And(c.nx(O["hdr_valid"]) == 1, c.nx(dw0) == dw0, c.nx(dw1) == dw1, c.nx(O["dw2"]) == O["dw2"])),
             clause="all header-queue ready timings: the packet is held unchanged until the queue takes it (requests made "
                    "meanwhile, while not ready, do not alter it)")
    c.ensure("done_iff_packet_taken", (O["done"] == 1) == produced,
             clause="completion is reported exactly when the packet is taken")
    for k in (ACK, STALL, NRDY, ERDY):
        c.ensure(f"{NAME[k]}_request_produces_{NAME[k]}_subtype",
                 z3.Implies(z3.And(pend == k, single), z3.And(valid, f_type == TYPE_TRANSACTION, f_sub == SUBTYPE[k])),
                 clause=f"a request to send {NAME[k].upper()} made while ready produces a transaction packet of subtype {NAME[k].upper()}")
        c.ensure(f"{NAME[k]}_next_cycle_after_request",
                 z3.Implies(z3.And(O["ready"] == 1, only[k]),
                            z3.And(c.nx(O["hdr_valid"]) == 1, c.nx(f_sub) == SUBTYPE[k], c.nx(f_type) == TYPE_TRANSACTION,
                                   c.nx(f_addr) == I["address"], c.nx(f_ep) == bits(I["ep"], 3, 0))),
                 clause=f"{NAME[k].upper()} request while ready: the packet offered next cycle has that subtype and the "
                        "address / endpoint number present when the request was made")
    c.ensure("multi_request_subtype_is_a_requested_one", z3.Implies(z3.And(z3.Not(idle), z3.Not(single)), z3.And(
        f_type == TYPE_TRANSACTION, z3.Or(*[z3.And(bits(mask, k - 1) == 1, f_sub == SUBTYPE[k]) for k in (ACK, STALL, NRDY, ERDY)]))),
        clause="several strobes in the same cycle: one packet, of one of the requested subtypes")
    c.ensure("carries_device_address_of_request", z3.Implies(valid, f_addr == g_addr),
             clause="carrying the device address present when the request was made")
    c.ensure("carries_endpoint_number_of_request", z3.Implies(valid, f_ep == bits(g_ep, 3, 0)),
             clause="carrying the endpoint number present when the request was made (4-bit packet field)")
    c.ensure("ack_carries_retry_flag_of_request", z3.Implies(z3.And(valid, f_sub == SUBTYPE[ACK]), f_rty == g_retry),
             clause="carrying the retry flag present when the request was made (ACK TP, Rty bit)")
    c.ensure("ack_carries_sequence_number_of_request", z3.Implies(z3.And(valid, f_sub == SUBTYPE[ACK]), f_seq == g_seq),
             clause="carrying the sequence number present when the request was made (ACK TP, Seq Num)")
    c.ensure("ack_next_cycle_retry_and_sequence",
             z3.Implies(z3.And(O["ready"] == 1, only[ACK]),
                        z3.And(c.nx(f_rty) == I["retry"], c.nx(f_seq) == I["seq"])),
             clause="ACK: retry flag and sequence number present when the request was made")
    # fields not named by the statement, pinned from USB 3.2 §8.5 (device-originated TPs: route string 0; the generator
    # acknowledges OUT data and flow-controls IN endpoints; one packet per ACK/ERDY, no bursting)
    c.ensure("spec_fixed_fields", z3.Implies(valid, z3.And(
        f_route == 0,
        z3.Implies(z3.Or(f_sub == SUBTYPE[ACK], f_sub == SUBTYPE[STALL]), f_dir == DIR_OUT),
        z3.Implies(z3.Or(f_sub == SUBTYPE[NRDY], f_sub == SUBTYPE[ERDY]), f_dir == DIR_IN),
        z3.Implies(z3.Or(f_sub == SUBTYPE[ACK], f_sub == SUBTYPE[ERDY]), f_nump == 1),
        z3.Implies(f_sub != SUBTYPE[ACK], z3.And(f_rty == 0, f_seq == 0)))),
        clause="(beyond the statement, USB 3.2 §8.5) route string 0, direction OUT for ACK/STALL and IN for NRDY/ERDY, NumP = 1, "
               "no retry/sequence bits in non-ACK packets")
    c.ensure("silent_when_idle", z3.Implies(idle, z3.And(O["hdr_valid"] == 0, O["done"] == 0)),
             clause="no packet without a request")

    for k in (ACK, STALL, NRDY, ERDY):
        c.cover(f"{NAME[k]}_packet_produced", z3.And(produced, pend == k, single, g_addr != 0, bits(g_ep, 3, 0) != 0))
    c.cover("ack_with_retry_and_sequence", z3.And(produced, pend == ACK, single, g_retry == 1, g_seq == 21))
    c.cover("queue_stalls_packet", z3.And(valid, I["hdr_ready"] == 0, anyreq))
    c.cover("two_strobes_at_once", z3.And(produced, z3.Not(single)))
    c.cover("back_to_back_requests", z3.And(produced, c.nx(z3.And(O["ready"] == 1, anyreq))))


def layer_wiring(c):
    from luna.gateware.usb.usb3.protocol.layer import USB3ProtocolLayer
    from .c47_timestamp import OpenLinkLayer
    link = OpenLinkLayer()
    d = USB3ProtocolLayer(link_layer=link)
    ho = d.endpoint_interface.handshakes_out
    ts = c.unit(d, {"current_address": d.current_address, "ep": ho.endpoint_number, "retry": ho.retry_required,
                    "seq": ho.next_sequence, "send_ack": ho.send_ack, "send_stall": ho.send_stall, "send_nrdy": ho.send_nrdy,
                    "send_erdy": ho.send_erdy, "ready": ho.ready, "done": ho.done})
    I, O = ts.inputs, ts.outputs
    g = ts.instance(TransactionPacketGenerator)
    of = ts.of
    c.comb("generator_address_is_device_address", of(g.address), I["current_address"],
           clause="the device address carried is the device's current address")
    for port, sig in (("ep", g.interface.endpoint_number), ("retry", g.interface.retry_required), ("seq", g.interface.next_sequence),
                      ("send_ack", g.interface.send_ack), ("send_stall", g.interface.send_stall),
                      ("send_nrdy", g.interface.send_nrdy), ("send_erdy", g.interface.send_erdy)):
        c.comb(f"generator_sees_endpoint_{port}", of(sig), I[port], clause="endpoint handshake interface reaches the generator unchanged")
    c.comb("endpoint_sees_generator_ready", O["ready"], of(g.interface.ready))
    c.comb("endpoint_sees_generator_done", O["done"], of(g.interface.done))
    c.inv("true", z3.BoolVal(True))


def header_path_wiring(c):
    """USB3ProtocolLayer.elaborate(): the generator's packets reach the link layer's header_sink through the layer's
    HeaderQueueArbiter (second producer: the link management packet handler).  All interface signals are free inputs."""
    from luna.gateware.usb.usb3.link.header import HeaderQueueArbiter
    from luna.gateware.usb.usb3.protocol.link_management import LinkManagementPacketHandler
    from .c46_ss_in_endpoint import open_protocol_layer, header_arbiter_path, record_same, same
    d, link, ts = open_protocol_layer(c)
    g = ts.instance(TransactionPacketGenerator)
    lmp = ts.instance(LinkManagementPacketHandler)
    header_arbiter_path(c, ts, ts.instance(HeaderQueueArbiter), [("lmp_handler", lmp.header_source), ("tp_generator", g.header_source)],
                        link.header_sink, "tx_headers")
    c.lemma("generator_interface_is_endpoint_handshakes_out", record_same(ts, g.interface, d.endpoint_interface.handshakes_out),
            clause="every field of the endpoint interface's handshakes_out (requests, endpoint number, retry flag, sequence number in; "
                   "ready / done back) is the generator's interface")
    c.lemma("generator_address_is_current_address", same(ts, g.address, d.current_address), clause="carrying the device address")
    c.cosim_cycles = 16


class OpenEndpoint(Elaboratable):
    """Stand-in for an arbitrary endpoint handed to USBSuperSpeedDevice.add_endpoint(): a real SuperSpeedEndpointInterface and an
    empty elaborate().  Every interface signal is made a port by the caller, so whatever the device does not drive (the strobes,
    parameters, new_address / new_config an endpoint produces) is a free input: the obligations hold for every endpoint behaviour."""
    def __init__(self):
        from luna.gateware.usb.usb3.protocol.endpoint import SuperSpeedEndpointInterface
        self.interface = SuperSpeedEndpointInterface()

    def elaborate(self, platform):
        return Module()


def device_wiring(c):
    """USBSuperSpeedDevice.elaborate() with two open endpoints (c46.open_superspeed_device): the `address` input of the real
    TransactionPacketGenerator inside the real USB3ProtocolLayer is the device's address register.

    'The device's address register' is characterised by what the device does with it, on the interface of the real endpoint
    multiplexer and the real link layer (not by the name of a local variable of elaborate()): it is 0 after power-on, is cleared
    while the link layer reports a reset, takes the multiplexer's new_address in the cycle after address_changed, and holds
    otherwise.  A signal obeying that law from reset IS that register, so the obligations are: generator.address obeys the law (init
    + step), and the protocol layer's current_address, the link layer's current_address and the data packet transmitter's address are
    generator.address.  Likewise current_configuration / new_config."""
    from luna.gateware.usb.usb3.protocol.endpoint import SuperSpeedEndpointMultiplexer
    from luna.gateware.usb.usb3.protocol.layer import USB3ProtocolLayer
    from luna.gateware.usb.usb3.link.layer import USB3LinkLayer
    from luna.gateware.usb.usb3.link.data import DataPacketTransmitter
    from hwv.extract import BindingError
    from .c46_ss_in_endpoint import open_superspeed_device, signals_of, same, exactly
    eps = [OpenEndpoint(), OpenEndpoint()]
    d, pipe, ts = open_superspeed_device(c, eps, {k: v for n, e in enumerate(eps) for k, v in signals_of(e.interface, f"ep{n}_").items()})
    S = lambda a, b: same(ts, a, b)
    mux, proto, link = ts.instance(SuperSpeedEndpointMultiplexer), ts.instance(USB3ProtocolLayer), ts.instance(USB3LinkLayer)
    gen, dtx = ts.instance(TransactionPacketGenerator), ts.instance(DataPacketTransmitter)
    sh = mux.shared

    def value(sig):
        """what the readers of `sig` see: its term; constant 0 if nothing drives or reads it in this design (an unconnected port)"""
        try:
            return ts.of(sig)
        except BindingError:
            return bvc(0, sig.shape().width)

    in_reset = ts.of(link.in_reset) == 1
    # (name, reader port, exact width demanded of reader and new_<what> - None: the port's own declared width, see note)
    for what, exact, readers, strobe, new, ep_new in (
            ("address", 7, [("generator_address", gen.address), ("protocol_current_address", proto.current_address),
                            ("link_current_address", link.current_address), ("data_header_address", dtx.address)],
             sh.address_changed, sh.new_address, "new_address"),
            # note: USB3ProtocolLayer.current_configuration is declared Signal(7) while the device's register and new_config are 8 bits
            # wide.  Nothing inside the protocol layer reads it and no property mentions it, so the clause is stated at the port's
            # own width (it shows the low bits of the register); the narrower declaration is reported as an observation only.
            ("configuration", None, [("protocol_current_configuration", proto.current_configuration)], sh.config_changed, sh.new_config,
             "new_config")):
        name, port = readers[0]
        reg, new_v = value(port), value(new)
        w = reg.size()
        ok = (exact is None and new_v.size() >= w) or (reg.size() == exact == new_v.size())
        c.lemma(f"{what}_ports_have_the_register_width", z3.BoolVal(ok),
                clause=f"carrying the device address: no truncation between the multiplexer's new_{what}, the register and its readers")
        if not ok:
            continue
        low = lambda v: z3.Extract(w - 1, 0, v) if v.size() > w else v
        c.ensure(f"{name}_is_the_device_{what}_register",
                 c.nx(reg) == z3.If(in_reset, bvc(0, w), z3.If(ts.of(strobe) == 1, low(new_v), reg)),
                 clause=f"carrying the device address ... present when the request was made: {name.replace('_', '.', 1)} follows the device's "
                        f"{what} register law - cleared while the link is in reset, else new_{what} of the endpoint multiplexer in the cycle after "
                        f"{what}_changed, else unchanged")
        c.lemma(f"{name}_is_zero_after_power_on", z3.substitute(reg, *ts.init_pairs()) == 0,
                clause=f"the {what} register starts at 0 (the default address / unconfigured)")
        for rname, sig in readers[1:]:
            c.lemma(f"{rname}_is_the_same_register", S(sig, port),
                    clause="data headers and transaction packets carry the same device address register")
        # the endpoints' requests for a change reach the register: stated on the open endpoints' own interface signals
        on = [ts.of(getattr(e.interface, f"{what if what == 'address' else 'config'}_changed")) == 1 for e in eps]
        for k, e in enumerate(eps):
            c.ensure(f"ep{k}_{ep_new}_is_adopted_when_it_alone_asks",
                     z3.Implies(z3.And(exactly(on, k), z3.Not(in_reset)), c.nx(reg) == low(ts.of(getattr(e.interface, ep_new)))),
                     clause=f"the device address ... present when the request was made: an endpoint's {ep_new} (SET_ADDRESS / SET_CONFIGURATION "
                            f"handled by a control endpoint) is the register's value from the next cycle on")
        c.ensure(f"{what}_register_holds_without_a_request", z3.Implies(z3.And(z3.Not(z3.Or(*on)), z3.Not(in_reset)), c.nx(reg) == reg))
        c.cover(f"{what}_is_set_by_an_endpoint", z3.And(z3.Not(in_reset), ts.of(strobe) == 1, low(new_v) != 0, low(new_v) != reg), reach=False)
    c.cosim_cycles = 4


def contracts(tier):
    yield ("TransactionPacketGenerator", "", generator)
    yield ("USB3ProtocolLayer", "handshake_wiring", layer_wiring)
    yield ("USB3ProtocolLayer", "wiring_header_path", header_path_wiring)
    yield ("USBSuperSpeedDevice", "wiring_device_address", device_wiring)
