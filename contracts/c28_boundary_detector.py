"""C28 — USBOutStreamBoundaryDetector: same bytes in order, first/last marks, strobes delayed behind the packet.

Observer's view (ghost state, all defined from the unit's inputs/outputs):

  * a *byte is accepted* in a cycle with unprocessed_stream.valid & next;  a *packet* (as far as this unit is concerned)
    opens with its first accepted byte and closes in the first cycle in which unprocessed_stream.valid is low
    (ghost `open`);  `closing` = the packet closed in the previous cycle.
  * n_in / n_out: 16-bit modular counters of bytes accepted / bytes seen on processed_stream (next = 1).
  * symbolic witness: k (rigid) is an arbitrary byte index; when the k-th byte is accepted its value `v` and the flag
    `vf` ("it opened a packet") are captured; `vl` ("it was the final byte of its packet") becomes known when the next
    event of that packet happens (another byte -> 0, packet closes -> 1).
  * seen_c / seen_i: OR of complete_in / invalid_in over the cycles of the open packet (the closing cycle included —
    that is where USBDataPacketReceiver raises packet_complete / crc_mismatch).

Environment assumption (one): no byte is presented in the cycle directly after the cycle in which `valid` fell.  The
detector spends that cycle in OUTPUT_STROBES and does not look at its input; without the assumption the first byte of a
packet that follows with a one-cycle gap is lost.  USB inter-packet gaps and the real producer (USBDataPacketReceiver
needs >= 4 cycles to re-enter RECEIVE_AND_EMIT) guarantee it; UTMI-wf (rx_valid never in the first rx_active cycle)
implies it as well.
"""
import z3
from hwv.contract import B, bvc, zx, bv1
from luna.gateware.usb.stream import USBOutStreamBoundaryDetector

CW = 16


def make(domain):
    def contract(c):
        d = USBOutStreamBoundaryDetector(domain=domain)
        i, o = d.unprocessed_stream, d.processed_stream
        ts = c.unit(d, {"in_valid": i.valid, "in_next": i.next, "in_payload": i.payload,
                        "complete_in": d.complete_in, "invalid_in": d.invalid_in,
                        "out_valid": o.valid, "out_next": o.next, "out_payload": o.payload,
                        "first": d.first, "last": d.last, "complete_out": d.complete_out, "invalid_out": d.invalid_out})
        I, O = ts.inputs, ts.outputs
        fsm = ts.fsm("fsm_state")
        valid, nxt = B(I["in_valid"]), B(I["in_next"])
        byte_in = z3.And(valid, nxt)

        # ---------------------------------------------------------------- ghost state (observer side)
        pv = c.ghost("prev_valid", 1, init=0)
        ppv = c.ghost("prev_prev_valid", 1, init=0)
        c.set_next(pv, bv1(valid))
        c.set_next(ppv, pv)
        opn = c.ghost("open", 1, init=0)                 # a packet has delivered >= 1 byte and has not yet ended
        closing = c.ghost("closing", 1, init=0)          # the packet ended in the previous cycle
        is_open = opn == 1
        ends_now = z3.And(is_open, z3.Not(valid))
        c.set_next(opn, z3.If(is_open, bv1(valid), bv1(byte_in)))
        c.set_next(closing, bv1(ends_now))
        n_in = c.ghost("n_in", CW, init=0)
        n_out = c.ghost("n_out", CW, init=0)
        out_byte = O["out_next"] == 1
        c.set_next(n_in, z3.If(byte_in, n_in + 1, n_in))
        c.set_next(n_out, z3.If(out_byte, n_out + 1, n_out))
        k = c.rigid("k", CW)
        v = c.ghost("v", 8, init=0)
        vf = c.ghost("v_first", 1, init=0)
        vl = c.ghost("v_last", 1, init=0)
        cap = z3.And(byte_in, n_in == k)
        c.set_next(v, z3.If(cap, I["in_payload"], v))
        c.set_next(vf, z3.If(cap, bv1(z3.Not(is_open)), vf))
        c.set_next(vl, z3.If(cap, bvc(0, 1), z3.If(z3.And(ends_now, n_in == k + 1), bvc(1, 1), vl)))
        seen = {}
        for nm in ("complete", "invalid"):
            g = c.ghost("seen_" + nm, 1, init=0)
            c.set_next(g, z3.If(is_open, g | I[nm + "_in"], bvc(0, 1)))
            seen[nm] = g

        # ---------------------------------------------------------------- environment
        c.require("gap_after_packet", z3.Implies(z3.And(ppv == 1, pv == 0), z3.Not(byte_in)),
                  why="no byte is presented in the cycle directly after the cycle in which unprocessed_stream.valid fell "
                      "(USB inter-packet gap; the real producer USBDataPacketReceiver needs >= 4 cycles between packets; "
                      "also implied by UTMI-wf)")

        # ---------------------------------------------------------------- abstraction map
        WAIT, RX, STROBE = "WAIT_FOR_FIRST_BYTE", "RECEIVE_AND_TRANSMIT", "OUTPUT_STROBES"
        buffered_byte, is_first = ts.sig("buffered_byte"), ts.sig("is_first_byte")
        c.inv("fsm_legal", fsm.legal())
        c.inv("receive_iff_packet_open", fsm.is_(RX) == is_open)
        c.inv("strobes_iff_packet_just_closed", fsm.is_(STROBE) == (closing == 1))
        c.inv("open_implies_prev_valid", z3.Implies(is_open, pv == 1))
        c.inv("closing_implies_valid_fell", z3.Implies(closing == 1, z3.And(ppv == 1, pv == 0, z3.Not(is_open))))
        c.inv("last_visible_iff_just_closed", (O["last"] == 1) == (closing == 1))
        c.inv("byte_visible_when_just_closed", z3.Implies(closing == 1, out_byte))
        c.inv("nothing_visible_when_idle", z3.Implies(fsm.is_(WAIT), z3.Not(out_byte)))
        c.inv("valid_while_bytes_flow", z3.Implies(z3.Or(out_byte, closing == 1), O["out_valid"] == 1))
        c.inv("one_byte_held_while_open", n_in - n_out == zx(opn, CW) + zx(O["out_next"], CW))
        c.inv("held_byte_is_witness", z3.Implies(z3.And(is_open, n_in == k + 1),
                                                 z3.And(buffered_byte == v, is_first == vf, vl == 0)))
        c.inv("visible_byte_is_witness", z3.Implies(z3.And(out_byte, n_out == k),
                                                    z3.And(O["out_payload"] == v, O["first"] == vf, O["last"] == vl)))
        for nm in ("complete", "invalid"):
            buf = ts.sig("buffered_" + nm)
            c.inv(f"buffered_{nm}_is_seen", z3.Implies(z3.Or(is_open, closing == 1), buf == seen[nm]))
            c.inv(f"no_{nm}_out_while_open", z3.Implies(is_open, O[nm + "_out"] == 0))

        # ---------------------------------------------------------------- ensures (statement, clause by clause)
        c.ensure("every_byte_but_the_held_one_is_out", n_in - (n_out + zx(O["out_next"], CW)) == zx(opn, CW),
                 clause="the processed stream carries the same bytes as the raw stream: every accepted byte has been output "
                        "exactly once, except the newest byte of a still-open packet (nothing lost, nothing invented)")
        c.ensure("kth_byte_out_is_kth_byte_in", z3.Implies(z3.And(out_byte, n_out == k), O["out_payload"] == v),
                 clause="same bytes, in order: the k-th byte on the processed stream equals the k-th accepted byte (k arbitrary)")
        c.ensure("first_iff_first_byte_of_packet", z3.Implies(z3.And(out_byte, n_out == k), (O["first"] == 1) == (vf == 1)),
                 clause="'first' on the first byte of every packet (and on no other byte)")
        c.ensure("last_iff_final_byte_of_packet", z3.Implies(z3.And(out_byte, n_out == k), (O["last"] == 1) == (vl == 1)),
                 clause="'last' on the final byte of every packet (and on no other byte)")
        # NB: `first` is a qualifier of the byte present on the processed stream (docstring of the unit); the register is
        # left as it is between bytes of a packet (it stays 1 after the first byte until the second byte is output), so
        # nothing is claimed about `first` in cycles without a byte.  `last` is never raised without a byte.
        c.ensure("last_only_accompanies_a_byte", z3.Implies(z3.Not(out_byte), O["last"] == 0),
                 clause="'last' marks a byte of the processed stream (never raised without a byte)")
        c.ensure("bytes_only_while_processed_valid", z3.Implies(out_byte, O["out_valid"] == 1),
                 clause="the processed stream is a receive stream: bytes (next) only while valid")
        c.ensure("final_byte_out_right_after_packet_closes", (c.nx(O["last"]) == 1) == ends_now,
                 clause="the final byte (marked last) is output when the packet ends, once per packet with >= 1 byte")
        for nm in ("complete", "invalid"):
            c.ensure(f"{nm}_out_iff_seen_and_last_byte_just_output",
                     (c.nx(O[nm + "_out"]) == 1) == z3.And(O["last"] == 1, seen[nm] == 1),
                     clause=f"the {nm} strobe seen during a packet is reported only after that packet's last byte has been "
                            f"output: {nm}_out is raised exactly in the cycle after the byte marked last, iff {nm}_in was "
                            f"seen during that packet; one cycle wide; never otherwise")
            c.cover(f"{nm}_reported", O[nm + "_out"] == 1)
            c.cover(f"{nm}_seen_mid_packet", z3.And(is_open, valid, I[nm + "_in"] == 1))
            c.cover(f"{nm}_seen_in_closing_cycle", z3.And(ends_now, seen[nm] == 0, I[nm + "_in"] == 1))
            c.cover(f"{nm}_seen_outside_packet", z3.And(z3.Not(is_open), I[nm + "_in"] == 1))
        c.cover("single_byte_packet", z3.And(out_byte, O["first"] == 1, O["last"] == 1))
        c.cover("three_byte_packet_last", z3.And(out_byte, O["first"] == 0, O["last"] == 1, n_out == 2))
        c.cover("second_packet_first_byte", z3.And(out_byte, O["first"] == 1, n_out == 2, n_out == k))
        c.cover("gap_between_bytes", z3.And(is_open, valid, z3.Not(nxt)))
        c.cover("packet_without_strobe", z3.And(closing == 1, seen["complete"] == 0, seen["invalid"] == 0))
        c.cover("back_to_back_packets", z3.And(byte_in, z3.Not(is_open), ppv == 0, pv == 1, n_in == 1))
    return contract


def contracts(tier):
    yield ("USBOutStreamBoundaryDetector", "domain_usb", make("usb"))
    if tier != "quick":
        yield ("USBOutStreamBoundaryDetector", "domain_sync", make("sync"))
